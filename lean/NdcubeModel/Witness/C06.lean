import NdcubeModel.Props.C06

/-! Non-vacuity for C06: a 3-pixel primary WCS with a 1-pixel extra-coords WCS on pixel axis 1. -/
namespace Ndcube.C06.Witness
open Ndcube

def w : LLWcs Rat :=
  { pixDim := 3, worldDim := 3, p2w := fun q => q, w2p := fun v => v,
    corr := [[true, false, false], [false, true, true], [false, true, true]], shape := some [2, 3, 4] }
def e : LLWcs Rat :=
  { pixDim := 1, worldDim := 1, p2w := fun q => q.map (· * 10), w2p := fun v => v.map (· / 10),
    corr := [[true]], shape := some [3] }

example : ((combinedWcs w (some (e, [1]))).toOption.map fun c => (c.pixDim, c.worldDim, c.p2w [5, 6, 7], c.corr)) =
    some (3, 4, [5, 6, 7, 60], [[true, false, false], [false, true, true], [false, true, true], [false, true, false]]) := by
  decide +kernel
example : ((combinedWcs w (some (e, [1]))).toOption.map fun c => c.w2p (c.p2w [5, 6, 7])) = some [5, 6, 7] := by
  decide +kernel
example : arrayAxisPhysicalTypes w.corr 3 ["a", "b", "c"] = [["b", "c"], ["b", "c"], ["a"]] := by decide

end Ndcube.C06.Witness

namespace Ndcube.C06.Witness2
open Ndcube

/-- a truthful, well-shaped 2-pixel primary WCS and a 1-pixel extra-coords WCS placed on cube pixel axis 1 -/
def wp : LLWcs Rat :=
  { pixDim := 2, worldDim := 2, p2w := fun p => [p.getD 0 0, p.getD 1 0 * 2], w2p := fun _ => [],
    corr := [[true, false], [false, true]], shape := none }
def we : LLWcs Rat :=
  { pixDim := 1, worldDim := 1, p2w := fun p => [p.getD 0 0 + 7], w2p := fun _ => [], corr := [[true]], shape := none }

example : C06.Shaped wp := ⟨rfl, by intro r hr; simp [wp] at hr; rcases hr with rfl | rfl <;> rfl, fun _ => rfl⟩
example : C06.Shaped we := ⟨rfl, by intro r hr; simp [we] at hr; subst hr; rfl, fun _ => rfl⟩
example : ((combinedWcs wp (some (we, [1]))).toOption.map (·.corr)) = some [[true, false], [false, true], [false, true]] := by
  decide
end Ndcube.C06.Witness2
