from common import *
data = np.arange(2*3*4.).reshape(2,3,4)
c = NDCube(data, wcs=wcs3((2,3,4)))
# C02 extra coords slicing
c.extra_coords.add("time", 0, Time("2000-01-01")+np.arange(2)*u.s)
c.extra_coords.add("dist", 1, np.arange(3)*u.m)
c.extra_coords.add("exp", 1, np.arange(3)*u.s+5*u.s)
c.extra_coords.add("en", 2, np.arange(4)*u.J)
tryit("keys", lambda: c.extra_coords.keys())
tryit("mapping", lambda: c.extra_coords.mapping)
tryit("awcv ec", lambda: c.axis_world_coords_values(wcs=c.extra_coords))
s = c[:, 1:3, 1:]
tryit("sliced keys", lambda: s.extra_coords.keys())
tryit("sliced mapping", lambda: s.extra_coords.mapping)
tryit("sliced awcv ec", lambda: s.axis_world_coords_values(wcs=s.extra_coords))
tryit("combined ptypes", lambda: s.combined_wcs.low_level_wcs.world_axis_physical_types)
tryit("aapt", lambda: s.array_axis_physical_types)
s2 = c[0]
tryit("drop keys", lambda: s2.extra_coords.keys())
tryit("drop mapping", lambda: s2.extra_coords.mapping)
tryit("drop gc", lambda: dict(s2.global_coords))
tryit("drop dwd wcs", lambda: s2.wcs.low_level_wcs.dropped_world_dimensions)
