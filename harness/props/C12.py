"""C12 — index_as_cube behaves like indexing the concatenation along the common axis."""
import itertools, random
import numpy as np

import common as C
import wcsfam as W
from core import err_kind

ID = "C12"
MODEL_OP = "iac"
RULE = ("sequences of 1-4 cubes with common-axis lengths 1-4 (ragged), common axis at any cube axis of 1-3-D cubes; "
        "common-axis items: every int in [-L-1, L+1] and every slice with bounds in [-L-2, L+2] or None "
        "(enumerated completely for the quick tier's length tuples), stepped slices as the malformed stream; other axes: "
        "int/slice items. Non-trivial = the common-axis item is not slice(None); distinct = (lengths, common axis, item)")
EXHAUSTIVE = {"quick": False, "thorough": False}
TRUSTED = ["numpy concatenate/indexing as the reference", "C01 (cube slicing) for what each piece reports"]
ASSUMPTIONS = ["cubes have at least one element along the common axis", "empty results are read as 'no cube contributes'"]


def corpus():
    return C.read_corpus(ID)


def other_item(rng, n):
    r = rng.random()
    if r < 0.35:
        return C.sl()
    if r < 0.6:
        return rng.randint(-n, n - 1)
    return C.sl(C.gen_bound(rng, n, 1), C.gen_bound(rng, n, 1))


def mk(rng, lens, ca, nd, citem, others=None, bare=False, fam=None):
    other_dims = [rng.randint(1, 3) for _ in range(nd - 1)]
    shapes = []
    for L in lens:
        sh = list(other_dims); sh.insert(ca, L); shapes.append(sh)
    if bare:
        items = [citem]
    else:
        items = []
        for ax in range(nd):
            if ax == ca:
                items.append(citem)
            else:
                items.append(others if others is not None else other_item(rng, shapes[0][ax]))
        # sometimes leave trailing axes out
        if others is None and rng.random() < 0.3:
            keep = max(ca + 1, rng.randint(1, nd))
            items = items[:keep]
    return {"shapes": shapes, "ca": ca, "items": items, "bare": bare and ca == 0,
            "fam": fam or rng.choice(["probe", "probe_coupled", "fits_sep", "fits_cel"]),
            "wseed": rng.randrange(10**6)}


def generate(rng, tier):
    tuples = []
    maxn = 2 if tier == "quick" else 3
    for n in range(1, maxn + 1):
        for lens in itertools.product(range(1, 4 if tier == "quick" else 5), repeat=n):
            if tier == "quick" and sum(lens) > 5:
                continue
            if tier == "thorough" and sum(lens) > 8:
                continue
            tuples.append(list(lens))
    for lens in tuples:
        L = sum(lens)
        bounds = [None] + list(range(-L - 2, L + 3))
        for ca, nd in ([(0, 1), (1, 2)] if tier == "quick" else [(0, 1), (0, 2), (1, 2), (1, 3), (2, 3)]):
            if nd == 1:
                # 1-D cubes: an int would give a scalar; slices only (and ints to see the refusal)
                pass
            for i in range(-L - 1, L + 2):
                yield mk(rng, lens, ca, nd, i)
            for a in bounds:
                for b in bounds:
                    if tier == "quick" and rng.random() < 0.5:
                        continue
                    yield mk(rng, lens, ca, nd, C.sl(a, b), bare=(nd == 1 and rng.random() < 0.5))
    # every other axis indexed by an integer (several axes dropped in front of the common axis):
    # the new common axis must move down by their number
    for lens in ([[2, 1, 3], [1, 2], [3]] if tier == "quick" else [[2, 1, 3], [1, 2], [3], [1, 1, 1, 2], [2, 2]]):
        L = sum(lens)
        for ca, nd in [(2, 3), (1, 3), (2, 4), (3, 4), (0, 3)]:
            for citem in [C.sl(), C.sl(1, None), C.sl(None, -1), C.sl(1, L - 1), C.sl(-2, None)]:
                for other in (0, -1):
                    yield mk(rng, lens, ca, nd, citem, others=other)
    # a lone int or slice (not a tuple) is an index on the FIRST cube axis, as for numpy - also when the common
    # axis is another one (the common axis is then taken whole)
    for lens in ([[2, 1, 3], [1, 2], [3]] if tier == "quick" else [[2, 1, 3], [1, 2], [3], [1, 1, 1, 2], [2, 2]]):
        for ca, nd in [(1, 2), (1, 3), (2, 3)]:
            for first in (0, 1, -1, C.sl(1, None), C.sl(None, -1), C.sl(0, 2), C.sl()):
                case = mk(rng, lens, ca, nd, C.sl(), others=C.sl())
                n0 = case["shapes"][0][0]
                if isinstance(first, int) and not -n0 <= first < n0:
                    continue
                case["items"] = [first]
                case["bare"] = True
                yield case
    n_random = 600 if tier == "quick" else 60000
    for _ in range(n_random):
        n = rng.randint(1, 4)
        lens = [rng.randint(1, 4) for _ in range(n)]
        L = sum(lens)
        nd = rng.randint(1, 3)
        ca = rng.randrange(nd)
        r = rng.random()
        if r < 0.25:
            citem = rng.randint(-L - 1, L + 1)
        elif r < 0.32:
            citem = C.sl(C.gen_bound(rng, L), C.gen_bound(rng, L), rng.choice([2, -1, 3]))
        elif r < 0.37:
            citem = C.sl()
        else:
            citem = C.sl(C.gen_bound(rng, L), C.gen_bound(rng, L))
        yield mk(rng, lens, ca, nd, citem, bare=rng.random() < 0.2)


def run(case):
    from ndcube import NDCube, NDCubeSequence
    rng = random.Random(case["wseed"] + 5)
    shapes, ca, items = case["shapes"], case["ca"], case["items"]
    seq, cubes = C.build_sequence(shapes, ca, case["fam"], case["wseed"])
    idx = C.to_py_index(items, case.get("bare", False), C.npint_of(case))
    allc = np.concatenate([c.data for c in cubes], axis=ca)
    citem = items[ca] if len(items) > ca else C.sl()
    has_step = any(isinstance(it, dict) and it["s"][2] not in (None, 1) for it in items)
    tags = [f"ncubes={len(shapes)}", f"ndim={len(shapes[0])}", f"ca={ca}", f"fam={case['fam']}",
            "citem=" + C.item_kind(citem, sum(s[ca] for s in shapes))]
    res = {"tags": tags, "oracle": None,
           "model_req": {"op": "iac", "seq": {"shapes": shapes, "commonAxis": ca},
                         "index": {"single": items[0]} if case.get("bare") else {"tuple": items}}}
    if citem != C.sl():
        res["nontrivial"] = repr((tuple(s[ca] for s in shapes), ca, len(shapes[0]), repr(items)))
    try:
        ref, rerr = allc[idx], None
    except IndexError:
        ref, rerr = None, "IndexError"
    try:
        slicer = seq.index_as_cube
        if case["wseed"] % 3 == 1:
            # the same slicer object asked something else first (a request with an entry for every axis, integers
            # off the common axis; then one that is refused): a request is answered from its own item alone
            prior = [0] * len(shapes[0])
            prior[ca] = slice(0, 1)
            for pr in (tuple(prior), (slice(None, None, 2),), (10 ** 6,)):
                try:
                    slicer[pr]
                except Exception:
                    pass
            tags.append("slicer-reused")
        out, err = slicer[idx], None
    except Exception as e:
        out, err = None, err_kind(e)
    res["impl"] = {"err": err}
    tags.append("outcome=" + (err or "ok"))
    if has_step:
        if err is None:
            res["oracle"] = f"stepped item in {items} accepted (must be refused, not ignored)"
        return res
    if rerr:
        if err is None:
            res["oracle"] = f"numpy raises IndexError for {items} on the concatenation, index_as_cube returned a result"
        elif err != "IndexError":
            res["oracle"] = f"position past the end raised {err} instead of IndexError"
        return res
    if np.ndim(ref) == 0:
        if err is None:
            res["oracle"] = "scalar result returned"
        return res
    if err:
        # numpy accepts, result is an array: any refusal is wrong (other-axis out-of-range was handled by rerr)
        res["oracle"] = f"valid index {items} refused with {err}"
        return res
    try:
        fails = []
        is_int = not isinstance(citem, dict)
        if is_int:
            if not isinstance(out, NDCube):
                fails.append(f"integer on the common axis returned {type(out).__name__}")
                pieces = []
            else:
                pieces = [out]
                if not np.array_equal(out.data, ref):
                    fails.append("cube data differs from numpy's result on the concatenation")
                res["obs"] = {"kind": "cube"}
        else:
            if not isinstance(out, NDCubeSequence):
                fails.append(f"slice on the common axis returned {type(out).__name__}")
                pieces = []
            elif type(out) is not type(seq):
                fails.append(f"the result is a {type(out).__name__}, the sequence is a {type(seq).__name__}")
                pieces = []
            else:
                pieces = list(out.data)
                nca = ca - sum(1 for it in items[:ca] if not isinstance(it, dict))
                if out._common_axis != nca:
                    fails.append(f"common axis {out._common_axis}, expected {nca}")
                if out.meta is not seq.meta:
                    fails.append("sequence meta not kept")
                if pieces:
                    joined = np.concatenate([p.data for p in pieces], axis=nca)
                    if joined.shape != ref.shape or not np.array_equal(joined, ref):
                        fails.append(f"joined result differs from numpy: shape {joined.shape} vs {ref.shape}")
                    if any(p.data.size == 0 for p in pieces) and ref.size > 0:
                        fails.append("a cube that contributes nothing is present")
                    ids = [int(np.asarray(p.data).flat[0]) // 10**6 for p in pieces if p.data.size]
                    if ids != sorted(set(ids)):
                        fails.append(f"pieces not in increasing cube order: {ids}")
                elif ref.size != 0:
                    fails.append("empty sequence but numpy's result is not empty")
                res["obs"] = {"kind": "seq", "commonAxis": int(out._common_axis) if out._common_axis is not None else None}
                # the result is a sequence like any other: indexing IT as a cube must again behave like
                # indexing numpy's result (a derived sequence meets state left by the first step)
                if pieces and ref.size > 0 and not fails:
                    try:
                        cls = [int(x) for x in out.cube_like_shape]
                        if cls != list(ref.shape):
                            fails.append(f"cube_like_shape {cls} of the result, numpy's result has shape {list(ref.shape)}")
                        L2 = ref.shape[nca]
                        seconds = [slice(1, None) if L2 > 1 else slice(0, None), slice(None, -1) if L2 > 1 else slice(None)]
                        if ref.ndim > 1:
                            seconds.append(-1)
                        it2 = seconds[case["wseed"] % len(seconds)]
                        idx2 = tuple([slice(None)] * nca + [it2])
                        out2, ref2 = out.index_as_cube[idx2], ref[idx2]
                        got2 = out2.data if isinstance(out2, NDCube) else np.concatenate([p.data for p in out2.data], axis=nca)
                        if got2.shape != ref2.shape or not np.array_equal(got2, ref2):
                            fails.append(f"second step {idx2} on the result: differs from numpy's second step")
                    except Exception as e:
                        fails.append(f"second step on the derived sequence raised {type(e).__name__}: {str(e)[:100]}")
        for p in pieces:
            f = C.world_lockstep(p, cubes, rng, case["fam"].startswith("probe"))
            if f:
                fails.append(f); break
        if pieces:
            res["obs"]["pieces"] = [{"shape": list(p.data.shape), "flat": np.asarray(p.data).ravel().tolist()} for p in pieces]
        elif "obs" in res:
            res["obs"]["pieces"] = []
        if fails:
            res["oracle"] = "; ".join(fails[:3])
    except Exception as e:
        res["oracle"] = f"observing the result of {items} raised {type(e).__name__}: {str(e)[:200]}"
    return res


def compare(case, r, m):
    err = r["impl"]["err"]
    if err:
        if "err" not in m:
            return f"implementation raised {err}, model returns {m.get('kind')}"
        # numpy-style errors on other axes may surface as IndexError or ValueError in either
        return None if m["err"] == err else f"implementation raised {err}, model says {m['err']}"
    if "err" in m:
        return f"implementation returned a result, model says {m['err']}"
    if "obs" not in r:
        return None
    o = r["obs"]
    if o["kind"] != m["kind"]:
        return f"kind: implementation {o['kind']} vs model {m['kind']}"
    shapes = case["shapes"]
    srcs = [np.asarray(C.payload(tuple(sh), k)) for k, sh in enumerate(shapes)]
    mp = [m] if m["kind"] == "cube" else m["pieces"]
    if m["kind"] == "seq" and m["commonAxis"] != o["commonAxis"]:
        return f"common axis: implementation {o['commonAxis']} vs model {m['commonAxis']}"
    if len(mp) != len(o["pieces"]):
        return f"number of pieces: implementation {len(o['pieces'])} vs model {len(mp)}"
    for k, (p, got) in enumerate(zip(mp, o["pieces"])):
        want = srcs[p["cube"]] if p["item"] is None else srcs[p["cube"]][C.to_py_index(p["item"])]
        if list(want.shape) != got["shape"] or not np.array_equal(np.asarray(got["flat"]), want.ravel()):
            return f"piece {k}: implementation holds other elements than the model's cube {p['cube']} item {p['item']}"
    return None


def signature(case, failure):
    return "other:" + failure[:60]


def shrink(case):
    shapes, ca, items = case["shapes"], case["ca"], case["items"]
    if case["fam"] != "probe":
        yield {**case, "fam": "probe"}
    if len(shapes) > 1:
        for k in range(len(shapes)):
            yield {**case, "shapes": shapes[:k] + shapes[k + 1:]}
    for k, sh in enumerate(shapes):
        if sh[ca] > 1:
            new = [list(s) for s in shapes]; new[k][ca] -= 1
            yield {**case, "shapes": new}
    for ax in range(len(items)):
        if ax != ca and items[ax] != C.sl():
            yield {**case, "items": items[:ax] + [C.sl()] + items[ax + 1:]}
