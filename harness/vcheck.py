#!/venv/bin/python
"""vcheck.py <Cnn> [quick|thorough] [--replay FILE]  — see DESIGN.md section 5."""
import argparse, os, sys, traceback
sys.path.insert(0, os.path.dirname(os.path.abspath(__file__)))


def main():
    ap = argparse.ArgumentParser()
    ap.add_argument("prop")
    ap.add_argument("tier", nargs="?", default=None)
    ap.add_argument("--tier", dest="tier_opt", default=None)
    ap.add_argument("--replay", default=None)
    a = ap.parse_args()
    tier = os.environ.get("VERIF_TIER") or a.tier_opt or a.tier or "quick"
    if tier not in ("quick", "thorough"):
        print(f"unknown tier {tier}"); return 2
    seed = int(os.environ.get("VERIF_SEED", "0") or 0)
    os.environ.setdefault("NDCUBE_VERIF", "1")
    import core
    try:
        return core.Runner(a.prop, tier, seed, a.replay).main()
    except Exception:
        print("INFRASTRUCTURE: " + traceback.format_exc()[-3000:])
        return 2


if __name__ == "__main__":
    sys.exit(main())
