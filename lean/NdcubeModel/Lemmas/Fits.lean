import NdcubeModel.Model.Fits

namespace Ndcube

theorem dot_scale (row p c f o : List Rat) (h1 : p.length = row.length) (h2 : c.length = row.length)
    (h3 : f.length = row.length) (h4 : o.length = row.length) (hf : ∀ q ∈ f, q ≠ 0) :
    dot (scaleRow row f) (pixOffset p (newCrpix c f o)) = dot row (pixOffset (mulAdd p f o) c) := by
  induction row generalizing p c f o with
  | nil => simp [scaleRow, dot]
  | cons a as ih =>
    cases p with
    | nil => simp at h1
    | cons x xs =>
      cases c with
      | nil => simp at h2
      | cons y ys =>
        cases f with
        | nil => simp at h3
        | cons g gs =>
          cases o with
          | nil => simp at h4
          | cons z zs =>
            have hg : g ≠ 0 := hf g (List.mem_cons_self ..)
            simp only [scaleRow, newCrpix, pixOffset, mulAdd, dot]
            rw [ih xs ys gs zs (by simpa using h1) (by simpa using h2) (by simpa using h3)
              (by simpa using h4) (fun q hq => hf q (List.mem_cons_of_mem _ hq))]
            congr 1
            grind

/-- One resampling step of the FITS translation is exact: the translated WCS at `p` has the
intermediate coordinates of the original at `p*f + o` (any PC matrix, any offsets). -/
theorem resample_lin (F : Fits) (f o p : List Rat) (n : Nat)
    (hc : F.crpix.length = n) (hrow : ∀ row ∈ F.pc, row.length = n)
    (hf : f.length = n) (ho : o.length = n) (hp : p.length = n) (hne : ∀ q ∈ f, q ≠ 0) :
    (F.resample f o).lin p = F.lin (mulAdd p f o) := by
  simp only [Fits.lin, Fits.resample]
  rw [List.zip_map_right, List.map_map]
  apply List.map_congr_left
  intro cr hcr
  obtain ⟨c, row⟩ := cr
  have hr : row.length = n := hrow row (List.of_mem_zip hcr).2
  simp only [Function.comp, Prod.map]
  congr 1
  exact dot_scale row p F.crpix f o (by omega) (by omega) (by omega) (by omega) hne

end Ndcube

namespace Ndcube

theorem newCrpix_length (c f o : List Rat) (h1 : f.length = c.length) (h2 : o.length = c.length) :
    (newCrpix c f o).length = c.length := by
  induction c generalizing f o with
  | nil => cases f <;> cases o <;> simp [newCrpix]
  | cons x xs ih =>
    cases f with
    | nil => simp at h1
    | cons y ys =>
      cases o with
      | nil => simp at h2
      | cons z zs => simp [newCrpix, ih ys zs (by simpa using h1) (by simpa using h2)]

theorem scaleRow_length (row f : List Rat) (h : f.length = row.length) :
    (scaleRow row f).length = row.length := by
  induction row generalizing f with
  | nil => cases f <;> simp [scaleRow]
  | cons x xs ih =>
    cases f with
    | nil => simp at h
    | cons y ys => simp [scaleRow, ih ys (by simpa using h)]

end Ndcube
