from common import *
from astropy.coordinates import SpectralCoord
import sunpy.coordinates
data = np.arange(4*5*6.).reshape(4,5,6)
w = wlin(3,(4,5,6))
c = NDCube(data, wcs=w)
print(c.array_axis_physical_types)
ll = c.wcs.low_level_wcs
print("units", ll.world_axis_units, ll.world_axis_object_components, ll.world_axis_object_classes.keys())
# crop_by_values
def cbv(*pts, **kw):
    return c.crop_by_values(*pts, **kw)
wv = lambda p: ll.pixel_to_world_values(*p)
print(wv((1,1,1)), wv((3,2,2)))
r = tryit("cbv basic", lambda: cbv([wv((1,1,1))[0]*u.m, wv((1,1,1))[1]*u.s, wv((1,1,1))[2]*u.Hz],[wv((3,2,2))[0]*u.m, wv((3,2,2))[1]*u.s, wv((3,2,2))[2]*u.Hz]).shape)
r = tryit("cbv None comps", lambda: cbv([wv((1,1,1))[0]*u.m, None, None],[wv((3,2,2))[0]*u.m, None,None]).shape)
r = tryit("cbv units kw", lambda: cbv([wv((1,1,1))[0], None, None],[wv((3,2,2))[0], None,None], units=['m','s','Hz']).shape)
r = tryit("cbv allNone", lambda: cbv([None, None, None]).shape)
r = tryit("cbv single pixel", lambda: cbv([wv((1,1,1))[0]*u.m, wv((1,1,1))[1]*u.s, wv((1,1,1))[2]*u.Hz]).shape)
r = tryit("cbv single pixel keepdims", lambda: cbv([wv((1,1,1))[0]*u.m, wv((1,1,1))[1]*u.s, wv((1,1,1))[2]*u.Hz], keepdims=True).shape)
# off-array point
r = tryit("cbv off-array", lambda: cbv([wv((-2,1,1))[0]*u.m, None, None],[wv((3,2,2))[0]*u.m, None,None]).shape)
r = tryit("cbv off-array -1", lambda: cbv([wv((-1,1,1))[0]*u.m, None, None],[wv((3,2,2))[0]*u.m, None,None]).shape)
r = tryit("cbv off-array hi", lambda: cbv([wv((1,1,1))[0]*u.m, None, None],[wv((9,2,2))[0]*u.m, None,None]).shape)
# half pixel
r = tryit("cbv half", lambda: c._get_crop_by_values_item([wv((0.5,1,1))[0]*u.m, None, None],[wv((2.5,2,2))[0]*u.m, None,None]))
r = tryit("cbv half", lambda: c._get_crop_by_values_item([wv((1.5,1,1))[0]*u.m, None, None],[wv((3.5,2,2))[0]*u.m, None,None]))
# crop high level
from astropy.time import Time
r = tryit("world", lambda: c.wcs.pixel_to_world(1,1,1))
p1 = c.wcs.pixel_to_world(1,1,1); p2 = c.wcs.pixel_to_world(3,2,2)
r = tryit("crop hl", lambda: c.crop(p1,p2).shape)
r = tryit("crop hl none", lambda: c.crop([p1[0],None,None],[p2[0],None,None]).shape)
# coupled
c3 = NDCube(np.arange(2*3*4.).reshape(2,3,4), wcs=wcs3((2,3,4)))
q1 = c3.wcs.pixel_to_world(0,0,0); q2 = c3.wcs.pixel_to_world(2,1,1)
print(q1)
r = tryit("crop coupled", lambda: c3.crop(q1,q2).shape)
r = tryit("crop coupled none", lambda: c3.crop([q1[0],None],[q2[0],None]).shape)
r = tryit("crop coupled none2", lambda: c3.crop([None,q1[1]],[None,q2[1]]).shape)
