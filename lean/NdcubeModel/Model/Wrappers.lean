import NdcubeModel.Model.Wcs

/-!
# ndcube's WCS wrappers: resampled, reordered, compound

Mirrors `ndcube/wcs/wrappers/{resampled,reordered,compound}_wcs.py`.  As everywhere, the inner
WCS is a parameter (`∀ w : LLWcs ω`).  Pixel vectors are single points (numpy broadcasting of
array inputs is exercised by the correspondence check, not modelled).
-/

namespace Ndcube

/-- per-axis metadata that wrappers permute / concatenate -/
structure WcsMeta where
  worldTypes : List String      -- world_axis_physical_types (also stands for units / names)
  pixelBounds : Option (List (Rat × Rat))
deriving Repr

/-! ## ResampledLowLevelWCS -/

/-- `top * factor + offset`, element-wise -/
def mulAdd : List Rat → List Rat → List Rat → List Rat
  | p :: ps, f :: fs, o :: os => (p * f + o) :: mulAdd ps fs os
  | _, _, _ => []

/-- `(underlying - offset) / factor`, element-wise -/
def subDiv : List Rat → List Rat → List Rat → List Rat
  | p :: ps, f :: fs, o :: os => ((p - o) / f) :: subDiv ps fs os
  | _, _, _ => []

/-- A factor / offset argument: a scalar is broadcast to every pixel axis. -/
inductive PerAxis where
  | scalar (q : Rat)
  | list (qs : List Rat)
deriving Repr

def PerAxis.expand (n : Nat) : PerAxis → List Rat
  | .scalar q => List.replicate n q
  | .list qs => qs

/-- `ResampledLowLevelWCS(w, factor, offset)`; wrong lengths → `ValueError`. -/
def resampled {ω} (w : LLWcs ω) (factor offset : PerAxis) : Except Err (LLWcs ω) :=
  let f := factor.expand w.pixDim
  let o := offset.expand w.pixDim
  if f.length ≠ w.pixDim then .error .valueError
  else if o.length ≠ w.pixDim then .error .valueError
  else .ok { w with
    p2w := fun p => w.p2w (mulAdd p f o)
    w2p := fun v => subDiv (w.w2p v) f o }

/-- `pixel_shape` of the resampled WCS (pixel order): the underlying shape divided by the factor. -/
def resampledPixelShape (pixelShape : List Nat) (f : List Rat) : List Rat :=
  (pixelShape.zip f).map fun (n, q) => (n : Rat) / q

/-- `pixel_bounds` of the resampled WCS. -/
def resampledBounds (bounds : List (Rat × Rat)) (f o : List Rat) : List (Rat × Rat) :=
  (bounds.zip (f.zip o)).map fun ((lo, hi), (q, c)) => ((lo - c) / q, (hi - c) / q)

/-- What `NDCube.rebin` builds (after the fix): factors `bin_shape[::-1]`, offsets `(bin_shape-1)/2`
reversed into pixel order. -/
def rebinWcs {ω} (w : LLWcs ω) (binShape : List Nat) : Except Err (LLWcs ω) :=
  let f := (binShape.map fun (b : Nat) => (b : Rat)).reverse
  let o := (binShape.map fun (b : Nat) => ((b : Rat) - 1) / 2).reverse
  resampled w (.list f) (.list o)

/-! ## ReorderedLowLevelWCS -/

/-- `sorted(order) == list(range(n))` -/
def isPermOfRange (order : List Nat) (n : Nat) : Bool :=
  decide (order.length = n) && ((List.range n).all fun i => order.contains i) && decide order.Nodup
    && order.all fun i => decide (i < n)

/-- `np.argsort(order)` for a permutation: position of each value. -/
def argsortPerm (order : List Nat) : List Nat :=
  (List.range order.length).map fun i => order.idxOf i

structure Reordered (ω : Type) where
  wcs : LLWcs ω
  worldTypes : List String
  pixelShape : Option (List Nat)

/-- `ReorderedLowLevelWCS(w, pixel_order, world_order)` with the per-axis attributes it re-orders. -/
def reordered {ω} (w : LLWcs ω) (types : List String) (pixelOrder worldOrder : List Nat) :
    Except Err (Reordered ω) :=
  if !isPermOfRange pixelOrder w.pixDim then .error .valueError
  else if !isPermOfRange worldOrder w.worldDim then .error .valueError
  else
    let pinv := argsortPerm pixelOrder
    let winv := argsortPerm worldOrder
    .ok { wcs := { w with
            p2w := fun p => selectIdx worldOrder (w.p2w (selectIdx pinv p))
            w2p := fun v => selectIdx pixelOrder (w.w2p (selectIdx winv v))
            corr := (selectIdx worldOrder w.corr).map fun row => selectIdx pixelOrder row
            shape := none }
          worldTypes := selectIdx worldOrder types
          pixelShape := (w.shape.map List.reverse).map fun ps => selectIdx pixelOrder ps }

/-! ## CompoundLowLevelWCS -/

/-- `Mapping.inverse`: first occurrence of each input index. -/
def mappingInverse (mapping : List Nat) (nInputs : Nat) : List Nat :=
  (List.range nInputs).map fun idx => mapping.idxOf idx

def nInputsOf (mapping : List Nat) : Nat := (mapping.foldl max 0) + 1

/-- split a list into consecutive chunks of the given sizes -/
def splitBy {α} : List Nat → List α → List (List α)
  | [], _ => []
  | n :: ns, l => l.take n :: splitBy ns (l.drop n)

/-- all entries of a shared pixel axis agree (exact comparison stands for `np.allclose`) -/
def sharedAgree (mapping : List Nat) (pix : List Rat) : Bool :=
  (List.range mapping.length).all fun i =>
    (List.range mapping.length).all fun j =>
      mapping.getD i 0 ≠ mapping.getD j 0 ∨ pix.getD i 0 = pix.getD j 0

/-- concatenated pixel shapes of the members (pixel order), when all of them record one -/
def compoundAllShape {ω} (ws : List (LLWcs ω)) : Option (List Nat) :=
  let shapes := ws.map fun w => w.shape.map List.reverse
  if shapes.all Option.isSome then some (shapes.flatMap fun s => s.getD []) else none

/-- members that share a pixel axis disagree about its length -/
def compoundShapeBad {ω} (ws : List (LLWcs ω)) (mapping : List Nat) : Bool :=
  match compoundAllShape ws with
  | none => false
  | some ps =>
    let inv := mappingInverse mapping (nInputsOf mapping)
    -- `Mapping.inverse` needs every input index to occur in the mapping (`tuple.index` raises)
    ((List.range (nInputsOf mapping)).any fun idx => !mapping.contains idx) ||
    (List.range mapping.length).any fun i =>
      ps.getD (inv.getD (mapping.getD i 0) 0) 0 ≠ ps.getD i 0

/-- `pixel_bounds` of the compound WCS from the members' bounds (pixel order): absent when some
member has none; `ValueError` when two members disagree — at either end — about the bounds of a
pixel axis they share (evaluated once at construction) -/
def compoundBounds (bounds : List (Option (List (Rat × Rat)))) (mapping : List Nat) :
    Except Err (Option (List (Rat × Rat))) :=
  if !(bounds.all Option.isSome) then .ok none else
  let pb := bounds.flatMap fun b => b.getD []
  let inv := mappingInverse mapping (nInputsOf mapping)
  if (List.range mapping.length).any fun i =>
      pb.getD (inv.getD (mapping.getD i 0) 0) (0, 0) ≠ pb.getD i (0, 0)
  then .error .valueError else .ok (some (selectIdx inv pb))

/-- block-diagonal correlation matrix of the members over all their pixel axes -/
def blockDiag {ω} (allPix : Nat) : List (LLWcs ω) → Nat → List (List Bool)
  | [], _ => []
  | w :: rest, before =>
    (w.corr.map fun row =>
      List.replicate before false ++ row ++ List.replicate (allPix - before - w.pixDim) false)
    ++ blockDiag allPix rest (before + w.pixDim)

/-- the compound WCS once the mapping has been validated -/
def compoundCore {ω} (ws : List (LLWcs ω)) (mapping : List Nat) : LLWcs ω :=
  let allPix := (ws.map (·.pixDim)).sum
  let nIn := nInputsOf mapping
  let inv := mappingInverse mapping nIn
  { pixDim := nIn
    worldDim := (ws.map (·.worldDim)).sum
    p2w := fun p =>
      (ws.zip (splitBy (ws.map (·.pixDim)) (selectIdx mapping p))).flatMap fun (w, q) => w.p2w q
    w2p := fun v =>
      selectIdx inv ((ws.zip (splitBy (ws.map (·.worldDim)) v)).flatMap fun (w, x) => w.w2p x)
    corr :=
      -- block-diagonal matrix, then OR of the columns mapped to the same input
      (blockDiag allPix ws 0).map fun row =>
        (List.range nIn).map fun ix =>
          (List.range mapping.length).any fun i => mapping.getD i 0 = ix ∧ row.getD i false
    shape := (compoundAllShape ws).map fun ps => (selectIdx inv ps).reverse }

/-- `mapping=None` / empty means the identity mapping -/
def effectiveMapping {ω} (ws : List (LLWcs ω)) (mapping : List Nat) : List Nat :=
  if mapping = [] then List.range (ws.map (·.pixDim)).sum else mapping

/-- `CompoundLowLevelWCS(*ws, mapping=mapping)`. -/
def compound {ω} (ws : List (LLWcs ω)) (mapping : List Nat) : Except Err (LLWcs ω) :=
  let mapping := effectiveMapping ws mapping
  if mapping.length ≠ (ws.map (·.pixDim)).sum then .error .valueError
  else if compoundShapeBad ws mapping then .error .valueError
  else .ok (compoundCore ws mapping)

/-- `world_to_pixel_values` of the compound WCS including the shared-axis consistency check
(after the fix): `ValueError` when members disagree about a shared pixel axis. -/
def compoundW2P {ω} (ws : List (LLWcs ω)) (mapping : List Nat) (v : List ω) : Except Err (List Rat) :=
  let mapping := effectiveMapping ws mapping
  let pix := (ws.zip (splitBy (ws.map (·.worldDim)) v)).flatMap fun (w, x) => w.w2p x
  if !sharedAgree mapping pix then .error .valueError
  else .ok (selectIdx (mappingInverse mapping (nInputsOf mapping)) pix)

end Ndcube

namespace Ndcube

/-- `NDCube.combined_wcs`: the primary WCS alone when there are no extra coords, otherwise
`CompoundLowLevelWCS(wcs, extra_coords.wcs, mapping = range(pixel_n_dim) + extra_coords.mapping)`. -/
def combinedWcs {ω} (w : LLWcs ω) (ec : Option (LLWcs ω × List Nat)) : Except Err (LLWcs ω) :=
  match ec with
  | none => .ok w
  | some (e, m) => compound [w, e] (List.range w.pixDim ++ m)

/-- `NDCube.array_axis_physical_types`: for each array axis (array order) the physical types whose
correlation-matrix column for that axis is set. -/
def arrayAxisPhysicalTypes (corr : List (List Bool)) (pixDim : Nat) (types : List String) : List (List String) :=
  ((List.range pixDim).map fun k =>
    ((List.range types.length).filter fun i => corrAt corr i k).map fun i => types.getD i "").reverse

end Ndcube
