from common import *
def wrot(shape):
    w = WCS(naxis=3)
    w.wcs.ctype = 'WAVE','HPLN-TAN','HPLT-TAN'
    w.wcs.cunit = 'Angstrom','deg','deg'
    w.wcs.cdelt = 0.2,0.01,0.02
    w.wcs.crpix = 1,2,3
    w.wcs.crval = 10,0,0
    w.wcs.pc = [[1,0,0],[0,0.8,-0.6],[0,0.6,0.8]]
    w.array_shape = shape
    return w
shape=(3,4,5)
c = NDCube(np.zeros(shape), wcs=wrot(shape))
print(c.array_axis_physical_types)
ll = c.wcs.low_level_wcs
print(ll.axis_correlation_matrix)
for corners in (False, True):
    vals = c.axis_world_coords_values(pixel_corners=corners)
    print([ (n, v.shape) for n,v in zip(vals._fields, vals)])
    # verify each
    off = -0.5 if corners else 0
    sh = tuple(s+1 for s in shape) if corners else shape
    idx = np.indices(sh)
    full = ll.pixel_to_world_values(*(idx[::-1]+off))  # pixel order
    # vals is in reversed world order
    ok=[]
    for wi, v in enumerate(list(vals)[::-1]):
        unit = u.Unit(ll.world_axis_units[wi])
        corr = ll.axis_correlation_matrix[wi][::-1]  # array order
        sl = tuple(slice(None) if cc else 0 for cc in corr)
        ok.append(np.allclose(v.to_value(unit), full[wi][sl]))
    print(" per-element ok:", ok)
tryit("axes=0", lambda: [v.shape for v in c.axis_world_coords_values(0)])
tryit("axes=-1", lambda: c.axis_world_coords_values(-1)._fields)
tryit("axes='lat'", lambda: c.axis_world_coords_values('lat')._fields)
tryit("axes='pos'", lambda: c.axis_world_coords_values('pos')._fields)
tryit("axes=3", lambda: c.axis_world_coords_values(3)._fields)
tryit("axes=0,'wl'", lambda: c.axis_world_coords_values(0,'wl')._fields)
# C06
c.extra_coords.add("time", 0, Time("2000-01-01")+np.arange(3)*u.s)
c.extra_coords.add(("d1","d2"), (1,2), (np.arange(4)*u.m, np.arange(5)*u.m*2))
cw = c.combined_wcs.low_level_wcs
print(cw.pixel_n_dim, cw.world_n_dim, cw.world_axis_physical_types)
print(cw.axis_correlation_matrix.astype(int))
print(c.array_axis_physical_types)
w = cw.pixel_to_world_values(1,2,1)
print(w, ll.pixel_to_world_values(1,2,1))
tryit("w2p roundtrip", lambda: cw.world_to_pixel_values(*w))
tryit("w2p roundtrip frac", lambda: cw.world_to_pixel_values(*cw.pixel_to_world_values(1.25,2.5,0.75)))
print(c.extra_coords.mapping, c.extra_coords.keys())
