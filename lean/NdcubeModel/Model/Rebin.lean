import NdcubeModel.Model.Py
import NdcubeModel.Model.Array

/-!
# `NDCube.rebin`: values, mask, shape

Mirrors `ndcube/ndcube.py` `NDCube.rebin` (bin-shape sanitising, divisibility check, the
interleaved reshape, reduction over the odd axes, `handle_mask`) and
`_create_masked_array_for_rebinning`.
-/

namespace Ndcube

/-- `np.rint`: round half to even. -/
def rintHalfEven (q : Rat) : Int :=
  let f := q.floor
  let r := q - (f : Rat)
  if r < 1/2 then f
  else if r > 1/2 then f + 1
  else if f % 2 = 0 then f else f + 1

inductive MaskIn where
  | absent
  | scalar (b : Bool)
  | array (bits : List Bool)      -- flat, row-major
deriving Repr

inductive HandleMask where
  | all | any | none
deriving DecidableEq, Repr

structure RebinIn where
  shape : List Nat
  data  : List Val                -- flat, row-major
  mask  : MaskIn
  binShape : List Rat
  op : Reduction
  ignoresMask : Bool
  handleMask : HandleMask

inductive MaskOut where
  | absent
  | scalar (b : Bool)
  | array (bits : List Bool)
deriving Repr

structure RebinOut where
  identity : Bool                 -- `return self`
  shape : List Nat
  values : List (Option Val)      -- `none`: no contributing element (numpy leaves a fill value)
  mask : MaskOut

/-- The mask numpy's masked array applies: none when absent, `False`, or ignored. -/
def effectiveMask (m : MaskIn) (ignores : Bool) : Option (Nat → Bool) :=
  if ignores then none else
  match m with
  | .absent => none
  | .scalar false => none
  | .scalar true => some fun _ => true
  | .array bits => some fun i => bits.getD i false

/-- the bin shape the code uses: `np.rint(bin_shape).astype(int)` -/
def binInts (x : RebinIn) : List Nat := x.binShape.map fun q => (rintHalfEven q).toNat

/-- `(np.mod(data_shape, bin_shape) != 0).any()` -/
def nonDivisor (shape f : List Nat) : Bool := (shape.zip f).any fun (n, b) => n % b ≠ 0

/-- flat positions, through the interleaved view, of the members of output element `j` -/
def viewMembers (newShape f j : List Nat) : List Nat :=
  (allIndices f).map fun k => ravel (interleave newShape f) (interleave j k)

def rebinValue (x : RebinIn) (ms : List Nat) : Option Val :=
  let contributing := match effectiveMask x.mask x.ignoresMask with
    | none => ms
    | some isMasked => ms.filter fun i => !isMasked i
  reduce x.op (contributing.map fun i => x.data.getD i .nan)

def rebinMaskBit (hm : HandleMask) (bits : List Bool) (ms : List Nat) : Bool :=
  let bs := ms.map fun i => bits.getD i false
  if hm = .all then bs.all id else bs.any id

def rebinMask (x : RebinIn) (js : List (List Nat)) (members : List Nat → List Nat) : MaskOut :=
  match x.handleMask with
  | .none => .absent
  | hm =>
    match x.mask with
    | .absent => .absent
    | .scalar b => .scalar b
    | .array bits => .array (js.map fun j => rebinMaskBit hm bits (members j))

def rebinWith (x : RebinIn) (f : List Nat) : Except Err RebinOut :=
  if f.all (· == 1) then
    .ok { identity := true, shape := x.shape, values := x.data.map some,
          mask := match x.mask with
            | .absent => .absent
            | .scalar b => .scalar b
            | .array bits => .array bits }
  else if f.length ≠ x.shape.length then .error .valueError
  else if nonDivisor x.shape f then .error .valueError
  else
    let newShape := zipDiv x.shape f
    .ok { identity := false, shape := newShape,
          values := (allIndices newShape).map fun j => rebinValue x (viewMembers newShape f j),
          mask := rebinMask x (allIndices newShape) (viewMembers newShape f) }

def rebin (x : RebinIn) : Except Err RebinOut := rebinWith x (binInts x)

end Ndcube
