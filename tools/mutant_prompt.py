#!/usr/bin/env python3
"""Print the brief for a mutation sub-agent: property text + scratch worktree only (nothing from /verif's machinery)."""
import json, sys
pid, wt = sys.argv[1], sys.argv[2]
variant = sys.argv[3] if len(sys.argv) > 3 else "a"
p = [json.loads(l) for l in open("/verif/properties.jsonl") if json.loads(l)["id"] == pid][0]
print(f"""You are helping to test a verification tool. Your job: write ONE realistic, subtle code change (a "seeded bug") to the Python library sunpy/ndcube that BREAKS the behavioural property quoted below, while the library still imports and its existing test-suite still passes.

Work ONLY inside your own scratch git worktree of the library at {wt} (already created for you; it is a checkout of the library's current HEAD). Do not read, list or touch anything under /verif, and do not modify /repo. Run Python as:  cd {wt} && PYTHONPATH={wt} /venv/bin/python ...   (this makes `import ndcube` use your worktree; check with `python -c "import ndcube; print(ndcube.__file__)"`).

THE PROPERTY ({pid}: {p['title']})
{p['statement']}
Scope: {p['quantifier']['text']}
Code involved: {', '.join(p['anchors']['files'])}; mechanisms: {'; '.join(m['name'] for m in p['anchors']['mechanism'])}

WHAT TO PRODUCE
1. A small change (a few lines, in the library's source under {wt}/ndcube, not in tests) that makes the property false. It must look like a plausible developer mistake or "optimisation" (off-by-one, wrong axis order, stale state, a condition that is subtly too narrow/too wide, two sites that each look fine alone...). It must NOT be exposed by ordinary, everyday use at once: it should need something specific to manifest — an unusual but valid input (e.g. a particular combination of dimensionality / negative index / ragged lengths / axis order / more than two members), a multi-step sequence of operations, or a particular configuration. Variant hint for diversity: you are variant "{variant}" — if "a", prefer an arithmetic/indexing slip; if "b", prefer a state/aliasing/ordering or a condition-coverage slip in a different function than the most obvious one; if "c", prefer a slip that only shows in an unusual-but-valid configuration or a second code path named in the property's scope (e.g. dask payloads, scalar masks, unit None, length-1 axes, negative axis numbers, keepdims, reflected operators, the by-values form versus the high-level form, low-level versus high-level WCS arguments, chains of two operations) and that is NOT one of these already-used ideas: wrong axis order in moveaxis, negative-index normalisation, wrong rounding rule, shallow copy instead of deep copy, set ordering.
2. The existing test-suite must still pass with your change: run
   cd {wt} && PYTHONPATH={wt} /venv/bin/python -m pytest -q -p no:cacheprovider --timeout=900 --continue-on-collection-errors ndcube 2>&1 | tail -5
   and compare with the same command on the unchanged tree (toggle your change with `git diff -- ndcube > /tmp/<your-id>.diff; git apply -R /tmp/<your-id>.diff` and `git apply /tmp/<your-id>.diff`; do NOT use `git stash`: the stash is shared between all worktrees of this repository and other people are working in sibling worktrees): the set of passing tests must not shrink (the run takes under a minute; some tests/collections already fail on the unchanged tree in this environment; that is expected — only regressions matter).
3. A demonstration script {wt}/demo_{pid}.py (plain Python, no pytest needed) that exits 0 and prints PASS on the unchanged tree and exits 1 and prints FAIL (with a short explanation of what went wrong) with your change applied. It should check the property directly on a concrete input (compare against numpy / the source cube's own WCS etc.).
4. Save your change as a patch:  cd {wt} && git diff -- ndcube > {wt}/patch.diff   (the demo script must not be in the patch).
5. Final answer: a short report with (a) the patch, (b) what specific input/sequence is needed for the bug to manifest and why ordinary use would not expose it, (c) the exact commands you ran and their outcomes (tests before/after, demo before/after).

Keep it to one bug. Do not weaken or edit existing tests. Do not add new files to the library. Leave the worktree with your change applied, patch.diff and demo_{pid}.py present.""")
