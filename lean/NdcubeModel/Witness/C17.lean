import NdcubeModel.Props.C17

/-! Non-vacuity for C17: ragged lengths, a 2-D coordinate whose second axis is the common one. -/
namespace Ndcube.C17.Witness
open Ndcube

def c (j : Nat) : CoordArr (Nat × List Nat) := { axes := [0, 2], val := fun ix => (j, ix) }

example : ((commonAxisCoords [2, 1, 3] c 2).map fun f => f [7]) =
    [(0, [7, 0]), (0, [7, 1]), (1, [7, 0]), (2, [7, 0]), (2, [7, 1]), (2, [7, 2])] := by decide
example : locate [2, 1, 3] 4 = some (2, 1) := by decide
example : ([0, 2] : List Nat).Pairwise (· < ·) ∧ 2 ∈ ([0, 2] : List Nat) ∧ axisPos [0, 2] 2 = 1 := by decide
example : seqAxisCoords [[("a", 1), ("b", 2)], [("b", 3), ("a", 4), ("c", 5)], [("a", 6), ("b", 7)]]
    = [("a", [some 1, some 4, some 6]), ("b", [some 2, some 3, some 7])] := by decide
example : seqAxisCoords [[("a", 1), ("b", 2)], [("b", 3)]] = [("b", [some 2, some 3])] := by decide

end Ndcube.C17.Witness
