import NdcubeModel.Model.Cube

/-!
# NDCubeSequence: indexing, exploding, `index_as_cube`

A sequence is described by the shapes of its cubes and its common axis.  Results are
*views*: lists of `(cube position, item applied to that cube)`, so "which cube came back and
what was done to it" is explicit.  The per-cube effect of an item is `Cube.getitem` (C01).

Mirrors (after the `fix:` commits recorded in known_findings.json):
* `NDCubeSequenceBase.__getitem__`, `explode_along_axis`, `_shape`, `cube_like_shape`
* `_IndexAsCubeSlicer.__getitem__`
* `utils.sequence.cube_like_index_to_sequence_and_common_axis_indices`
* `utils.sequence.cube_like_tuple_item_to_sequence_items`
-/

namespace Ndcube

structure Seq where
  shapes : List (List Nat)
  commonAxis : Option Nat
deriving Repr

/-- What indexing a sequence returns. `items = none` means the cube object itself. -/
inductive SeqResult where
  | cube (idx : Nat) (items : Option (List Item))
  | seq (pieces : List (Nat × Option (List Item))) (commonAxis : Option Nat)
deriving Repr

/-- The index handed to `NDCubeSequence.__getitem__`. -/
inductive SeqIndex where
  | single (it : Item)          -- a bare int / slice / Ellipsis
  | tuple (its : List Item)
deriving Repr

/-- Common axis after dropping the axes that `rest` (one entry per leading cube axis) indexes
with an integer. -/
def newCommonAxis (ca : Option Nat) (rest : List Item) : Option Nat :=
  match ca with
  | none => none
  | some a =>
    if a < rest.length ∧ (rest.getD a Item.all).isInt then none
    else some (a - countInts (rest.take a))

/-- Does `cube[rest]` succeed for a cube of this shape?  (index validity + scalar refusal;
the WCS is assumed to have every pixel axis correlated with some world axis) -/
def cubeItemCheck (shape : List Nat) (rest : List Item) : Except Err Unit := do
  let its ← normItems shape rest
  let _ ← applyAxes shape its
  if its.all Item.isInt then .error .valueError else pure ()

def Seq.ndimCube (s : Seq) : Nat := (s.shapes.headD []).length

def Seq.getitem (s : Seq) (ix : SeqIndex) : Except Err SeqResult :=
  let n := s.shapes.length
  match ix with
  | .single (.int i) => do
    let k ← normIndex n i
    pure (.cube k none)
  | .single (.slice a b st) => do
    let sel ← sliceIndices n a b st
    pure (.seq (sel.map fun k => (k, none)) s.commonAxis)
  | .single .none => .error .typeError
  | ix =>
    let its := match ix with
      | .tuple its => its
      | .single it => [it]
    if countEllipsis its > 1 then .error .indexError else
    let its :=
      if countEllipsis its = 1 then expandEllipsis ((1 + s.ndimCube) - (its.length - 1)) its else its
    match its with
    | [] => .error .indexError
    | it0 :: rest =>
      match it0 with
      | .int i => do
        let k ← normIndex n i
        cubeItemCheck (s.shapes.getD k []) rest
        pure (.cube k (some rest))
      | .slice a b st => do
        let sel ← sliceIndices n a b st
        let _ ← sel.mapM fun k => cubeItemCheck (s.shapes.getD k []) rest
        pure (.seq (sel.map fun k => (k, some rest)) (newCommonAxis s.commonAxis rest))
      | _ => .error .typeError

/-! ## shape / cube_like_shape -/

/-- One entry of `NDCubeSequence.shape`: an int or, along a ragged common axis, a tuple. -/
inductive Dim where
  | int (n : Nat)
  | ragged (ns : List Nat)
deriving Repr, DecidableEq

/-- `len(np.unique(lengths)) == 1`: there is a length and every cube has it -/
def allSame : List Nat → Bool
  | [] => false
  | x :: xs => xs.all (· == x)

def Seq.shape (s : Seq) : List Dim :=
  let first := s.shapes.headD []
  let dims := (Dim.int s.shapes.length) :: first.map Dim.int
  match s.commonAxis with
  | none => dims
  | some a =>
    let lens := s.shapes.map fun sh => sh.getD a 0
    if !allSame lens then dims.set (a + 1) (.ragged lens) else dims

def Seq.cubeLikeShape (s : Seq) : Except Err (List Nat) :=
  match s.commonAxis with
  | none => .error .typeError
  | some a =>
    let first := s.shapes.headD []
    let total := (s.shapes.map fun sh => sh.getD a 0).sum
    .ok (first.set a total)

/-! ## explode_along_axis -/

/-- `[slice(None)] * ndim` with `index` at `axis`. -/
def explodeItem (ndim axis index : Nat) : List Item :=
  (List.range ndim).map fun k => if k = axis then Item.int index else Item.all

/-- `NDCubeSequence.explode_along_axis(axis)` (negative axes are normalised with the cube
dimensionality): every slice along `axis` of every cube, in order. -/
def Seq.explode (s : Seq) (axis : Int) : Except Err SeqResult :=
  let nd := s.ndimCube
  let ax : Int := if axis < 0 then nd + axis else axis
  if ax < 0 ∨ ax ≥ nd then .error .indexError else
  let a := ax.toNat
  let pieces := (List.range s.shapes.length).flatMap fun k =>
    (List.range ((s.shapes.getD k []).getD a 0)).map fun i => (k, some (explodeItem nd a i))
  -- slicing a 1-D cube to a scalar is refused (as soon as there is a slice to take)
  if nd ≤ 1 ∧ pieces ≠ [] then .error .valueError else
  let ca := match s.commonAxis with
    | none => none
    | some c => if c = a then none else if c > a then some (c - 1) else some c
  .ok (.seq pieces ca)

/-! ## index_as_cube -/

/-- `cube_like_index_to_sequence_and_common_axis_indices`: the cube that holds position `idx`
of the concatenated common axis and the offset inside it (`none`: past the end, the code
raises `IndexError`). -/
def locate : List Nat → Nat → Option (Nat × Nat)
  | [], _ => none
  | l :: ls, idx =>
    if idx < l then some (0, idx)
    else (locate ls (idx - l)).map fun (s, o) => (s + 1, o)

/-- A piece of a cube-like slice: cube position and the half-open range `[lo, hi)` (`hi = none`
means "to the end") applied to the common axis. -/
structure Piece where
  cube : Nat
  lo : Option Nat
  hi : Option Nat
deriving Repr, DecidableEq

/-- `cube_like_tuple_item_to_sequence_items` for a normalised range `lo < hi ≤ total`. -/
def iacPieces (lens : List Nat) (lo hi : Nat) : Except Err (List Piece) :=
  match locate lens lo, locate lens (hi - 1) with
  | some (s0, o0), some (s1, o1) =>
    let o1 := o1 + 1
    if s1 - s0 = 0 then .ok [⟨s0, some o0, some o1⟩]
    else
      .ok ([⟨s0, some o0, none⟩]
        ++ ((List.range (s1 - s0 - 1)).map fun k => (⟨s0 + 1 + k, none, none⟩ : Piece))
        ++ [⟨s1, some 0, some o1⟩])
  | _, _ => .error .indexError

def Piece.item (p : Piece) : Item :=
  .slice (p.lo.map fun (n : Nat) => (n : Int)) (p.hi.map fun (n : Nat) => (n : Int)) none

/-- `seq.index_as_cube[item]`.  `lens` are the common-axis lengths, `ca` the common axis,
`nd` the cube dimensionality. -/
def iacGetitem (s : Seq) (ix : SeqIndex) : Except Err SeqResult :=
  match s.commonAxis with
  | none => .error .valueError
  | some ca =>
    let nd := s.ndimCube
    let lens := s.shapes.map fun sh => sh.getD ca 0
    let total := lens.sum
    let item : List Item := match ix with
      | .single it => it :: List.replicate (nd - 1) Item.all
      | .tuple its => its ++ List.replicate (nd - its.length) Item.all
    let itc := item.getD ca Item.all
    if itc = Item.all then
      s.getitem (.tuple (Item.all :: item))
    else
    let nca := ca - countInts (item.take ca)
    match itc with
    | .int i =>
      if ¬ (-(total : Int) ≤ i ∧ i < total) then .error .indexError else
      let i' : Nat := (if i < 0 then i + total else i).toNat
      match locate lens i' with
      | none => .error .indexError
      | some (k, o) =>
        let cubeItem := item.set ca (.int o)
        do
          cubeItemCheck (s.shapes.getD k []) cubeItem
          pure (.cube k (some cubeItem))
    | .slice a b st =>
      if st.isSome ∧ st ≠ some 1 then .error .indexError else
      let (lo, hi) := sliceBounds total a b
      if hi ≤ lo then .ok (.seq [] (some nca)) else
      do
        let ps ← iacPieces lens lo hi
        let pieces := ps.map fun p => (p.cube, some (item.set ca p.item))
        let _ ← pieces.mapM fun (k, it) => cubeItemCheck (s.shapes.getD k []) (it.getD [])
        pure (.seq pieces (some nca))
    | _ => .error .typeError

end Ndcube
