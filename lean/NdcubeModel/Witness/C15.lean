import NdcubeModel.Props.C15

/-! Non-vacuity for C15: a 2-D FITS description with a non-diagonal PC matrix under a slice and a
resampling wrapper, and the unit-factor wrapper with an offset (seeded change C15-c / C15-d). -/
namespace Ndcube.C15.Witness
open Ndcube

def F0 : Fits := { crpix := [1, 3/2], cdelt := [2, 1/2], pc := [[3/5, -4/5], [4/5, 3/5]], naxis := [6, 8] }
/-- innermost first: slice starting at pixel (1, 2), then resampling by (2, 3) with offsets (1/2, 1) -/
def steps : List Step := [⟨[1, 1], [1, 2]⟩, ⟨[2, 3], [1/2, 1]⟩]

example : Fits.WF F0 2 := by
  refine ⟨rfl, ?_⟩
  intro row hrow
  simp only [F0, List.mem_cons, List.not_mem_nil, or_false] at hrow
  rcases hrow with rfl | rfl <;> rfl
example : ∀ s ∈ steps, s.OK 2 := by
  intro s hs
  simp only [steps, List.mem_cons, List.not_mem_nil, or_false] at hs
  rcases hs with rfl | rfl <;> refine ⟨rfl, rfl, ?_⟩ <;> decide +kernel
-- the conclusion of `unwrap_equiv` on a concrete off-grid pixel
example : (applySteps F0 steps).lin [1/4, 2] = F0.lin (chainPix steps [1/4, 2]) := by decide +kernel
example : chainPix steps [1/4, 2] = [2, 9] := by decide +kernel
-- a unit factor with a non-zero offset still moves the reference pixel (what seeds C15-c / C15-d dropped)
example : (F0.resample [1, 1] [1/2, 2]).crpix = [1/2, -1/2] ∧ (F0.resample [1, 1] [1/2, 2]).pc = F0.pc := by
  decide +kernel
-- the chain walk: an integer slice flags its axis as dropped, the resampling wrapper above it has
-- one factor per kept axis and is expanded with factor 1 / offset 0 at the dropped position
example : ((unwrap F0 [.resampled [2] [1/2], .sliced [.int 3, .slice (some 1) (some 5) none]]).toOption.map
    fun r => (r.1.crpix, r.1.naxis, r.2)) = some ([1/4, -3/2], [2, 1], [true, false]) := by decide +kernel
example : fillKept (0 : Rat) [false, true, false] (mulAdd [1, 2] [2, 3] [1/2, 1]) = [5/2, 0, 7] ∧
    nKept [false, true, false] = 2 := by decide +kernel
example : (unwrap F0 [.sliced [.all, .all], .unknown]).toOption = none := by decide +kernel
example : (unwrapAny none []).toOption = none ∧ (unwrapAny none [.sliced [.all]]).toOption = none ∧
    ((unwrapAny (some F0) []).toOption.map fun r => r.2) = some [false, false] := by decide +kernel

end Ndcube.C15.Witness
