import NdcubeModel.Model.Rebin

/-!
# Uncertainty propagation in `NDCube.rebin` (variance form)

Mirrors `NDCube.rebin` (flattening so that axis 0 enumerates the block members, warning
branches) and `utils.cube.propagate_rebin_uncertainties` for the additive operations
(sum, mean, nansum, nanmean) after the `fix:` commits.  Uncertainties are carried as variances
over `Rat` (a standard deviation `σ` is its square), so no square root is needed:
astropy's `propagate(np.add)` with correlation 0 adds variances.  The multiplicative path
(`prod`) is a recorded known finding and is not modelled.
-/

namespace Ndcube

/-- `unravel`: the row-major multi-index of flat position `m` in `shape`. -/
def unravel : List Nat → Nat → List Nat
  | [], _ => []
  | _ :: ss, m => (m / prodL ss) :: unravel ss (m % prodL ss)

/-- flat position, in the cube's array, of element `(m, j)` of the flattened
`(∏f, *new_shape)` arrays handed to the propagation function:
`moveaxis(reshape(interleaved), odd axes, front).reshape(flat_shape)` -/
def flatMember (newShape f : List Nat) (m : Nat) (j : List Nat) : Nat :=
  ravel (interleave newShape f) (interleave j (unravel f m))

inductive UncertKind where
  | absent | unknown | std | var
deriving DecidableEq, Repr

inductive PropOutcome where
  | warnNoUncertainty | warnUnknown | warnAllMasked | propagate
deriving DecidableEq, Repr

/-- the branches of `rebin` that decide whether uncertainties are propagated at all -/
def propOutcome (k : UncertKind) (mask : MaskIn) (ignoresMask : Bool) : PropOutcome :=
  match k with
  | .absent => .warnNoUncertainty
  | .unknown => .warnUnknown
  | _ =>
    let allMasked := match mask with
      | .absent => false
      | .scalar b => b
      | .array bits => bits.all id
    if !ignoresMask && allMasked then .warnAllMasked else .propagate

/-- one member of a block as seen by the propagation function -/
structure Member where
  value : Val
  variance : Rat
  masked : Bool
deriving Repr

def isNanOp : Reduction → Bool
  | .nansum | .nanmean => true
  | _ => false

def isMeanOp : Reduction → Bool
  | .mean | .nanmean => true
  | _ => false

/-- a member does not contribute when it is masked (and the mask is honoured) or, for the
nan-operations, when its data is NaN -/
def excluded (op : Reduction) (ignoresMask : Bool) (m : Member) : Bool :=
  (!ignoresMask && m.masked) || (isNanOp op && m.value.isNan)

/-- The fold of `propagate_rebin_uncertainties` for the additive operations, in variance form:
seed with the first member (zeroed when excluded), add every further member (zeroed when
excluded), divide by the square of the contributing count (at least 1) for means. -/
def propagateAdd (op : Reduction) (ignoresMask : Bool) (ms : List Member) : Option Rat :=
  match ms with
  | [] => none
  | m0 :: rest =>
    let v (m : Member) : Rat := if excluded op ignoresMask m then 0 else m.variance
    let total := rest.foldl (fun acc m => acc + v m) (v m0)
    if isMeanOp op then
      let n := (ms.filter fun m => !excluded op ignoresMask m).length
      let n' : Nat := if n = 0 then 1 else n
      some (total / ((n' : Rat) * (n' : Rat)))
    else some total

end Ndcube
