from common import *
d = np.arange(4*5*6.).reshape(4,5,6)
c = NDCube(d, wcs=wcs3((4,5,6)))
ec = ExtraCoords()
ec.wcs = wlin(1,(5,)); ec.mapping = (0,)
c._extra_coords = ec
tryit("ec mapping", lambda: (c.extra_coords.mapping, c.extra_coords.keys()))
tryit("combined", lambda: c.combined_wcs.low_level_wcs.world_axis_physical_types)
tryit("aapt", lambda: c.array_axis_physical_types)
tryit("awcv ec", lambda: c.axis_world_coords_values(wcs=c.extra_coords))
tryit("slice", lambda: c[1:3, 1:4, 2].extra_coords.mapping)
tryit("slice int", lambda: c[0].extra_coords.mapping)
# full-dim wcs ec
c2 = NDCube(d, wcs=wcs3((4,5,6)))
ec2 = ExtraCoords(); ec2.wcs = wlin(3,(4,5,6)); ec2.mapping=(0,1,2); c2._extra_coords = ec2
s = tryit("slice full", lambda: c2[1:3, 1, 2:])
if s is not None:
    tryit(" mapping", lambda: s.extra_coords.mapping)
    tryit(" awcv", lambda: s.axis_world_coords_values(wcs=s.extra_coords))
    tryit(" gc", lambda: dict(s.global_coords))
