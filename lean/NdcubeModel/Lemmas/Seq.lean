import NdcubeModel.Model.Sequence

/-! Lemmas behind C12: cumulative-length decomposition and the piecewise slice of a
concatenation. -/

namespace Ndcube

variable {α : Type}

/-- What a piece selects from the list of (1-D) cubes. -/
def applyPiece (cubes : List (List α)) (p : Piece) : List α :=
  let c := cubes.getD p.cube []
  ((c.drop (p.lo.getD 0)).take (p.hi.getD c.length - p.lo.getD 0))

def Piece.shift (p : Piece) : Piece := { p with cube := p.cube + 1 }

theorem applyPiece_shift (c : List α) (cs : List (List α)) (p : Piece) :
    applyPiece (c :: cs) p.shift = applyPiece cs p := by
  simp [applyPiece, Piece.shift]

theorem locate_ge (l : Nat) (ls : List Nat) (idx : Nat) (h : l ≤ idx) :
    locate (l :: ls) idx = (locate ls (idx - l)).map fun (s, o) => (s + 1, o) := by
  simp [locate, Nat.not_lt.mpr h]

theorem locate_lt (l : Nat) (ls : List Nat) (idx : Nat) (h : idx < l) :
    locate (l :: ls) idx = some (0, idx) := by
  simp [locate, h]

/-- `locate` succeeds exactly below the total length, and returns a position inside the
cube it names whose prefix sum plus offset is the index. -/
theorem locate_spec (lens : List Nat) (idx : Nat) (h : idx < lens.sum) :
    ∃ s o, locate lens idx = some (s, o) ∧ s < lens.length ∧ o < lens.getD s 0 ∧
      (lens.take s).sum + o = idx := by
  induction lens generalizing idx with
  | nil => simp at h
  | cons l ls ih =>
    by_cases hl : idx < l
    · exact ⟨0, idx, locate_lt l ls idx hl, by simp, by simpa using hl, by simp⟩
    · have hl' : l ≤ idx := Nat.not_lt.mp hl
      have : idx - l < ls.sum := by simp at h; omega
      obtain ⟨s, o, hloc, hs, ho, hsum⟩ := ih (idx - l) this
      refine ⟨s + 1, o, ?_, by simpa using hs, by simpa using ho, ?_⟩
      · rw [locate_ge l ls idx hl', hloc]; rfl
      · simp [List.take_succ_cons]; omega

theorem locate_none (lens : List Nat) (idx : Nat) (h : lens.sum ≤ idx) : locate lens idx = none := by
  induction lens generalizing idx with
  | nil => rfl
  | cons l ls ih =>
    simp at h
    have hl : l ≤ idx := by omega
    rw [locate_ge l ls idx hl, ih (idx - l) (by omega)]; rfl

/-- Taking `m+1` elements of a concatenation = the whole cubes before the one that holds
position `m`, then the first `o+1` elements of that cube. -/
theorem take_flatten_locate (cs : List (List α)) (m s o : Nat)
    (h : locate (cs.map List.length) m = some (s, o)) :
    cs.flatten.take (m + 1) = (cs.take s).flatten ++ (cs.getD s []).take (o + 1) := by
  induction cs generalizing m s o with
  | nil => simp [locate] at h
  | cons c cs ih =>
    simp only [List.map_cons] at h
    by_cases hl : m < c.length
    · rw [locate_lt _ _ _ hl] at h
      cases h
      simp [List.take_append]
      have : m + 1 - c.length = 0 := by omega
      simp [this]
    · have hl' : c.length ≤ m := Nat.not_lt.mp hl
      rw [locate_ge _ _ _ hl'] at h
      cases hloc : locate (cs.map List.length) (m - c.length) with
      | none => simp [hloc] at h
      | some so =>
        obtain ⟨s', o'⟩ := so
        simp [hloc] at h
        obtain ⟨rfl, rfl⟩ := h
        have := ih (m - c.length) s' o' hloc
        simp only [List.flatten_cons, List.take_succ_cons, List.getD_cons_succ]
        rw [List.take_append]
        have h1 : (m + 1 - c.length) = (m - c.length) + 1 := by omega
        have h2 : c.take (m + 1) = c := List.take_of_length_le (by omega)
        rw [h1, this, h2, List.append_assoc]

theorem flatten_range_getD (cs : List (List α)) (s : Nat) (h : s ≤ cs.length) :
    ((List.range s).map fun k => cs.getD k []).flatten = (cs.take s).flatten := by
  induction s with
  | zero => simp
  | succ n ih =>
    have hn : n < cs.length := by omega
    rw [List.range_succ, List.map_append, List.flatten_append, ih (by omega)]
    have : cs.take (n + 1) = cs.take n ++ [cs[n]] := by
      rw [List.take_add_one]; simp [hn]
    rw [this, List.flatten_append]
    simp [List.getD, hn]

end Ndcube

namespace Ndcube
variable {α : Type}

theorem iacPieces_shift (l : Nat) (ls : List Nat) (lo hi : Nat) (h1 : l ≤ lo) (h2 : lo < hi) :
    iacPieces (l :: ls) lo hi = (iacPieces ls (lo - l) (hi - l)).map fun ps => ps.map Piece.shift := by
  have h3 : l ≤ hi - 1 := by omega
  have h4 : hi - 1 - l = hi - l - 1 := by omega
  simp only [iacPieces, locate_ge l ls lo h1, locate_ge l ls (hi - 1) h3, h4]
  cases locate ls (lo - l) with
  | none => simp [Except.map]
  | some a =>
    obtain ⟨s0, o0⟩ := a
    cases locate ls (hi - l - 1) with
    | none => simp [Except.map]
    | some b =>
      obtain ⟨s1, o1⟩ := b
      simp only [Option.map_some, Except.map]
      have : s1 + 1 - (s0 + 1) = s1 - s0 := by omega
      rw [this]
      split
      · simp [Piece.shift]
      · simp [Piece.shift, Nat.add_assoc, Nat.add_comm 1]
        intros; omega

/-- **Core of C12** (1-D form): for `lo < hi ≤ total`, the pieces that the code builds, applied
to the cubes and joined, are exactly elements `[lo, hi)` of the concatenation. -/
theorem iacPieces_concat (cubes : List (List α)) (lo hi : Nat) (h1 : lo < hi)
    (h2 : hi ≤ (cubes.map List.length).sum) :
    ∃ ps, iacPieces (cubes.map List.length) lo hi = .ok ps ∧
      (ps.map (applyPiece cubes)).flatten = (cubes.flatten.drop lo).take (hi - lo) := by
  induction cubes generalizing lo hi with
  | nil => simp at h2; omega
  | cons c cs ih =>
    simp only [List.map_cons, List.sum_cons] at h2
    by_cases hlo : c.length ≤ lo
    · -- everything lies beyond the first cube
      obtain ⟨ps, hps, hflat⟩ := ih (lo - c.length) (hi - c.length) (by omega) (by omega)
      refine ⟨ps.map Piece.shift, ?_, ?_⟩
      · simp only [List.map_cons]
        rw [iacPieces_shift _ _ _ _ hlo h1, hps]; rfl
      · rw [List.map_map]
        have : (applyPiece (c :: cs) ∘ Piece.shift) = applyPiece cs := by
          funext p; exact applyPiece_shift c cs p
        rw [this, hflat, List.flatten_cons, List.drop_append]
        have hd : c.drop lo = [] := List.drop_eq_nil_of_le hlo
        rw [hd, List.nil_append]
        congr 1; omega
    · have hlo' : lo < c.length := Nat.not_le.mp hlo
      by_cases hhi : hi ≤ c.length
      · -- a single piece inside the first cube
        refine ⟨[⟨0, some lo, some hi⟩], ?_, ?_⟩
        · have hl2 : hi - 1 < c.length := by omega
          have : hi - 1 + 1 = hi := by omega
          simp only [List.map_cons, iacPieces, locate_lt _ _ _ hlo', locate_lt _ _ _ hl2]
          simp [this]
        · simp only [List.map_cons, List.map_nil, List.flatten_cons, List.flatten_nil,
            List.append_nil, applyPiece, List.getD_cons_zero, Option.getD_some]
          rw [List.drop_append, List.take_append]
          have : hi - lo - (c.drop lo).length = 0 := by simp; omega
          rw [this, List.take_zero, List.append_nil]
      · -- first cube from `lo`, whole cubes, last cube up to the stop
        have hhi' : c.length ≤ hi - 1 := by omega
        have hlt : hi - 1 - c.length < (cs.map List.length).sum := by omega
        obtain ⟨s1, o1, hloc, hs1, _, _⟩ := locate_spec (cs.map List.length) (hi - 1 - c.length) hlt
        simp only [List.length_map] at hs1
        refine ⟨[⟨0, some lo, none⟩] ++ ((List.range s1).map fun k => (⟨1 + k, none, none⟩ : Piece))
            ++ [⟨s1 + 1, some 0, some (o1 + 1)⟩], ?_, ?_⟩
        · simp only [List.map_cons, iacPieces, locate_lt _ _ _ hlo', locate_ge _ _ _ hhi', hloc,
            Option.map_some]
          simp
        · simp only [List.map_append, List.flatten_append, List.map_cons, List.map_nil,
            List.flatten_cons, List.flatten_nil, List.append_nil, List.map_map]
          have hfirst : applyPiece (c :: cs) ⟨0, some lo, none⟩ = c.drop lo := by
            simp only [applyPiece, List.getD_cons_zero, Option.getD_some, Option.getD_none]
            exact List.take_of_length_le (by rw [List.length_drop]; omega)
          have hmid : ((List.range s1).map (applyPiece (c :: cs) ∘ fun k => (⟨1 + k, none, none⟩ : Piece))).flatten
              = (cs.take s1).flatten := by
            rw [← flatten_range_getD cs s1 (by omega)]
            congr 1
            apply List.map_congr_left
            intro k _
            simp [applyPiece, Nat.add_comm 1 k]
          have hlast : applyPiece (c :: cs) ⟨s1 + 1, some 0, some (o1 + 1)⟩ = (cs.getD s1 []).take (o1 + 1) := by
            simp [applyPiece]
          rw [hfirst, hmid, hlast, List.append_assoc, ← take_flatten_locate cs _ s1 o1 hloc,
            List.drop_append, List.take_append]
          have hd : lo - c.length = 0 := by omega
          have ht : (c.drop lo).take (hi - lo) = c.drop lo :=
            List.take_of_length_le (by rw [List.length_drop]; omega)
          have hn : hi - lo - (c.drop lo).length = hi - 1 - c.length + 1 := by
            rw [List.length_drop]; omega
          rw [hd, List.drop_zero, ht, hn]

end Ndcube

namespace Ndcube
variable {α : Type}

theorem locate_mono (lens : List Nat) (i j s o s' o' : Nat) (hij : i ≤ j)
    (hi : locate lens i = some (s, o)) (hj : locate lens j = some (s', o')) :
    s < s' ∨ (s = s' ∧ o ≤ o') := by
  induction lens generalizing i j s o s' o' with
  | nil => simp [locate] at hi
  | cons l ls ih =>
    by_cases h1 : i < l
    · rw [locate_lt _ _ _ h1] at hi
      cases hi
      by_cases h2 : j < l
      · rw [locate_lt _ _ _ h2] at hj; cases hj; right; exact ⟨rfl, hij⟩
      · rw [locate_ge _ _ _ (Nat.not_lt.mp h2)] at hj
        cases hl : locate ls (j - l) with
        | none => simp [hl] at hj
        | some p => simp [hl] at hj; left; omega
    · have h1' := Nat.not_lt.mp h1
      have h2' : l ≤ j := by omega
      rw [locate_ge _ _ _ h1'] at hi
      rw [locate_ge _ _ _ h2'] at hj
      cases hl : locate ls (i - l) with
      | none => simp [hl] at hi
      | some p =>
        cases hl' : locate ls (j - l) with
        | none => simp [hl'] at hj
        | some p' =>
          obtain ⟨a, b⟩ := p
          obtain ⟨a', b'⟩ := p'
          simp [hl] at hi
          simp [hl'] at hj
          have := ih (i - l) (j - l) a b a' b' (by omega) hl hl'
          omega

/-- The element at concatenated position `m` is element `o` of cube `s`. -/
theorem getElem_flatten_locate (cs : List (List α)) (m s o : Nat)
    (h : locate (cs.map List.length) m = some (s, o)) :
    cs.flatten[m]? = (cs.getD s [])[o]? := by
  induction cs generalizing m s o with
  | nil => simp [locate] at h
  | cons c cs ih =>
    simp only [List.map_cons] at h
    by_cases hl : m < c.length
    · rw [locate_lt _ _ _ hl] at h
      cases h
      simp [List.getElem?_append_left hl]
    · have hl' : c.length ≤ m := Nat.not_lt.mp hl
      rw [locate_ge _ _ _ hl'] at h
      cases hloc : locate (cs.map List.length) (m - c.length) with
      | none => simp [hloc] at h
      | some so =>
        obtain ⟨s', o'⟩ := so
        simp [hloc] at h
        obtain ⟨rfl, rfl⟩ := h
        simp [List.getElem?_append_right hl', ih _ _ _ hloc]

end Ndcube

namespace Ndcube
variable {α : Type}

theorem chain_sorted (s0 n : Nat) :
    ([s0] ++ ((List.range n).map fun k => s0 + 1 + k) ++ [s0 + 1 + n]).Pairwise (· < ·) := by
  have : [s0] ++ ((List.range n).map fun k => s0 + 1 + k) ++ [s0 + 1 + n] = List.range' s0 (n + 2) := by
    rw [List.range'_concat, List.range'_succ, ← List.range'_eq_map_range]
    simp [Nat.add_assoc, Nat.add_comm 1]
  rw [this]
  exact List.pairwise_lt_range'

/-- A slice item with natural-number bounds selects `c[lo:hi]` in drop/take form. -/
theorem pySlice_nat (c : List α) (lo hi : Option Nat) :
    pySlice c (lo.map fun (n : Nat) => (n : Int)) (hi.map fun (n : Nat) => (n : Int))
      = (c.drop (lo.getD 0)).take (hi.getD c.length - lo.getD 0) := by
  have hclamp : ∀ (b : Nat) (d : Nat), clampBound c.length (some (b : Int)) d = min b c.length := by
    intro b d
    simp only [clampBound]
    have : ¬ ((b : Int) < 0) := by omega
    rw [if_neg this]
    split <;> omega
  have hnone : ∀ d : Nat, clampBound c.length none d = d := fun _ => rfl
  simp only [pySlice, sliceBounds]
  cases lo with
  | none =>
    cases hi with
    | none => simp [hnone]
    | some b =>
      simp only [Option.map_none, Option.map_some, Option.getD_none, Option.getD_some, hclamp,
        hnone, List.drop_zero, Nat.sub_zero]
      apply List.take_eq_take_iff.mpr; omega
  | some a =>
    by_cases ha : a ≤ c.length
    · cases hi with
      | none =>
        simp only [Option.map_none, Option.map_some, Option.getD_none, Option.getD_some, hclamp,
          hnone, Nat.min_eq_left ha]
      | some b =>
        simp only [Option.map_some, Option.getD_some, hclamp, Nat.min_eq_left ha]
        apply List.take_eq_take_iff.mpr
        simp only [List.length_drop]; omega
    · have h1 : c.drop a = [] := List.drop_eq_nil_of_le (by omega)
      have h2 : c.drop (min a c.length) = [] := List.drop_eq_nil_of_le (by omega)
      cases hi <;> simp [hclamp, hnone, h1, h2]

end Ndcube

namespace Ndcube
variable {α : Type}

theorem filterMap_range_shift (l : List α) (lo count : Nat) (h : lo + count ≤ l.length) :
    ((List.range count).map fun (k : Nat) => lo + k).filterMap (fun i => l[i]?) = (l.drop lo).take count := by
  induction count with
  | zero => simp
  | succ n ih =>
    have hlt : lo + n < l.length := by omega
    rw [List.range_succ, List.map_append, List.filterMap_append, ih (by omega)]
    simp only [List.map_cons, List.map_nil, List.filterMap_cons, List.getElem?_eq_getElem hlt,
      List.filterMap_nil]
    rw [List.take_add_one]
    simp [List.getElem?_drop, hlt]

theorem adj_eq_clamp (n : Nat) (b : Option Int) (d : Nat) :
    adjBound (n : Int) 0 (n : Int) b (d : Int) = ((clampBound n b d : Nat) : Int) := by
  cases b with
  | none => simp [adjBound, clampBound]
  | some b => simp only [adjBound, clampBound]; (repeat' split) <;> omega

theorem clampBound_le' (n : Nat) (b : Option Int) : clampBound n b n ≤ n := by
  cases b with
  | none => exact Nat.le_refl _
  | some b => simp only [clampBound]; (repeat' split) <;> omega

theorem sliceIndices_step1 (n : Nat) (start stop : Option Int) :
    sliceIndices n start stop none =
      .ok ((List.range ((sliceBounds n start stop).2 - (sliceBounds n start stop).1)).map
            fun (k : Nat) => (sliceBounds n start stop).1 + k) := by
  have hlo := adj_eq_clamp n start 0
  have hhi := adj_eq_clamp n stop n
  simp only [Int.natCast_zero] at hlo
  have h1 : ¬ ((1 : Int) = 0) := by omega
  have h2 : ((1 : Int) > 0) := by omega
  simp only [sliceIndices, Option.getD_none, sliceBounds, h1, h2, if_true, if_false, hlo, hhi]
  congr 1
  have hle := clampBound_le' n stop
  by_cases hlt : ((clampBound n start 0 : Nat) : Int) < (clampBound n stop n : Nat)
  · simp only [hlt, if_true]
    have : ((((clampBound n stop n : Nat) : Int) - (clampBound n start 0 : Nat) - 1) / 1 + 1).toNat
        = clampBound n stop n - clampBound n start 0 := by omega
    rw [this]
    apply List.map_congr_left
    intro k _
    omega
  · simp only [hlt, if_false]
    have : clampBound n stop n - clampBound n start 0 = 0 := by omega
    simp [this]

end Ndcube

namespace Ndcube
variable {α β : Type}

/-- Indexing a "for each cube, for each position" enumeration: entry `j` belongs to the cube
and offset that `locate` computes, and there are `lens.sum` entries. -/
theorem flatMap_range_locate (lens : List Nat) (f : Nat → Nat → β) :
    let l := (List.range lens.length).flatMap fun k => (List.range (lens.getD k 0)).map (f k)
    l.length = lens.sum ∧
    ∀ j s o, locate lens j = some (s, o) → l[j]? = some (f s o) := by
  induction lens generalizing f with
  | nil => simp [locate]
  | cons n ns ih =>
    intro l
    have hl : l = (List.range n).map (f 0) ++
        (List.range ns.length).flatMap fun k => (List.range (ns.getD k 0)).map (f (k + 1)) := by
      simp only [l, List.length_cons, List.range_succ_eq_map, List.flatMap_cons, List.flatMap_map,
        List.getD_cons_zero, List.getD_cons_succ, Function.comp_def]
    obtain ⟨ihlen, ihget⟩ := ih (fun k => f (k + 1))
    constructor
    · rw [hl, List.length_append, ihlen]; simp
    · intro j s o hloc
      rw [hl]
      by_cases hj : j < n
      · rw [locate_lt _ _ _ hj] at hloc
        cases hloc
        rw [List.getElem?_append_left (by simpa using hj)]
        simp [hj]
      · have hj' : n ≤ j := Nat.not_lt.mp hj
        rw [locate_ge _ _ _ hj'] at hloc
        cases h2 : locate ns (j - n) with
        | none => simp [h2] at hloc
        | some p =>
          obtain ⟨s', o'⟩ := p
          simp [h2] at hloc
          obtain ⟨rfl, rfl⟩ := hloc
          rw [List.getElem?_append_right (by simpa using hj')]
          simp only [List.length_map, List.length_range]
          exact ihget (j - n) s' o' h2

end Ndcube

namespace Ndcube

theorem countP_range_eq (a c : Nat) :
    (List.range c).countP (fun k => decide (k = a)) = if a < c then 1 else 0 := by
  induction c with
  | zero => simp
  | succ n ih =>
    rw [List.range_succ, List.countP_append, ih]
    by_cases h1 : a < n
    · have : ¬ (n = a) := by omega
      simp [h1, this]; omega
    · by_cases h2 : n = a
      · simp [h2]
      · have : ¬ (a < n + 1) := by omega
        simp [h1, h2, this]

end Ndcube

namespace Ndcube

theorem mapM_ok_all {α β ε : Type} (f : α → Except ε β) (l : List α) (u : List β)
    (h : l.mapM f = .ok u) : ∀ k ∈ l, ∃ v, f k = .ok v := by
  induction l generalizing u with
  | nil => intro k hk; simp at hk
  | cons x xs ih =>
    simp only [List.mapM_cons, bind, Except.bind] at h
    cases hv : f x with
    | error e => simp [hv] at h
    | ok v =>
      simp only [hv] at h
      cases hw : xs.mapM f with
      | error e => simp [hw] at h
      | ok w =>
        intro k hk
        rcases List.mem_cons.mp hk with rfl | hk'
        · exact ⟨v, hv⟩
        · exact ih w hw k hk'

end Ndcube
