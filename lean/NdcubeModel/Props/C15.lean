import NdcubeModel.Lemmas.Fits
import NdcubeModel.Lemmas.Wrap

/-!
# C15 — unwrap_wcs_to_fitswcs returns a FITS WCS equivalent to the wrapper chain

The statements are about the intermediate world coordinates of the FITS linear stage; the
non-linear projection of a FITS WCS is a function of those, so equal intermediates give equal
world coordinates for every projection.
-/

namespace Ndcube.C15
open Ndcube

/-- a FITS description whose vectors and matrix rows all have `n` entries -/
def Fits.WF (F : Fits) (n : Nat) : Prop := F.crpix.length = n ∧ ∀ row ∈ F.pc, row.length = n

/-- One wrapper, in full dimension (length-1 placeholders at dropped axes): top pixel `p`
is pixel `p*f + o` of the wrapped WCS.  A slice is the case `f = 1`, `o = start`. -/
structure Step where
  f : List Rat
  o : List Rat

def Step.OK (s : Step) (n : Nat) : Prop := s.f.length = n ∧ s.o.length = n ∧ ∀ q ∈ s.f, q ≠ 0

/-- the translation, innermost wrapper first -/
def applySteps (F : Fits) : List Step → Fits
  | [] => F
  | s :: rest => applySteps (F.resample s.f s.o) rest

/-- what the wrapper chain does to a top-level pixel: outermost wrapper first -/
def chainPix : List Step → List Rat → List Rat
  | [], p => p
  | s :: rest, p => mulAdd (chainPix rest p) s.f s.o

theorem resample_WF (F : Fits) (n : Nat) (s : Step) (h : Fits.WF F n) (hs : s.OK n) :
    Fits.WF (F.resample s.f s.o) n := by
  obtain ⟨hc, hr⟩ := h
  obtain ⟨hf, ho, _⟩ := hs
  constructor
  · simp only [Fits.resample]
    rw [newCrpix_length _ _ _ (by omega) (by omega)]; exact hc
  · intro row hrow
    simp only [Fits.resample, List.mem_map] at hrow
    obtain ⟨r0, hr0, rfl⟩ := hrow
    rw [scaleRow_length _ _ (by rw [hr r0 hr0]; exact hf)]
    exact hr r0 hr0

theorem chainPix_length (n : Nat) (p : List Rat) (hp : p.length = n) (l : List Step)
    (hl : ∀ t ∈ l, t.OK n) : (chainPix l p).length = n := by
  induction l with
  | nil => exact hp
  | cons t ts iht =>
    have ht := hl t (List.mem_cons_self ..)
    have hr := iht (fun u hu => hl u (List.mem_cons_of_mem _ hu))
    simp only [chainPix]
    rw [mulAdd_length _ _ _ (by rw [hr]; exact ht.1) (by rw [hr]; exact ht.2.1)]
    exact hr

/-- **Equivalence for chains of any depth.**  `steps` lists the wrappers innermost first (the
order in which the translation applies them).  The translated FITS WCS, evaluated at a top-level
pixel (full dimension), has the intermediate world coordinates that the base WCS has at the
pixel the wrapper chain maps it to — for any PC matrix, any non-zero factors, any offsets and
slice starts, any number of wrappers. -/
theorem unwrap_equiv (n : Nat) (steps : List Step) (F : Fits) (hF : Fits.WF F n)
    (hs : ∀ s ∈ steps, s.OK n) (p : List Rat) (hp : p.length = n) :
    (applySteps F steps).lin p = F.lin (chainPix steps p) := by
  induction steps generalizing F with
  | nil => rfl
  | cons s rest ih =>
    have hsok := hs s (List.mem_cons_self ..)
    have hrest : ∀ t ∈ rest, t.OK n := fun t ht => hs t (List.mem_cons_of_mem _ ht)
    simp only [applySteps, chainPix]
    rw [ih (F.resample s.f s.o) (resample_WF F n s hF hsok) hrest]
    exact resample_lin F s.f s.o _ n hF.1 hF.2 hsok.1 hsok.2.1 (chainPix_length n p hp rest hrest) hsok.2.2

/-- A slicing step (`WCS.slice`: `crpix -= start`) is the affine step with factor 1. -/
theorem slice_is_step (F : Fits) (items : List (Option Int × Option Int)) (n : Nat)
    (hc : F.crpix.length = n) (hi : items.length = n) :
    (F.slice items).crpix =
      newCrpix F.crpix (List.replicate n 1) (items.map fun (s, _) => ((s.getD 0 : Int) : Rat)) ∧
    (F.slice items).pc = F.pc ∧ (F.slice items).cdelt = F.cdelt := by
  refine ⟨?_, rfl, rfl⟩
  simp only [Fits.slice]
  subst hi
  generalize F.crpix = c at hc
  induction items generalizing c with
  | nil =>
    have := List.length_eq_zero_iff.mp hc; subst this
    simp [newCrpix]
  | cons it its ih =>
    cases c with
    | nil => simp at hc
    | cons x xs =>
      simp only [List.zip_cons_cons, List.map_cons, List.length_cons, List.replicate_succ, newCrpix]
      rw [ih xs (by simpa using hc)]
      congr 1
      grind

/-- The array shape of a slicing step is the sliced shape (per axis, Python slice length). -/
theorem slice_naxis (F : Fits) (items : List (Option Int × Option Int)) :
    (F.slice items).naxis = (F.naxis.zip items).map fun (n, (s, e)) =>
      (sliceBounds n s e).2 - (sliceBounds n s e).1 := rfl

/-- Unknown wrappers are refused. -/
theorem unwrap_unknown_refused (base : Fits) (outer : List Wrapper) :
    unwrap base (outer ++ [.unknown]) = .error .typeError := by
  simp only [unwrap, List.reverse_append, List.reverse_cons, List.reverse_nil, List.nil_append,
    List.cons_append, List.foldlM_cons, bind, Except.bind]

def nKept (d : List Bool) : Nat := (d.filter (· == false)).length

/-- **Dropped-axis bookkeeping of a resampling wrapper.**  A resampling wrapper that sits above a
slicing wrapper has one factor / offset per *kept* pixel axis.  Expanding them with the neutral
factor 1 and offset 0 at the dropped positions (what `unwrap_wcs_to_fitswcs` does) gives the
full-dimension step: on the full pixel vector — placeholder 0 at every dropped axis — it computes
exactly what the wrapper computes on the kept coordinates, and leaves the placeholders at 0. -/
theorem fillKept_mulAdd (d : List Bool) (q f o : List Rat)
    (hq : q.length = nKept d) (hf : f.length = nKept d) (ho : o.length = nKept d) :
    fillKept 0 d (mulAdd q f o) = mulAdd (fillKept 0 d q) (fillKept 1 d f) (fillKept 0 d o) := by
  induction d generalizing q f o with
  | nil => simp [fillKept, mulAdd]
  | cons b ds ih =>
    cases b with
    | true =>
      have h1 : nKept (true :: ds) = nKept ds := by simp [nKept]
      rw [h1] at hq hf ho
      simp only [fillKept, mulAdd]
      rw [ih q f o hq hf ho]
      congr 1
      grind
    | false =>
      have h1 : nKept (false :: ds) = nKept ds + 1 := by simp [nKept]
      rw [h1] at hq hf ho
      cases q with
      | nil => simp at hq
      | cons q0 qs =>
        cases f with
        | nil => simp at hf
        | cons f0 fs =>
          cases o with
          | nil => simp at ho
          | cons o0 os =>
            simp only [fillKept, mulAdd]
            rw [ih qs fs os (by simpa using hq) (by simpa using hf) (by simpa using ho)]

/-- the expanded step is a legitimate full-dimension step (non-zero factors, right lengths) -/
theorem fillKept_step_ok (d : List Bool) (f o : List Rat) (hf : f.length = nKept d) (_ho : o.length = nKept d)
    (hnz : ∀ x ∈ f, x ≠ 0) :
    (Step.mk (fillKept 1 d f) (fillKept 0 d o)).OK d.length := by
  have hlen : ∀ (α : Type) (dflt : α) (d : List Bool) (v : List α), (fillKept dflt d v).length = d.length := by
    intro α dflt d
    induction d with
    | nil => intro v; rfl
    | cons b ds ih =>
      intro v
      cases b with
      | true => simp [fillKept, ih]
      | false => cases v <;> simp [fillKept, ih]
  refine ⟨hlen _ _ _ _, hlen _ _ _ _, ?_⟩
  have gen : ∀ (d : List Bool) (f : List Rat), f.length = nKept d → (∀ x ∈ f, x ≠ 0) →
      ∀ x ∈ fillKept (1 : Rat) d f, x ≠ 0 := by
    intro d
    induction d with
    | nil => intro f _ _ x hx; simp [fillKept] at hx
    | cons b ds ih =>
      intro f hf hnz x hx
      cases b with
      | true =>
        simp only [fillKept, List.mem_cons] at hx
        rcases hx with rfl | hx
        · decide +kernel
        · exact ih f (by simpa [nKept] using hf) hnz x hx
      | false =>
        cases f with
        | nil => simp [nKept] at hf
        | cons f0 fs =>
          simp only [fillKept, List.mem_cons] at hx
          rcases hx with rfl | hx
          · exact hnz _ (List.mem_cons_self ..)
          · exact ih fs (by simpa [nKept] using hf) (fun y hy => hnz y (List.mem_cons_of_mem _ hy)) x hx
  exact gen d f hf hnz

/-- **Chains over a non-FITS base are refused**, at every depth (a bare non-FITS WCS included); over a
FITS base the translation is the one the other theorems describe. -/
theorem unwrap_nonfits_refused (chain : List Wrapper) (F : Fits) :
    unwrapAny none chain = .error .typeError ∧ unwrapAny (some F) chain = unwrap F chain := ⟨rfl, rfl⟩

end Ndcube.C15
