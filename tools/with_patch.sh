#!/bin/bash
# tools/with_patch.sh <patch.diff> <command...>: apply a patch to /repo, run the command, undo the patch.
set -u
patch="$1"; shift
git -C /repo apply "$patch" || { echo "patch does not apply"; exit 3; }
"$@"; rc=$?
git -C /repo checkout -- . ; git -C /repo clean -fdq -- ndcube 2>/dev/null
exit $rc
