"""C04 — crop returns exactly the smallest index box containing the world points."""
import math, random
from fractions import Fraction
import numpy as np
import astropy.units as u
from astropy.wcs.wcsapi import HighLevelWCSWrapper

import common as C
import wcsfam as W
import ecs as E
from core import err_kind

ID = "C04"
MODEL_OP = "crop_item / crop (get_crop_item_from_points)"
RULE = ("cubes of 1-4 dims (lengths 3-7) over probe (separable / coupled, exact) / FITS separable, celestial, rotated / gWCS "
        "primaries, optionally with Quantity / Time extra coords; wcs in {wcs, extra_coords, combined_wcs}; 1-6 points given "
        "as pixel positions (sub-pixel offsets in eighths, exactly on pixel edges on the exact family, just outside the array) "
        "converted to world by the real WCS; None per independent coordinate group; crop (objects) and crop_by_values "
        "(Quantities in other unit spellings, or floats + units); both keepdims; plus a malformed stream (lengths, classes, "
        "units). Non-trivial = at least one supplied coordinate; distinct = whole case")
TRUSTED = ["the expected box is computed from the generating pixel positions, never through the inverse transform",
           "numpy indexing of the source data (reference for cube[box])"]
ASSUMPTIONS = ["on inexact WCS (FITS, tables) positions keep 1/8 pixel away from pixel edges; exact edges only on the integer ProbeWCS",
               "lookup tables are strictly monotonic and points lie inside their range",
               "for points off the array only 'raises or still contains every on-array point' is demanded"]
FAMILIES = ["probe", "probe", "probe_coupled", "fits_sep", "fits_cel", "fits_rot", "gwcs"]
ALT_UNITS = {"m": ["cm", "km"], "s": ["min", "ms"], "deg": ["arcsec", "arcmin"], "Angstrom": ["nm"], "Hz": ["kHz"],
             "kg": ["g"], "A": ["mA"]}


def corpus():
    return C.read_corpus(ID)


def generate(rng, tier):
    n = 800 if tier == "quick" else 40000
    for k in range(n):
        nd = rng.choice([1, 2, 2, 3, 3, 4])
        shape = [rng.randint(3, 7) for _ in range(nd)]
        fam = rng.choice(FAMILIES)
        which = rng.choice(["wcs", "wcs", "wcs", "extra_coords", "combined"])
        ecs = []
        if which != "wcs" or rng.random() < 0.2:
            for _ in range(rng.choice([1, 1, 2, 3])):
                ecs.append({"kind": rng.choice(["quantity", "time"]), "axes": [rng.randrange(nd)]})
        exact = fam.startswith("probe") and which == "wcs"
        allow_off = fam in ("probe", "probe_coupled", "fits_sep", "fits_cel", "fits_rot") and which == "wcs"
        alt_units = rng.random() < 0.5 and not exact
        # (a table's end points survive a unit round trip only up to rounding: stay 1/8 pixel inside)
        margin = 0.125 if alt_units and (fam == "gwcs" or which != "wcs") else 0.0
        pts = []
        for _ in range(rng.choice([1, 2, 2, 3, 4, 6])):
            pix = []
            for s in shape:
                base = rng.randrange(s)
                off = rng.choice([0, 0, 0.25, -0.25, 0.375, -0.375, 0.125] + ([0.5, -0.5] if exact else []))
                x = base + off
                if allow_off and rng.random() < 0.06:
                    x = rng.choice([-0.75, -1.25, -0.625, s - 0.25, s + 0.625])
                if not allow_off:
                    x = min(max(x, margin), s - 1.0 - margin)
                pix.append(x)
            pts.append({"pix": pix, "none_bits": rng.choice([0, 0, 0, 1, 2, 3, 5])})
        if allow_off and len(pts) >= 2 and rng.random() < 0.2:
            # edge cluster: on one axis every point sits in the first (last) pixel or just off that end of the
            # array, so the clipped box is one element wide although the raw indices differ
            a = rng.randrange(nd)
            low = rng.random() < 0.6
            for j, p in enumerate(pts):
                inside = (j % 2 == 0) if j < 2 else rng.random() < 0.5
                if low:
                    p["pix"][a] = rng.choice([0, 0.25, -0.25, 0.375]) if inside else rng.choice([-0.75, -1.25, -0.625])
                else:
                    p["pix"][a] = shape[a] - 1 + rng.choice([0, 0.25, -0.25, 0.375]) if inside else rng.choice([shape[a] - 0.25, shape[a] + 0.375])
        if rng.random() < 0.03:
            for p in pts:
                p["none_bits"] = 255
        yield {"shape": shape, "fam": fam, "wseed": rng.randrange(10**6), "ecs": ecs, "which": which, "points": pts,
               "keepdims": rng.random() < 0.4, "alt_units": alt_units, "floats": rng.random() < 0.3,
               "malformed": rng.choice(["lengths", "ncomp", "unit", "nounit", "class"]) if rng.random() < 0.06 else None}
    # systematic: two points that differ along one axis only, on FITS grids - along a wavelength axis in metres the
    # difference is tiny in absolute terms, and both points still bound the region
    for fam in ("fits_sep", "fits_cel", "fits_rot"):
        for nd in (2, 3):
            for ax in range(nd):
                for lo, hi in ((1, 4), (0.25, 2.625)) * (5 if fam == "fits_sep" else 1):   # (the axis order depends on wseed)
                    yield {"shape": [6] * nd, "fam": fam, "wseed": rng.randrange(10**6), "ecs": [], "which": "wcs",
                           "points": [{"pix": [lo if a == ax else 2 for a in range(nd)], "none_bits": 0},
                                      {"pix": [hi if a == ax else 2 for a in range(nd)], "none_bits": 0}],
                           "keepdims": False, "alt_units": False, "floats": False, "malformed": None}


def groups_of(corr):
    """Connected components of the correlation matrix: list of (world axes, pixel axes)."""
    corr = np.asarray(corr, dtype=bool)
    nw, npx = corr.shape
    seen, out = set(), []
    for i in range(nw):
        if i in seen:
            continue
        ws, ps, todo = {i}, set(), [("w", i)]
        while todo:
            t, k = todo.pop()
            if t == "w":
                for p in range(npx):
                    if corr[k, p] and p not in ps:
                        ps.add(p); todo.append(("p", p))
            else:
                for j in range(nw):
                    if corr[j, k] and j not in ws:
                        ws.add(j); todo.append(("w", j))
        seen |= ws
        out.append((sorted(ws), sorted(ps)))
    return out


def nearest(x):
    return int(math.floor(x + 0.5))


def item_json(item):
    out = []
    for it in item:
        if isinstance(it, slice):
            out.append({"s": [None if it.start is None else int(it.start), None if it.stop is None else int(it.stop), None]})
        else:
            out.append(int(it))
    return out


def setup(case):
    cube = E.build_cube(case["shape"], case["fam"], case["wseed"], case["ecs"], with_shape={0: False, 1: "larger", 2: "smaller"}.get(case["wseed"] % 8, True))
    nd = cube.data.ndim
    which = case["which"]
    if which == "wcs":
        ll = cube.wcs.low_level_wcs
        pixmap = list(range(nd))                     # ll pixel axis -> cube pixel axis
        arg = None
    elif which == "extra_coords":
        w = cube.extra_coords.wcs
        ll = w.low_level_wcs if hasattr(w, "low_level_wcs") else w
        pixmap = [int(m) for m in cube.extra_coords.mapping]
        arg = cube.extra_coords
    else:
        ll = cube.combined_wcs.low_level_wcs
        pixmap = list(range(nd))
        arg = cube.combined_wcs
    return cube, ll, pixmap, arg


def run(case):
    rng = random.Random(case["wseed"] + 4)
    tags = [f"ndim={len(case['shape'])}", f"fam={case['fam']}", f"which={case['which']}", f"npoints={len(case['points'])}",
            f"keepdims={case['keepdims']}"] + ([f"malformed={case['malformed']}"] if case["malformed"] else [])
    res = {"tags": tags, "oracle": None, "impl": {"err": None}, "model_req": None}
    fails = []
    cube, ll, pixmap, arg = setup(case)
    nd = cube.data.ndim
    shape = cube.data.shape
    # independent coordinate groups at the level of the cube: pixel axes of `ll` that sit on the
    # same cube axis (extra coords sharing an axis) belong together
    corr_ll = np.asarray(ll.axis_correlation_matrix, dtype=bool)
    corr_cube = np.zeros((ll.world_n_dim, nd), dtype=bool)
    for k in range(ll.pixel_n_dim):
        corr_cube[:, pixmap[k]] |= corr_ll[:, k]
    groups = groups_of(corr_cube)
    units = [str(x) for x in ll.world_axis_units]
    nw = ll.world_n_dim
    exact = case["fam"].startswith("probe") and case["which"] == "wcs"
    # ---- points
    per = [[] for _ in range(nd)]
    per_point = []           # for each point: {array axis: index}
    val_points, none_world = [], []
    for p in case["points"]:
        pix_cube = p["pix"][::-1]                                   # cube pixel order
        world = W.p2w(ll, [pix_cube[m] for m in pixmap])
        if not np.all(np.isfinite(world)):
            return res                                               # outside a table: not a point on the cube
        isnone = [False] * nw
        for g, (ws, ps) in enumerate(groups):
            if (p["none_bits"] >> (g % 8)) & 1:
                for i in ws:
                    isnone[i] = True
        mine = {}
        for g, (ws, ps) in enumerate(groups):
            if not isnone[ws[0]]:
                for k in ps:                                   # cube pixel axes
                    a = nd - 1 - k
                    idx = nearest(pix_cube[k])
                    per[a].append(idx)
                    mine[a] = idx
        per_point.append(mine)
        none_world.append(isnone)
        val_points.append(world)
    # a cube axis may be addressed through several ll pixel axes (shared extra coords): same index each time
    any_input = any(not all(m) for m in none_world)
    if any_input:
        res["nontrivial"] = repr(sorted(case.items(), key=str))
    off_array = any(i < 0 or i >= shape[a] for a in range(nd) for i in per[a])
    tags.append("off-array" if off_array else "on-array")
    if any(all(m) for m in none_world) and any_input:
        tags.append("some-points-all-None")
    # expected item
    exp_item, all_int = [], True
    for a in range(nd):
        if not per[a]:
            exp_item.append(slice(None)); all_int = False
        else:
            lo, hi = min(per[a]), max(per[a]) + 1
            if hi - lo == 1 and not case["keepdims"]:
                exp_item.append(lo)
            else:
                exp_item.append(slice(lo, hi)); all_int = False
    if not any_input:
        exp_item, all_int = [slice(None)] * nd, False
        tags.append("all-None")
    expect_refusal = all_int
    # ---- build the two forms of the points
    def values_form():
        # spellings: Quantities (own or other convertible units), bare floats with units=[...], or - "mixed" -
        # a units list in the WCS's own units while some points are given as Quantities in other units
        pts, ulist = [], None
        if case["floats"]:
            ulist = list(units)
        mixed = case["floats"] and case["alt_units"]
        # bare numbers with `units=` given in *other* convertible units than the WCS's own (half of the mixed cases)
        alt_ulist = mixed and case["wseed"] % 2 == 0
        if alt_ulist:
            ulist = [ALT_UNITS[un][i % len(ALT_UNITS[un])] if un in ALT_UNITS else un for i, un in enumerate(units)]
        for world, isnone in zip(val_points, none_world):
            pt = []
            as_quantity = (not case["floats"]) or (mixed and len(pts) % 2 == 1)
            for i, v in enumerate(world):
                if isnone[i]:
                    pt.append(None)
                    continue
                un = units[i]
                if case["alt_units"] and un in ALT_UNITS and as_quantity:
                    alt = ALT_UNITS[un][(i + len(pts)) % len(ALT_UNITS[un])]
                    q = (v * u.Unit(un)).to(alt)
                else:
                    q = v * u.Unit(un)
                if as_quantity and case["wseed"] % 3 == 2:
                    # the classes astropy builds on Quantity are Quantities: an Angle for an angle, a SpectralCoord for a
                    # length (whatever unit they are in)
                    from astropy.coordinates import Angle, SpectralCoord
                    if q.unit.physical_type == "angle":
                        q = Angle(q)
                    elif q.unit.physical_type == "length" and np.all(q.value > 0):
                        q = SpectralCoord(q)
                        if case["fam"].startswith("fits") and case["wseed"] % 2 and case["which"] == "wcs":
                            q = q.to(u.THz)        # the same wavelength given as a frequency (a SpectralCoord converts itself)
                pt.append(q if as_quantity else float(q.to_value(ulist[i] if alt_ulist else un)))
            pts.append(pt)
        if mixed:
            tags.append("mixed-unit-spellings")
        if alt_ulist:
            tags.append("floats-with-other-units")
        return pts, ulist

    def objects_form():
        hl = HighLevelWCSWrapper(ll)
        comps = [c[0] for c in ll.world_axis_object_components]
        keys = []
        for c in comps:
            if c not in keys:
                keys.append(c)
        pts = []
        for p, isnone in zip(case["points"], none_world):
            pix_cube = p["pix"][::-1]
            objs = hl.pixel_to_world(*[pix_cube[m] for m in pixmap])
            objs = list(objs) if isinstance(objs, (list, tuple)) else [objs]
            if len(objs) != len(keys):
                raise RuntimeError("object count")
            pts.append([None if all(isnone[i] for i in range(nw) if comps[i] == k) else o for k, o in zip(keys, objs)])
        return pts

    kw = {"keepdims": case["keepdims"]}
    if arg is not None:
        kw["wcs"] = arg
    # ---- malformed stream
    if case["malformed"]:
        pts, ulist = values_form()
        want = None
        try:
            m = case["malformed"]
            if m == "lengths":
                if len(pts) < 2 or not any_input:
                    return res
                pts[0] = pts[0] + [None]
                want = "ValueError"
                cube.crop_by_values(*pts, units=ulist, **kw)
            elif m == "ncomp":
                if not any_input:
                    return res
                pts = [pt + [None] for pt in pts]
                want = "ValueError"
                cube.crop_by_values(*pts, units=(ulist + [None]) if ulist else None, **kw)
            elif m == "unit":
                if not any_input:
                    return res
                for pt in pts:
                    for j, v in enumerate(pt):
                        if v is not None:
                            pt[j] = (v if not isinstance(v, u.Quantity) else v.value) * u.cd
                want = "UnitsError"
                cube.crop_by_values(*pts, **kw)
            elif m == "nounit":
                if not any_input:
                    return res
                pts = [[None if v is None else float(getattr(v, "value", v)) for v in pt] for pt in pts]
                want = "TypeError"
                cube.crop_by_values(*pts, **kw)
            else:
                if not any_input:
                    return res
                pts = [[None if v is None else "not a coordinate" for v in pt] for pt in objects_form()]
                want = "TypeError"
                cube.crop(*pts, **kw)
            fails.append(f"malformed request ({m}) was accepted")
        except Exception as e:
            if err_kind(e) != want:
                fails.append(f"malformed request ({case['malformed']}) raised {type(e).__name__}, documented: {want}")
        if fails:
            res["oracle"] = fails[0]
        return res
    # ---- the two crops
    outcomes = {}
    for form in ("values", "objects"):
        try:
            if form == "values":
                pts, ulist = values_form()
                if case["wseed"] % 3 == 1:
                    # points as tuples, units as Unit objects instead of lists / strings
                    pts = [tuple(pt) for pt in pts]
                    ulist = None if ulist is None else tuple(u.Unit(x) for x in ulist)
                frozen = C.freeze([pts, ulist])
                r = cube.crop_by_values(*pts, units=ulist, **kw)
                if C.freeze([pts, ulist]) != frozen:
                    fails.append("crop_by_values edited the points / units the caller passed in")
                item = cube._get_crop_by_values_item(*[list(p_) if isinstance(p_, list) else p_ for p_ in pts], units=ulist, **kw)
            else:
                try:
                    pts = objects_form()
                except RuntimeError:
                    continue
                frozen = C.freeze([[repr(o) for o in p_] for p_ in pts])
                r = cube.crop(*pts, **kw)
                if C.freeze([[repr(o) for o in p_] for p_ in pts]) != frozen:
                    fails.append("crop edited the points the caller passed in")
                item = cube._get_crop_item(*pts, **kw)
            outcomes[form] = ("ok", r, item_json(item))
        except Exception as e:
            outcomes[form] = (err_kind(e), f"{type(e).__name__}: {str(e)[:100]}", None)
    # with points off the array the box is clipped to the array; keepdims still only decides whether
    # axes on which the clipped box is one element wide are kept, and a one-element result is refused
    clipped = {a: (max(min(per[a]), 0), min(max(per[a]) + 1, shape[a])) for a in range(nd) if per[a]}
    some_axis_all_off = any(hi <= lo for lo, hi in clipped.values())
    clipped_shape = [shape[a] if a not in clipped else clipped[a][1] - clipped[a][0] for a in range(nd)
                     if a not in clipped or case["keepdims"] or clipped[a][1] - clipped[a][0] != 1]
    for form, (st, r, item) in outcomes.items():
        if off_array:
            if not some_axis_all_off and any_input:
                if not clipped_shape:
                    if st == "ok":
                        fails.append(f"{form}: single-element result (box clipped to the array) was not refused (shape {r.data.shape})")
                elif st == "ok" and list(np.asarray(r.data).shape) != clipped_shape:
                    fails.append(f"{form}: result has shape {tuple(np.asarray(r.data).shape)}; the box clipped to the array "
                                 f"{ {a: list(v) for a, v in clipped.items()} } with keepdims={case['keepdims']} gives {tuple(clipped_shape)}")
            if st == "ok":
                data = np.asarray(r.data)
                _, src = C.decode(data, shape) if data.size else (None, [np.array([])] * nd)
                dropped_axes = [a for a in range(nd) if isinstance(item[a], int)]
                kept_axes = [a for a in range(nd) if a not in dropped_axes]
                for mine in per_point:
                    if not mine or not all(0 <= i < shape[a] for a, i in mine.items()):
                        continue          # not an on-array point
                    for a, i in mine.items():
                        if a in dropped_axes:
                            ok = item[a] == i
                        else:
                            have = set(np.unique(src[a]).tolist()) if data.size else set()
                            ok = i in have
                        if not ok:
                            fails.append(f"{form}: a point off the array made the result (item {item}) exclude the on-array point with index {i} on axis {a}")
                            break
            continue
        if expect_refusal:
            if st == "ok":
                fails.append(f"{form}: single-element result was not refused (shape {r.data.shape})")
            elif st != "ValueError":
                fails.append(f"{form}: single-element result raised {r}")
            continue
        if st != "ok":
            fails.append(f"{form}: valid points raised {r}")
            continue
        want = np.asarray(cube.data)[tuple(exp_item)]
        got = np.asarray(r.data)
        if got.shape != want.shape or not np.array_equal(got, want):
            fails.append(f"{form}: result has shape {got.shape} (first element {got.flat[0] if got.size else None}); "
                         f"the smallest box {item_json(exp_item)} gives shape {want.shape} (first element {want.flat[0] if want.size else None})")
            continue
        lock = C.world_lockstep(r, [cube], rng, exact, limit=6)
        if lock:
            fails.append(f"{form}: {lock}")
        lock = ec_lockstep(r, cube, exp_item)
        if lock:
            fails.append(f"{form}: {lock}")
    if len({(o[0], tuple(np.asarray(o[1].data).shape) if o[0] == "ok" else None) for o in outcomes.values()}) > 1 and not off_array:
        fails.append(f"crop and crop_by_values disagree on equivalent points: { {k: (v[0], v[2]) for k, v in outcomes.items()} }")
    res["obs"] = {k: {"status": v[0], "item": v[2]} for k, v in outcomes.items()}
    if any_input:
        res["model_req"] = {"op": "crop_item", "per": per, "keepdims": case["keepdims"], "shape": list(shape)}
        if exact and isinstance(W.low_level(cube.wcs), W.ProbeWCS) and W.low_level(cube.wcs).Ainv is not None:
            pw = W.low_level(cube.wcs)
            fr = lambda x: (lambda f: int(f) if f.denominator == 1 else [f.numerator, f.denominator])(Fraction(float(x)))
            res["extra_reqs"] = [{"op": "crop", "A": [[fr(x) for x in row] for row in pw.A], "b": [fr(x) for x in pw.b],
                                  "Ainv": [[fr(x) for x in row] for row in pw.Ainv], "pixDim": nd, "corr": W.corr_matrix(pw),
                                  "points": [[None if m else fr(v) for v, m in zip(world, isnone)] for world, isnone in zip(val_points, none_world)],
                                  "keepdims": case["keepdims"], "shape": list(shape)}]
    if fails:
        res["oracle"] = "; ".join(fails[:2])
    return res


def ec_lockstep(r, cube, exp_item):
    """the result equals cube[box] for its extra coordinates too: every extra coordinate that still has an axis sits on
    the renumbered axis and reports, at the result's corner elements, the source's values at the corresponding elements
    (read through each cube's own extra-coords WCS and mapping, independently of how the library sliced them)"""
    if cube.extra_coords.is_empty:
        return None
    nd = cube.data.ndim
    kept = [a for a in range(nd) if isinstance(exp_item[a], slice)]
    starts = [(it.start or 0) if isinstance(it, slice) else int(it) for it in exp_item]
    rs = list(np.asarray(r.data).shape)
    if len(rs) != len(kept) or 0 in rs:
        return None
    els = [[0] * len(kept), [n - 1 for n in rs]]
    src_els = []
    for e in els:
        full = list(starts)
        for j, a in enumerate(kept):
            full[a] = starts[a] + e[j]
        src_els.append(full)
    try:
        got, names = E.ec_values(r, els)
        want, _ = E.ec_values(cube, src_els)
    except Exception as e:
        return f"extra coords of the result cannot be evaluated: {type(e).__name__}: {str(e)[:100]}"
    for nm in names:
        if nm in want and not np.allclose(got[nm], want[nm], rtol=1e-9, atol=1e-9, equal_nan=True):
            return (f"extra coordinate {nm} of the result is {got[nm].tolist()} at its corner elements, the source has "
                    f"{want[nm].tolist()} at the corresponding elements {src_els}")
    return None


def _cmp(o, m, label):
    for form, ob in o.items():
        if "err" in m["item"] if isinstance(m["item"], dict) else False:
            if ob["status"] == "ok":
                return f"{label}: model refuses ({m['item']['err']}), implementation ({form}) returned item {ob['item']}"
            if ob["status"] != m["item"]["err"]:
                return f"{label}: model {m['item']['err']}, implementation ({form}) {ob['status']}"
        else:
            if ob["status"] != "ok":
                return f"{label}: model item {m['item']}, implementation ({form}) raised {ob['status']}"
            if ob["item"] != m["item"]:
                return f"{label}: model item {m['item']}, implementation ({form}) {ob['item']}"
    return None


def compare(case, r, m):
    if "obs" not in r:
        return None
    return _cmp(r["obs"], m, "crop_item")


def compare_extra(case, r, k, m):
    if "obs" not in r:
        return None
    return _cmp({f: o for f, o in r["obs"].items() if f == "values"}, m, "crop (affine model)")


def signature(case, failure):
    return "other:" + failure[:60]


def shrink(case):
    pts = case["points"]
    if len(pts) > 1:
        for i in range(len(pts)):
            yield {**case, "points": pts[:i] + pts[i + 1:]}
    for i in range(len(case["ecs"])):
        if case["which"] == "wcs" or len(case["ecs"]) > 1:
            yield {**case, "ecs": case["ecs"][:i] + case["ecs"][i + 1:]}
    for i, p in enumerate(pts):
        if p["none_bits"]:
            yield {**case, "points": pts[:i] + [{**p, "none_bits": 0}] + pts[i + 1:]}
    if case["alt_units"]:
        yield {**case, "alt_units": False}
    if case["floats"]:
        yield {**case, "floats": False}
