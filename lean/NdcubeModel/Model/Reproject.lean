import NdcubeModel.Model.Py

/-!
# `NDCube.reproject_to`

Two parts.  (1) The decision logic of `reproject_to` (algorithm table, 2-D celestial
requirement of adaptive / exact, physical-type comparison, resolution of `shape_out`, what the
result carries).  (2) The regridding itself is the `reproject` package's; its contract for the
default (order-1) interpolation is modelled as N-d multilinear interpolation `interpND` of the
source samples at the source pixel position of every target pixel, with no value outside the
source array; a target whose grid is the source grid shifted by whole pixels maps target pixel
`j` to source pixel `j + s`.
-/

namespace Ndcube

inductive Algo where | interpolation | adaptive | exact | unknown
deriving Repr, DecidableEq

structure ReprojReq where
  algo : Algo
  srcTypes : List String           -- source world_axis_physical_types
  tgtTypes : List String
  tgtPixDim : Nat
  tgtWorldDim : Nat
  tgtCelestialOnly : Bool          -- `has_celestial(target)` / 2-D celestial
  shapeOut : Option (List Nat)     -- the argument (numpy order)
  tgtArrayShape : Option (List Nat)
  unit : Nat                       -- identifiers of what the source carries
  metaId : Nat
  globalCoords : Nat
  tgtWcs : Nat
deriving Repr

structure ReprojRes where
  shape : List Nat
  wcs : Nat
  unit : Nat
  metaId : Nat
  globalCoords : Nat
deriving Repr, DecidableEq

def reprojectDecide (r : ReprojReq) : Except Err ReprojRes :=
  if r.algo = .unknown then .error .valueError else
  if (r.algo = .adaptive ∨ r.algo = .exact) ∧ (r.tgtPixDim ≠ 2 ∨ r.tgtWorldDim ≠ 2) then .error .valueError else
  if (r.algo = .adaptive ∨ r.algo = .exact) ∧ r.tgtCelestialOnly = false then .error .valueError else
  if r.srcTypes ≠ r.tgtTypes then .error .valueError else
  match (match r.shapeOut with | some s => if s = [] then r.tgtArrayShape else some s | none => r.tgtArrayShape) with
  | none => .error .valueError
  | some s => .ok { shape := s, wcs := r.tgtWcs, unit := r.unit, metaId := r.metaId, globalCoords := r.globalCoords }

/-- order-1 (multilinear) interpolation of samples on an N-d grid; `none` outside the array -/
def interpND : List Nat → (List Nat → Rat) → List Rat → Option Rat
  | [], f, [] => some (f [])
  | n :: ns, f, x :: xs =>
    if x < 0 ∨ (n : Rat) - 1 < x then none else
    let i := x.floor.toNat
    if (i : Rat) = x then interpND ns (fun r => f (i :: r)) xs
    else
      match interpND ns (fun r => f (i :: r)) xs, interpND ns (fun r => f ((i + 1) :: r)) xs with
      | some a, some b => some (a + (x - (i : Rat)) * (b - a))
      | _, _ => none
  | _, _, _ => none

/-- value of target pixel `j` when the target grid is the source grid shifted by `s` -/
def reprojShift (shape : List Nat) (src : List Nat → Rat) (s : List Int) (j : List Nat) : Option Rat :=
  interpND shape src (List.zipWith (fun (a : Nat) (b : Int) => ((a : Int) + b : Int)) j s |>.map fun (z : Int) => (z : Rat))

end Ndcube
