#!/usr/bin/env python3
"""tools/seed_eval.py <id> <worktree> <property> [tiers...]
Confirm a seeded change produced by a sub-agent and evaluate the checks against it:
 1. copy patch.diff + demo into seeded/<id>/
 2. demo passes on the unchanged /repo; with the patch applied to /repo: demo fails, baseline still passes
 3. run ./check <property> <tier> with the patch applied; record exit code and VIOLATION line
 4. undo the patch (git checkout) — /repo is never committed with it.
Writes seeded/<id>/meta.json."""
import json, os, shutil, subprocess, sys, time
sid, wt, prop = sys.argv[1:4]
tiers = sys.argv[4:] or ["quick"]
ROOT = os.path.dirname(os.path.dirname(os.path.abspath(__file__)))
d = os.path.join(ROOT, "seeded", sid)
os.makedirs(d, exist_ok=True)
demo = [f for f in os.listdir(wt) if f.startswith("demo_") and f.endswith(".py")][0]
shutil.copy(os.path.join(wt, "patch.diff"), os.path.join(d, "patch.diff"))
shutil.copy(os.path.join(wt, demo), os.path.join(d, "demo.py"))
def run(cmd, **kw):
    p = subprocess.run(cmd, shell=True, capture_output=True, text=True, **kw)
    return p.returncode, (p.stdout + p.stderr)
def clean():
    run("git -C /repo checkout -- . && git -C /repo clean -fdq -- ndcube")
meta = {"id": sid, "property": prop, "ran": []}
clean()
rc, out = run(f"cd /tmp && PYTHONPATH=/repo /venv/bin/python {d}/demo.py")
meta["demo_unchanged"] = {"exit": rc, "tail": out.strip().splitlines()[-2:]}
rc, out = run(f"git -C /repo apply {d}/patch.diff")
if rc != 0:
    meta["error"] = "patch does not apply: " + out
else:
    try:
        rc, out = run(f"cd /tmp && PYTHONPATH=/repo /venv/bin/python {d}/demo.py")
        meta["demo_patched"] = {"exit": rc, "tail": out.strip().splitlines()[-3:]}
        rc, out = run(f"{ROOT}/tools/baseline.py")
        meta["baseline_patched"] = {"exit": rc, "tail": [l for l in out.strip().splitlines() if "conda" not in l][-2:]}
        for tier in tiers:
            t0 = time.time()
            rc, out = run(f"cd {ROOT} && ./check {prop} {tier}")
            lines = [l for l in out.splitlines() if l.startswith("VIOLATION") or l.startswith(prop)]
            replay = None
            for l in lines:
                if l.startswith("VIOLATION") and "replay=" in l:
                    rp = l.split("replay=")[1].split()[0]
                    try:
                        rj = json.load(open(os.path.join(ROOT, rp)))
                        replay = {"case": rj.get("case"), "failure": rj.get("failure"), "kind": rj.get("kind")}
                    except Exception:
                        pass
            meta["ran"].append({"cmd": f"./check {prop} {tier}", "exit": rc, "lines": lines, "replay": replay,
                                "wall_s": round(time.time() - t0, 1)})
    finally:
        clean()
meta["confirmed"] = (meta.get("demo_unchanged", {}).get("exit") == 0 and meta.get("demo_patched", {}).get("exit") not in (0, None)
                     and meta.get("baseline_patched", {}).get("exit") == 0)
meta["caught"] = any(r["exit"] == 1 for r in meta["ran"])
old = {}
mp = os.path.join(d, "meta.json")
if os.path.exists(mp):
    old = json.load(open(mp))
old.update(meta)
json.dump(old, open(mp, "w"), indent=1)
print(json.dumps({k: meta[k] for k in ("confirmed", "caught")}), [r["lines"] for r in meta["ran"]])
st = run("git -C /repo status --short")[1]
print("repo status after:", st.strip() or "clean")
