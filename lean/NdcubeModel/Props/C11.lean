import NdcubeModel.Lemmas.Seq
import NdcubeModel.Lemmas.Index

/-!
# C11 — sequence slicing and exploding equal doing it to the list and to every cube
-/

namespace Ndcube.C11
open Ndcube
variable {α : Type}

/-- **List semantics, step 1**: the general-step selection used on the sequence axis agrees
with plain list slicing `l[start:stop]` (drop/take form) when the step is absent. -/
theorem seq_slice_step1 (l : List α) (start stop : Option Int) :
    pySliceStep l start stop none = .ok (pySlice l start stop) := by
  simp only [pySliceStep, sliceIndices_step1, bind, Except.bind, pure, Except.pure, pySlice]
  congr 1
  have hhi := clampBound_le' l.length stop
  by_cases h : (sliceBounds l.length start stop).1 ≤ (sliceBounds l.length start stop).2
  · exact filterMap_range_shift l _ _ (by simp only [sliceBounds] at *; omega)
  · have : (sliceBounds l.length start stop).2 - (sliceBounds l.length start stop).1 = 0 := by omega
    simp [this]

/-- Every position selected on the sequence axis is a valid position (any step, any bounds). -/
theorem seq_slice_in_range (n : Nat) (start stop step : Option Int) (sel : List Nat)
    (h : sliceIndices n start stop step = .ok sel) : ∀ k ∈ sel, k < n := by
  simp only [sliceIndices] at h
  split at h
  · cases h
  · rename_i hst
    cases h
    intro k hk
    simp only [List.mem_map, List.mem_range] at hk
    obtain ⟨j, hj, rfl⟩ := hk
    generalize hstv : step.getD 1 = st at *
    by_cases hpos : st > 0
    · simp only [hpos, if_true] at hj ⊢
      generalize hs : adjBound (n : Int) 0 (n : Int) start 0 = s at *
      generalize he : adjBound (n : Int) 0 (n : Int) stop (n : Int) = e at *
      have hs0 : 0 ≤ s := by
        rw [← hs]; cases start with
        | none => simp [adjBound]
        | some b => simp only [adjBound]; split <;> omega
      have hen : e ≤ n := by
        rw [← he]; cases stop with
        | none => simp [adjBound]
        | some b => simp only [adjBound]; split <;> omega
      split at hj
      · rename_i hse
        have hq : (j : Int) ≤ (e - s - 1) / st := by omega
        have h1 : (j : Int) * st ≤ (e - s - 1) / st * st := Int.mul_le_mul_of_nonneg_right hq (by omega)
        have h2 : (e - s - 1) / st * st ≤ e - s - 1 := Int.ediv_mul_le _ (by omega)
        have h3 : 0 ≤ (j : Int) * st := Int.mul_nonneg (by omega) (by omega)
        omega
      · omega
    · have hneg : st < 0 := by omega
      simp only [hpos, if_false] at hj ⊢
      generalize hs : adjBound (n : Int) (-1) ((n : Int) - 1) start ((n : Int) - 1) = s at *
      generalize he : adjBound (n : Int) (-1) ((n : Int) - 1) stop (-1) = e at *
      have hsn : s ≤ n - 1 := by
        rw [← hs]; cases start with
        | none => simp [adjBound]
        | some b => simp only [adjBound]; split <;> omega
      have he1 : -1 ≤ e := by
        rw [← he]; cases stop with
        | none => simp [adjBound]
        | some b => simp only [adjBound]; split <;> omega
      split at hj
      · rename_i hes
        have hq : (j : Int) ≤ (s - e - 1) / (-st) := by omega
        have h1 : (j : Int) * (-st) ≤ (s - e - 1) / (-st) * (-st) :=
          Int.mul_le_mul_of_nonneg_right hq (by omega)
        have h2 : (s - e - 1) / (-st) * (-st) ≤ s - e - 1 := Int.ediv_mul_le _ (by omega)
        have h3 : 0 ≤ (j : Int) * (-st) := Int.mul_nonneg (by omega) (by omega)
        have h4 : (j : Int) * st = -((j : Int) * (-st)) := by rw [Int.mul_neg, Int.neg_neg]
        omega
      · omega

/-- **Common axis points at the same physical axis.**  If the cube items (one per leading cube
axis, Ellipsis already expanded) keep the common axis `ca`, then in every sliced cube the result
axis `ca - (#integer items in front of ca)` is a view of source axis `ca`; if they index it with
an integer there is no common axis. -/
theorem seq_common_axis (shape : List Nat) (rest its : List Item) (axes : List AxisRes) (ca : Nat)
    (hn : normItems shape rest = .ok its) (ha : applyAxes shape its = .ok axes)
    (hfull : rest.length = shape.length) (hnoell : countEllipsis rest = 0) (hca : ca < shape.length) :
    (((rest.getD ca Item.all).isInt = true → newCommonAxis (some ca) rest = none) ∧
     ((rest.getD ca Item.all).isInt = false →
        ∃ nca, newCommonAxis (some ca) rest = some nca ∧ (keptAxes axes)[nca]? = some ca)) := by
  have hmap := normItems_isInt hn hfull hnoell
  have hlen := applyAxes_length ha
  have hca' : ca < rest.length := by omega
  constructor
  · intro hint
    simp only [newCommonAxis, hca', hint, and_self, if_true]
  · intro hint
    refine ⟨ca - countInts (rest.take ca), ?_, ?_⟩
    · simp only [newCommonAxis, hint, Bool.false_eq_true, and_false, if_false]
    · -- the integer items in front of `ca` are exactly the dropped axes in front of `ca`
      have hcnt : countInts (rest.take ca) = numDropped (axes.take ca) := by
        rw [numDropped_eq_countInts ha ca]
        simp only [countInts]
        rw [← List.countP_eq_length_filter, ← List.countP_eq_length_filter]
        have e1 := List.countP_map (p := fun b : Bool => b) (f := Item.isInt) (l := rest.take ca)
        have e2 := List.countP_map (p := fun b : Bool => b) (f := Item.isInt) (l := its.take ca)
        simp only [Function.comp_def] at e1 e2
        rw [← e1, ← e2, List.map_take, List.map_take, hmap]
      have hkept : (axes.getD ca (.dropped 0)).isKept = true := by
        have h1 := applyAxes_isInt ha
        have h2 : (axes.map fun a => !a.isKept)[ca]? = (rest.map Item.isInt)[ca]? := by rw [h1, hmap]
        have hca2 : ca < axes.length := by omega
        simp only [List.getElem?_map, List.getElem?_eq_getElem hca2, List.getElem?_eq_getElem hca',
          Option.map_some, Option.some.injEq] at h2
        have h3 : (rest.getD ca Item.all) = rest[ca] := by
          simp [List.getD, List.getElem?_eq_getElem hca']
        rw [h3] at hint
        simp only [List.getD, List.getElem?_eq_getElem hca2, Option.getD_some]
        rw [hint] at h2
        simpa using h2
      rw [hcnt]
      have := keptFrom_get 0 ca axes (by omega) hkept
      simpa [keptAxes] using this

/-- **explode_along_axis**: the result lists, in order, every slice along the axis of every
cube, each cube contributing **its own** number of slices: there are `Σ lens` pieces, and piece
`j` is slice `o` of cube `k`, with `(k, o)` the decomposition of `j` over the per-cube lengths. -/
theorem explode_spec (s : Seq) (axis : Int) (pieces : List (Nat × Option (List Item)))
    (ca' : Option Nat) (h : s.explode axis = .ok (.seq pieces ca')) :
    ∃ a : Nat, a < s.ndimCube ∧ ((a : Int) = axis ∨ (a : Int) = s.ndimCube + axis) ∧
      let lens := s.shapes.map fun sh => sh.getD a 0
      pieces.length = lens.sum ∧
      (∀ j k o, locate lens j = some (k, o) →
        pieces[j]? = some (k, some (explodeItem s.ndimCube a o))) ∧
      ca' = (match s.commonAxis with
        | none => none
        | some c => if c = a then none else if c > a then some (c - 1) else some c) := by
  simp only [Seq.explode] at h
  generalize hA : (if axis < 0 then (s.ndimCube : Int) + axis else axis) = ax at h
  by_cases hax : ax < 0 ∨ ax ≥ s.ndimCube
  · simp [hax] at h
  · simp only [hax, if_false] at h
    split at h
    · cases h
    · 
      cases h
      refine ⟨ax.toNat, by omega, by split at hA <;> omega, ?_⟩
      intro lens
      have hfl := flatMap_range_locate lens (fun k i => (k, some (explodeItem s.ndimCube ax.toNat i)))
      have hgd : ∀ k, lens.getD k 0 = (s.shapes.getD k []).getD ax.toNat 0 := by
        intro k
        simp only [lens, List.getD, List.getElem?_map]
        cases s.shapes[k]? <;> simp
      simp only [hgd, lens, List.length_map] at hfl
      exact ⟨hfl.1, hfl.2, rfl⟩

/-- The common axis after exploding is the one `newCommonAxis` computes for the item that
produced each piece, hence (by `seq_common_axis`) it names the same physical axis. -/
theorem explode_common_axis (nd a c i : Nat) (hc : c < nd) :
    newCommonAxis (some c) (explodeItem nd a i) =
      (if c = a then none else if c > a then some (c - 1) else some c) := by
  have hlen : (explodeItem nd a i).length = nd := by simp [explodeItem]
  have hget : ∀ k, k < nd → (explodeItem nd a i).getD k Item.all = if k = a then Item.int i else Item.all := by
    intro k hk
    simp [explodeItem, List.getD, List.getElem?_map, List.getElem?_range hk]
  have hcount : countInts ((explodeItem nd a i).take c) = if a < c then 1 else 0 := by
    simp only [countInts, explodeItem, ← List.map_take, List.filter_map, List.length_map]
    rw [List.take_range, Nat.min_eq_left (by omega), ← List.countP_eq_length_filter]
    have : ∀ k, (Item.isInt ∘ fun k => if k = a then Item.int i else Item.all) k = decide (k = a) := by
      intro k; simp only [Function.comp]; split <;> simp_all [Item.isInt, Item.all]
    rw [List.countP_congr (fun k _ => by rw [this k])]
    exact countP_range_eq a c
  simp only [newCommonAxis, hlen, hc, hget c hc, true_and]
  by_cases hca : c = a
  · simp [hca, Item.isInt]
  · simp only [hca, if_false, Item.all, Item.isInt, Bool.false_eq_true, hcount]
    by_cases hgt : c > a
    · simp [hgt]
    · simp [hgt]

theorem countEllipsis_cons (it : Item) (its : List Item) :
    countEllipsis (it :: its) = (if it = .ellipsis then 1 else 0) + countEllipsis its := by
  cases it <;> simp [countEllipsis] <;> omega

theorem countEllipsis_replicate_all (k : Nat) : countEllipsis (List.replicate k Item.all) = 0 := by
  simp [countEllipsis, Item.all]

theorem countEllipsis_append (a b : List Item) :
    countEllipsis (a ++ b) = countEllipsis a + countEllipsis b := by
  simp [countEllipsis]

theorem countEllipsis_expand (k : Nat) (its : List Item) (h : countEllipsis its = 1) :
    countEllipsis (expandEllipsis k its) = 0 := by
  induction its with
  | nil => simp [countEllipsis] at h
  | cons it its ih =>
    rw [countEllipsis_cons] at h
    by_cases he : it = .ellipsis
    · subst he
      simp only [if_true] at h
      simp only [expandEllipsis, countEllipsis_append, countEllipsis_replicate_all]
      omega
    · simp only [he, if_false, Nat.zero_add] at h
      have : expandEllipsis k (it :: its) = it :: expandEllipsis k its := by
        cases it <;> simp_all [expandEllipsis]
      rw [this, countEllipsis_cons, ih h]
      simp [he]

/-- **Ellipsis**: a sequence index that contains one Ellipsis is interpreted exactly as the
index with the Ellipsis replaced by the `slice(None)`s it stands for (so the statements about
explicit items — which cube is selected, which cube axes are dropped, `seq_common_axis` — apply
to the Ellipsis form too). -/
theorem seq_getitem_ellipsis (s : Seq) (its : List Item) (h : countEllipsis its = 1) :
    s.getitem (.tuple its) =
      s.getitem (.tuple (expandEllipsis ((1 + s.ndimCube) - (its.length - 1)) its)) := by
  have h0 := countEllipsis_expand ((1 + s.ndimCube) - (its.length - 1)) its h
  simp only [Seq.getitem, h, h0]
  simp

/-- A tuple index whose first entry is a slice selects cubes by Python list semantics (any
step) and applies the rest of the index to every selected cube; the result keeps
`newCommonAxis` of the rest. -/
theorem seq_getitem_cubes (s : Seq) (a b st : Option Int) (rest : List Item) (r : SeqResult)
    (hne : countEllipsis rest = 0)
    (h : s.getitem (.tuple (.slice a b st :: rest)) = .ok r) :
    ∃ sel, sliceIndices s.shapes.length a b st = .ok sel ∧
      (∀ k ∈ sel, cubeItemCheck (s.shapes.getD k []) rest = .ok ()) ∧
      r = .seq (sel.map fun k => (k, some rest)) (newCommonAxis s.commonAxis rest) := by
  have h0 : countEllipsis (Item.slice a b st :: rest) = 0 := by
    rw [countEllipsis_cons]; simp [hne]
  simp only [Seq.getitem, h0] at h
  simp only [if_false, Nat.zero_ne_one, bind, Except.bind] at h
  generalize hf : (fun k => cubeItemCheck (s.shapes.getD k []) rest) = f at h
  cases hsel : sliceIndices s.shapes.length a b st with
  | error e => simp [hsel] at h
  | ok sel =>
    simp only [hsel] at h
    cases hu : sel.mapM f with
    | error e => simp [hu] at h
    | ok u =>
      simp only [hu, pure, Except.pure] at h
      cases h
      refine ⟨sel, rfl, ?_, rfl⟩
      intro k hk
      obtain ⟨v, hv⟩ := mapM_ok_all f sel u hu k hk
      subst hf
      cases v; exact hv

/-- An integer on the sequence axis returns the (sliced) cube itself, chosen as a Python list
does (negative positions count from the end, out of range is `IndexError`). -/
theorem seq_getitem_int (s : Seq) (i : Int) (rest : List Item) (hne : countEllipsis rest = 0) :
    s.getitem (.tuple (.int i :: rest)) =
      (match normIndex s.shapes.length i with
        | .error e => .error e
        | .ok k => (cubeItemCheck (s.shapes.getD k []) rest).map fun _ => SeqResult.cube k (some rest)) := by
  have h0 : countEllipsis (Item.int i :: rest) = 0 := by
    rw [countEllipsis_cons]; simp [hne]
  simp only [Seq.getitem, h0]
  simp only [if_false, Nat.zero_ne_one, bind, Except.bind]
  cases normIndex s.shapes.length i with
  | error e => rfl
  | ok k =>
    simp only
    cases cubeItemCheck (s.shapes.getD k []) rest <;> rfl

/-- **`shape` and `cube_like_shape` describe the cubes actually held**: the first entry is the number
of cubes; along the common axis the entry is the tuple of every cube's own length as soon as two
cubes differ (whichever two — the middle ones included), and the common length otherwise; the
cube-like length of the common axis is the sum of the cubes' lengths. -/
theorem seq_shape_spec (s : Seq) (a : Nat) (hca : s.commonAxis = some a)
    (ha : a < (s.shapes.headD []).length) :
    (s.shape)[0]? = some (.int s.shapes.length) ∧
    ((∃ x ∈ s.shapes.map (fun sh => sh.getD a 0), ∃ y ∈ s.shapes.map (fun sh => sh.getD a 0), x ≠ y) →
      (s.shape)[a + 1]? = some (.ragged (s.shapes.map fun sh => sh.getD a 0))) ∧
    (s.shapes ≠ [] → (∀ x ∈ s.shapes.map (fun sh => sh.getD a 0), x = (s.shapes.headD []).getD a 0) →
      (s.shape)[a + 1]? = some (.int ((s.shapes.headD []).getD a 0))) ∧
    s.cubeLikeShape = .ok ((s.shapes.headD []).set a (s.shapes.map fun sh => sh.getD a 0).sum) := by
  have hsame : ∀ (l : List Nat), allSame l = true ↔ (l ≠ [] ∧ ∀ x ∈ l, x = l.headD 0) := by
    intro l
    cases l with
    | nil => simp [allSame]
    | cons x xs =>
      simp only [allSame, List.all_eq_true, beq_iff_eq, ne_eq, reduceCtorEq, not_false_eq_true, true_and,
        List.mem_cons, List.headD_cons, forall_eq_or_imp]
  have ha' : a < (s.shapes.head?.getD []).length := by
    rw [← List.headD_eq_head?_getD]; exact ha
  refine ⟨?_, ?_, ?_, ?_⟩
  · simp only [Seq.shape, hca]
    split <;> simp
  · rintro ⟨x, hx, y, hy, hxy⟩
    have hns : allSame (s.shapes.map fun sh => sh.getD a 0) = false := by
      cases h : allSame (s.shapes.map fun sh => sh.getD a 0) with
      | false => rfl
      | true =>
        have := ((hsame _).mp h).2
        exact absurd ((this x hx).trans (this y hy).symm) hxy
    simp only [Seq.shape, hca, hns, Bool.not_false, if_true]
    rw [List.getElem?_set_self (by simp only [List.length_cons, List.length_map]; omega)]
  · intro hne hall
    have hs : allSame (s.shapes.map fun sh => sh.getD a 0) = true := by
      rw [hsame]
      refine ⟨by simpa using hne, ?_⟩
      intro x hx
      rw [hall x hx]
      cases hsh : s.shapes with
      | nil => exact absurd hsh hne
      | cons c cs => simp
    simp only [Seq.shape, hca, hs, Bool.not_true, Bool.false_eq_true, if_false]
    rw [List.getElem?_cons_succ, List.getElem?_map]
    simp only [List.getD, List.headD_eq_head?_getD]
    rw [List.getElem?_eq_getElem ha']
    rfl
  · simp [Seq.cubeLikeShape, hca]

end Ndcube.C11
