import NdcubeModel.Model.Collection
import NdcubeModel.Lemmas.Index

/-! Lemmas behind C13: closed form of the aligned-axes renumbering loop. -/

namespace Ndcube

/-- renumbering of later drop positions after the entry at `d` was removed -/
def shiftDown (d x : Nat) : Nat := if x > d then x - 1 else x

theorem dropLoop_nil (axes : List Nat) : dropLoop [] axes = axes := rfl

theorem dropLoop_cons (d : Nat) (ds axes : List Nat) :
    dropLoop (d :: ds) axes = dropLoop (ds.map (shiftDown d)) (drop1 d axes) := by
  simp only [dropLoop, List.length_cons, List.length_map, dropLoopF]
  rfl

/-- Position (in the original tuple) of the `k`-th aligned axis that survives. -/
def skipF : Nat → List Nat → Nat → Nat
  | 0, _, k => k
  | _, [], k => k
  | fuel + 1, d :: ds, k =>
    let p := skipF fuel (ds.map (shiftDown d)) k
    if p < d then p else p + 1

def skip (drops : List Nat) (k : Nat) : Nat := skipF drops.length drops k

theorem skip_nil (k : Nat) : skip [] k = k := rfl

theorem skip_cons (d : Nat) (ds : List Nat) (k : Nat) :
    skip (d :: ds) k =
      (if skip (ds.map (shiftDown d)) k < d then skip (ds.map (shiftDown d)) k
       else skip (ds.map (shiftDown d)) k + 1) := by
  simp only [skip, List.length_cons, List.length_map, skipF]

/-- New number of member axis `a` once the member axes `R` have been sliced away. -/
def renum (R : List Nat) (a : Nat) : Nat := a - (R.filter (· < a)).length

/-- the renumbering applied by one removal -/
def r1 (m a : Nat) : Nat := if a > m then a - 1 else a

theorem drop1_eq (d : Nat) (axes : List Nat) :
    drop1 d axes = (axes.eraseIdx d).map (r1 (axes.getD d 0)) := rfl

theorem r1_lt_iff (m x a : Nat) (hx : x ≠ m) (ha : a ≠ m) : r1 m x < r1 m a ↔ x < a := by
  simp only [r1]; split <;> split <;> omega

theorem filter_r1_length (m a : Nat) (R : List Nat) (hR : ∀ x ∈ R, x ≠ m) (ha : a ≠ m) :
    ((R.map (r1 m)).filter (· < r1 m a)).length = (R.filter (· < a)).length := by
  induction R with
  | nil => rfl
  | cons x xs ih =>
    have hx := hR x (List.mem_cons_self ..)
    have ih' := ih (fun y hy => hR y (List.mem_cons_of_mem _ hy))
    simp only [List.map_cons, List.filter_cons]
    have := r1_lt_iff m x a hx ha
    by_cases h : x < a
    · have h' : r1 m x < r1 m a := this.mpr h
      simp [h, h', ih']
    · have h' : ¬ (r1 m x < r1 m a) := fun hh => h (this.mp hh)
      simp [h, h', ih']

theorem renum_step (m a : Nat) (R : List Nat) (hR : ∀ x ∈ R, x ≠ m) (ha : a ≠ m) :
    renum (R.map (r1 m)) (r1 m a) = renum (m :: R) a := by
  simp only [renum, filter_r1_length m a R hR ha, List.filter_cons]
  by_cases h : m < a
  · have : a > m := h
    simp only [h, decide_true, if_true, List.length_cons, r1, this]
    omega
  · have : ¬ (a > m) := h
    simp only [h, decide_false, r1, this, if_false]
    rfl

end Ndcube

namespace Ndcube

theorem getD_eraseIdx (l : List Nat) (d p : Nat) :
    (l.eraseIdx d).getD p 0 = l.getD (if p < d then p else p + 1) 0 := by
  simp only [List.getD, List.getElem?_eraseIdx]
  split <;> rfl

/-- **Closed form of the renumbering loop.**  For strictly increasing drop positions inside a
tuple of distinct axes, the loop leaves one entry per surviving position, and entry `k` is the
surviving axis `axes[skip drops k]` lowered by the number of dropped axes below it. -/
theorem dropLoop_get (n : Nat) : ∀ (drops axes : List Nat), drops.length = n →
    drops.Pairwise (· < ·) → (∀ d ∈ drops, d < axes.length) → axes.Nodup →
    (dropLoop drops axes).length = axes.length - drops.length ∧
    ∀ k, k < axes.length - drops.length →
      (dropLoop drops axes)[k]? =
        some (renum (drops.map fun d => axes.getD d 0) (axes.getD (skip drops k) 0)) ∧
      skip drops k < axes.length ∧ skip drops k ∉ drops := by
  induction n with
  | zero =>
    intro drops axes hlen _ _ _
    have : drops = [] := List.length_eq_zero_iff.mp hlen
    subst this
    refine ⟨by simp [dropLoop_nil], ?_⟩
    intro k hk
    simp only [List.length_nil, Nat.sub_zero] at hk
    simp [dropLoop_nil, skip_nil, renum, List.getD, List.getElem?_eq_getElem hk, hk]
  | succ n ih =>
    intro drops axes hlen hs hb hnd
    cases drops with
    | nil => simp at hlen
    | cons d ds =>
      have hd : d < axes.length := hb d (List.mem_cons_self ..)
      have hgt : ∀ x ∈ ds, d < x := fun x hx => (List.pairwise_cons.mp hs).1 x hx
      have hs' : ds.Pairwise (· < ·) := (List.pairwise_cons.mp hs).2
      -- the renumbered remaining drops
      have hmapeq : ds.map (shiftDown d) = ds.map (· - 1) := by
        apply List.map_congr_left
        intro x hx
        have := hgt x hx
        simp [shiftDown, this]
      have hs2 : (ds.map (shiftDown d)).Pairwise (· < ·) := by
        rw [hmapeq, List.pairwise_map]
        apply List.Pairwise.imp_of_mem _ hs'
        intro a b ha hb' hab
        have := hgt a ha; have := hgt b hb'
        omega
      have hlen' : (drop1 d axes).length = axes.length - 1 := by
        simp [drop1, List.length_eraseIdx, hd]
      have hb2 : ∀ x ∈ ds.map (shiftDown d), x < (drop1 d axes).length := by
        intro x hx
        rw [hmapeq] at hx
        obtain ⟨y, hy, rfl⟩ := List.mem_map.mp hx
        have := hgt y hy
        have := hb y (List.mem_cons_of_mem _ hy)
        rw [hlen']; omega
      let m := axes.getD d 0
      have hm : axes[d]? = some m := by
        simp [m, List.getD, List.getElem?_eq_getElem hd]
      -- distinct entries stay distinct
      have hne_m : ∀ p, p < axes.length → p ≠ d → axes.getD p 0 ≠ m := by
        intro p hp hpd heq
        have h1 : axes[p]? = some (axes.getD p 0) := by simp [List.getD, List.getElem?_eq_getElem hp]
        rw [heq, ← hm] at h1
        exact hpd ((List.getElem?_inj hp hnd).mp h1)
      have hlift_ne : ∀ p : Nat, (if p < d then p else p + 1) ≠ d := by intro p; split <;> omega
      have hmem_ne : ∀ a ∈ axes.eraseIdx d, a ≠ m := by
        intro a ha
        obtain ⟨p, hp⟩ := List.mem_iff_getElem?.mp ha
        have hp' : p < (axes.eraseIdx d).length := by
          cases h : (axes.eraseIdx d)[p]? with
          | none => simp [h] at hp
          | some _ => exact (List.getElem?_eq_some_iff.mp h).1
        have hg : a = (axes.eraseIdx d).getD p 0 := by simp [List.getD, hp]
        rw [hg, getD_eraseIdx]
        apply hne_m _ _ (hlift_ne p)
        rw [List.length_eraseIdx, if_pos hd] at hp'
        split <;> omega
      have hnd' : (drop1 d axes).Nodup := by
        rw [drop1_eq]
        show ((axes.eraseIdx d).map (r1 m)).Nodup
        rw [List.nodup_iff_pairwise_ne, List.pairwise_map]
        apply List.Pairwise.imp_of_mem _ (List.Nodup.eraseIdx d hnd)
        intro a b ha hb' hab heq
        have h1 := hmem_ne a ha
        have h2 := hmem_ne b hb'
        simp only [r1] at heq
        split at heq <;> split at heq <;> omega
      obtain ⟨ihlen, ihget⟩ := ih (ds.map (shiftDown d)) (drop1 d axes)
        (by simpa using hlen) hs2 hb2 hnd'
      rw [dropLoop_cons]
      refine ⟨by rw [ihlen, hlen']; simp; omega, ?_⟩
      intro k hk
      have hk' : k < (drop1 d axes).length - (ds.map (shiftDown d)).length := by
        rw [hlen']; simp at hk ⊢; omega
      obtain ⟨hval, hp'lt, hp'notin⟩ := ihget k hk'
      rw [hlen'] at hp'lt
      -- abbreviations
      generalize hp' : skip (ds.map (shiftDown d)) k = p' at *
      have hskip : skip (d :: ds) k = (if p' < d then p' else p' + 1) := by
        rw [skip_cons, hp']
      have hgetD' : ∀ q, q < axes.length - 1 →
          (drop1 d axes).getD q 0 = r1 m (axes.getD (if q < d then q else q + 1) 0) := by
        intro q hq
        have hq' : q < (axes.eraseIdx d).length := by rw [List.length_eraseIdx, if_pos hd]; exact hq
        rw [drop1_eq, ← getD_eraseIdx]
        simp [List.getD, List.getElem?_map, List.getElem?_eq_getElem hq', hm]
      have hR : (ds.map (shiftDown d)).map (fun x => (drop1 d axes).getD x 0)
          = (ds.map fun x => axes.getD x 0).map (r1 m) := by
        rw [List.map_map, List.map_map]
        apply List.map_congr_left
        intro x hx
        have h1 := hgt x hx
        have h2 := hb x (List.mem_cons_of_mem _ hx)
        simp only [Function.comp, shiftDown, h1, if_true]
        rw [hgetD' (x - 1) (by omega)]
        have : ¬ (x - 1 < d) := by omega
        simp only [this, if_false]
        congr 2; omega
      refine ⟨?_, ?_, ?_⟩
      · rw [hval, hR, hgetD' p' hp'lt, hskip]
        congr 1
        have hR' : (List.map (fun d_1 => axes.getD d_1 0) (d :: ds)) = m :: ds.map fun x => axes.getD x 0 := rfl
        rw [hR']
        apply renum_step
        · intro x hx
          obtain ⟨y, hy, rfl⟩ := List.mem_map.mp hx
          exact hne_m y (hb y (List.mem_cons_of_mem _ hy)) (by have := hgt y hy; omega)
        · apply hne_m _ _ (hlift_ne p')
          split <;> omega
      · rw [hskip]; split <;> omega
      · rw [hskip]
        intro hmem
        rcases List.mem_cons.mp hmem with h | h
        · exact hlift_ne p' h
        · have hx := hgt _ h
          by_cases hpd : p' < d
          · simp only [hpd, if_true] at h hx; omega
          · simp only [hpd, if_false] at h hx
            apply hp'notin
            rw [hmapeq]
            exact List.mem_map.mpr ⟨p' + 1, h, by omega⟩

end Ndcube

namespace Ndcube

/-! ### `memberItems`: where the index entries land on a member -/

theorem foldl_set_length (l : List Item) (ps : List (Item × Nat)) :
    (ps.foldl (fun acc p => acc.set p.2 p.1) l).length = l.length := by
  induction ps generalizing l with
  | nil => rfl
  | cons p ps ih => simp [List.foldl_cons, ih]

theorem memberItems_length (ndim : Nat) (axes : List Nat) (its : List Item) :
    (memberItems ndim axes its).length = ndim := by
  simp [memberItems, foldl_set_length]

theorem foldl_set_getD_notin (l : List Item) (ps : List (Item × Nat)) (b : Nat)
    (h : ∀ p ∈ ps, p.2 ≠ b) :
    (ps.foldl (fun acc p => acc.set p.2 p.1) l).getD b Item.all = l.getD b Item.all := by
  induction ps generalizing l with
  | nil => rfl
  | cons p ps ih =>
    rw [List.foldl_cons, ih _ (fun q hq => h q (List.mem_cons_of_mem _ hq))]
    have := h p (List.mem_cons_self ..)
    simp [List.getD, List.getElem?_set, this]

theorem foldl_set_getD_in (l : List Item) (ps : List (Item × Nat)) (i : Nat) (it : Item) (a : Nat)
    (hi : ps[i]? = some (it, a)) (hnd : (ps.map (·.2)).Nodup) (ha : a < l.length) :
    (ps.foldl (fun acc p => acc.set p.2 p.1) l).getD a Item.all = it := by
  induction ps generalizing l i with
  | nil => simp at hi
  | cons p ps ih =>
    rw [List.foldl_cons]
    simp only [List.map_cons, List.nodup_cons] at hnd
    cases i with
    | zero =>
      simp only [List.getElem?_cons_zero, Option.some.injEq] at hi
      subst hi
      rw [foldl_set_getD_notin]
      · simp [List.getD, List.getElem?_set, ha]
      · intro q hq heq
        apply hnd.1
        rw [← heq]
        exact List.mem_map.mpr ⟨q, hq, rfl⟩
    | succ j =>
      simp only [List.getElem?_cons_succ] at hi
      exact ih (l.set p.2 p.1) j hi hnd.2 (by simpa using ha)

theorem map_snd_zip_sublist {α β : Type} (l1 : List α) (l2 : List β) :
    List.Sublist ((l1.zip l2).map (·.2)) l2 := by
  induction l1 generalizing l2 with
  | nil => simp
  | cons a as ih =>
    cases l2 with
    | nil => simp
    | cons b bs => simp [List.zip_cons_cons, ih bs]

/-- The `i`-th index entry lands on the member's `i`-th aligned axis. -/
theorem memberItems_getD_aligned (ndim : Nat) (axes : List Nat) (its : List Item) (i : Nat)
    (hnd : axes.Nodup) (hlt : ∀ a ∈ axes, a < ndim) (hi : i < its.length) (hia : i < axes.length) :
    (memberItems ndim axes its).getD (axes.getD i 0) Item.all = its.getD i Item.all := by
  have hz : (its.zip axes)[i]? = some (its.getD i Item.all, axes.getD i 0) := by
    simp [List.getElem?_zip_eq_some, List.getD, List.getElem?_eq_getElem hi, List.getElem?_eq_getElem hia]
  have hnd' : ((its.zip axes).map (·.2)).Nodup := (map_snd_zip_sublist its axes).nodup hnd
  have hmem : axes.getD i 0 ∈ axes := by
    simp [List.getD, List.getElem?_eq_getElem hia]
  exact foldl_set_getD_in _ _ i _ _ hz hnd' (by simpa using hlt _ hmem)

/-- Member axes that no index entry is written to keep `slice(None)`. -/
theorem memberItems_getD_other (ndim : Nat) (axes : List Nat) (its : List Item) (b : Nat)
    (hb : ∀ i, i < its.length → i < axes.length → axes.getD i 0 ≠ b) :
    (memberItems ndim axes its).getD b Item.all = Item.all := by
  simp only [memberItems]
  rw [foldl_set_getD_notin]
  · simp only [List.getD, List.getElem?_replicate]
    split <;> rfl
  · intro p hp heq
    obtain ⟨i, hi⟩ := List.mem_iff_getElem?.mp hp
    rw [List.getElem?_zip_eq_some] at hi
    have h1 : i < its.length := by
      cases h : its[i]? with
      | none => simp [h] at hi
      | some _ => exact (List.getElem?_eq_some_iff.mp h).1
    have h2 : i < axes.length := by
      cases h : axes[i]? with
      | none => simp [h] at hi
      | some _ => exact (List.getElem?_eq_some_iff.mp h).1
    apply hb i h1 h2
    simp [List.getD, hi.2, heq]

end Ndcube

namespace Ndcube

theorem filter_lt_succ (R : List Nat) (a : Nat) :
    (R.filter (· < a + 1)).length = (R.filter (· < a)).length + R.count a := by
  induction R with
  | nil => rfl
  | cons x xs ih =>
    simp only [List.filter_cons, List.count_cons]
    by_cases h1 : x < a
    · have h2 : x < a + 1 := by omega
      have h3 : ¬ (x = a) := by omega
      simp [h1, h2, h3, ih]; omega
    · by_cases h3 : x = a
      · subst h3
        simp [ih]; omega
      · have h2 : ¬ (x < a + 1) := by omega
        simp [h1, h2, h3, ih]

theorem countInts_take_succ (l : List Item) (a : Nat) (ha : a < l.length) :
    countInts (l.take (a + 1)) = countInts (l.take a) + (if (l.getD a Item.all).isInt then 1 else 0) := by
  rw [List.take_add_one]
  simp only [countInts, List.filter_append, List.length_append, List.getD,
    List.getElem?_eq_getElem ha, Option.toList_some, Option.getD_some, List.filter_cons, List.filter_nil]
  split <;> simp

/-- If the integer entries of `l` sit exactly at the (distinct) positions `R`, the number of
integer entries in front of position `a` is the number of elements of `R` below `a`. -/
theorem countInts_take_eq (l : List Item) (R : List Nat) (hnd : R.Nodup)
    (hchar : ∀ b, b < l.length → ((l.getD b Item.all).isInt = true ↔ b ∈ R))
    (a : Nat) (ha : a ≤ l.length) :
    countInts (l.take a) = (R.filter (· < a)).length := by
  induction a with
  | zero =>
    have : R.filter (fun x => decide (x < 0)) = [] := by
      apply List.filter_eq_nil_iff.mpr; intro x _; simp
    rw [this]; simp [countInts]
  | succ n ih =>
    have hn : n < l.length := by omega
    rw [countInts_take_succ l n hn, ih (by omega), filter_lt_succ]
    congr 1
    have hc := (List.nodup_iff_count.mp hnd) n
    by_cases hm : n ∈ R
    · have h1 := (hchar n hn).mpr hm
      have h2 : 0 < R.count n := List.count_pos_iff.mpr hm
      rw [if_pos h1]; omega
    · have h1 : ¬ ((l.getD n Item.all).isInt = true) := fun h => hm ((hchar n hn).mp h)
      have h2 : R.count n = 0 := List.count_eq_zero.mpr hm
      rw [if_neg h1, h2]

end Ndcube

namespace Ndcube

theorem countInts_take_congr (l1 l2 : List Item) (h : l1.map Item.isInt = l2.map Item.isInt) (c : Nat) :
    countInts (l1.take c) = countInts (l2.take c) := by
  simp only [countInts]
  rw [← List.countP_eq_length_filter, ← List.countP_eq_length_filter]
  have e1 := List.countP_map (p := fun b : Bool => b) (f := Item.isInt) (l := l1.take c)
  have e2 := List.countP_map (p := fun b : Bool => b) (f := Item.isInt) (l := l2.take c)
  simp only [Function.comp_def] at e1 e2
  rw [← e1, ← e2, List.map_take, List.map_take, h]

theorem getD_isInt_congr (l1 l2 : List Item) (h : l1.map Item.isInt = l2.map Item.isInt) (a : Nat) :
    (l1.getD a Item.all).isInt = (l2.getD a Item.all).isInt := by
  have := congrArg (fun l => l[a]?) h
  simp only [List.getElem?_map] at this
  simp only [List.getD]
  cases h1 : l1[a]? <;> cases h2 : l2[a]? <;> simp_all [Item.all, Item.isInt]

theorem foldl_set_mem (l : List Item) (ps : List (Item × Nat)) :
    ∀ x ∈ ps.foldl (fun acc p => acc.set p.2 p.1) l, x ∈ l ∨ x ∈ ps.map (·.1) := by
  induction ps generalizing l with
  | nil => intro x hx; exact Or.inl hx
  | cons p ps ih =>
    intro x hx
    rw [List.foldl_cons] at hx
    rcases ih _ x hx with h | h
    · rcases List.mem_or_eq_of_mem_set h with h | h
      · exact Or.inl h
      · exact Or.inr (by simp [h])
    · exact Or.inr (by simp only [List.map_cons, List.mem_cons]; exact Or.inr h)

theorem memberItems_noEllipsis (ndim : Nat) (axes : List Nat) (its : List Item)
    (hb : ∀ it ∈ its, it ≠ .ellipsis) : countEllipsis (memberItems ndim axes its) = 0 := by
  simp only [countEllipsis, List.length_eq_zero_iff, List.filter_eq_nil_iff]
  intro x hx
  rcases foldl_set_mem _ _ x hx with h | h
  · have := List.eq_of_mem_replicate h
    subst this; simp [Item.all]
  · obtain ⟨p, hp, rfl⟩ := List.mem_map.mp h
    have := hb p.1 (List.of_mem_zip (a := p.1) (b := p.2) hp).1
    cases hx' : p.1 <;> simp_all

theorem intPositions_mem (its : List Item) (i : Nat) :
    i ∈ intPositions its ↔ i < its.length ∧ (its.getD i Item.all).isInt = true := by
  simp [intPositions]

theorem intPositions_sorted (its : List Item) : (intPositions its).Pairwise (· < ·) :=
  List.Pairwise.sublist (List.filter_sublist) List.pairwise_lt_range

end Ndcube

namespace Ndcube

/-- **Numeric slicing of one member.**  The member has distinct aligned axes `axes` that exist
on its `shape`; the index entries `its` (ints / slices, at most one per aligned axis) are
written at those axes and the member is sliced with the resulting item.  Then the `k`-th aligned
axis that the bookkeeping loop reports for the result is a *view of* the member's surviving
aligned axis number `skip drops k` — the same physical axis, renumbered. -/
theorem slice_view (shape axes : List Nat) (its nits : List Item) (res : List AxisRes)
    (hnd : axes.Nodup) (hlt : ∀ a ∈ axes, a < shape.length) (hlen : its.length ≤ axes.length)
    (hbasic : ∀ it ∈ its, it ≠ .ellipsis)
    (hnorm : normItems shape (memberItems shape.length axes its) = .ok nits)
    (hres : applyAxes shape nits = .ok res) :
    let drops := intPositions its
    ∀ k, k < axes.length - drops.length →
      (keptAxes res)[(dropLoop drops axes).getD k 0]? = some (axes.getD (skip drops k) 0) := by
  intro drops k hk
  have hdb : ∀ d ∈ drops, d < axes.length := by
    intro d hd
    have := (intPositions_mem its d).mp hd
    omega
  obtain ⟨_, hget⟩ := dropLoop_get drops.length drops axes rfl (intPositions_sorted its) hdb hnd
  obtain ⟨hval, hplt, hpnot⟩ := hget k hk
  generalize hp : skip drops k = p at *
  let R := drops.map fun d => axes.getD d 0
  let a := axes.getD p 0
  have haxis : ∀ i, i < axes.length → axes[i]? = some (axes.getD i 0) := by
    intro i hi; simp [List.getD, List.getElem?_eq_getElem hi]
  have hinj : ∀ i j, i < axes.length → j < axes.length → axes.getD i 0 = axes.getD j 0 → i = j := by
    intro i j hi hj h
    exact (List.getElem?_inj hi hnd).mp (by rw [haxis i hi, haxis j hj, h])
  have hamem : a ∈ axes := by simp [a, List.getD, List.getElem?_eq_getElem hplt]
  have ha : a < shape.length := hlt a hamem
  -- characterisation of the integer entries of the member item
  have hmlen := memberItems_length shape.length axes its
  have hchar : ∀ b, b < (memberItems shape.length axes its).length →
      (((memberItems shape.length axes its).getD b Item.all).isInt = true ↔ b ∈ R) := by
    intro b _
    constructor
    · intro hint
      by_cases hex : ∃ i, i < its.length ∧ i < axes.length ∧ axes.getD i 0 = b
      · obtain ⟨i, hi1, hi2, rfl⟩ := hex
        rw [memberItems_getD_aligned _ _ _ i hnd hlt hi1 hi2] at hint
        exact List.mem_map.mpr ⟨i, (intPositions_mem its i).mpr ⟨hi1, hint⟩, rfl⟩
      · rw [memberItems_getD_other] at hint
        · simp [Item.all, Item.isInt] at hint
        · intro i h1 h2 h3; exact hex ⟨i, h1, h2, h3⟩
    · intro hb
      obtain ⟨i, hi, rfl⟩ := List.mem_map.mp hb
      have ⟨hi1, hi2⟩ := (intPositions_mem its i).mp hi
      rw [memberItems_getD_aligned _ _ _ i hnd hlt hi1 (hdb i hi)]
      exact hi2
  have hRnd : R.Nodup := by
    rw [List.nodup_iff_pairwise_ne, List.pairwise_map]
    apply List.Pairwise.imp_of_mem _ (intPositions_sorted its)
    intro x y hx hy hxy heq
    have := hinj x y (hdb x hx) (hdb y hy) heq
    omega
  have haR : a ∉ R := by
    intro h
    obtain ⟨i, hi, heq⟩ := List.mem_map.mp h
    have := hinj i p (hdb i hi) hplt heq
    exact hpnot (this ▸ hi)
  -- normalisation keeps the int pattern
  have hpat := normItems_isInt hnorm hmlen (memberItems_noEllipsis _ _ _ hbasic)
  have hcnt : numDropped (res.take a) = (R.filter (· < a)).length := by
    rw [numDropped_eq_countInts hres a, countInts_take_congr _ _ hpat a,
      countInts_take_eq _ R hRnd hchar a (by rw [hmlen]; omega)]
  have hkept : (res.getD a (.dropped 0)).isKept = true := by
    have h1 := applyAxes_isInt hres
    have hl := applyAxes_length hres
    have ha2 : a < res.length := by omega
    have ha3 : a < nits.length := by omega
    have h2 := congrArg (fun l => l[a]?) h1
    simp only [List.getElem?_map, List.getElem?_eq_getElem ha2, List.getElem?_eq_getElem ha3,
      Option.map_some, Option.some.injEq] at h2
    have h3 : (nits.getD a Item.all).isInt = false := by
      rw [getD_isInt_congr _ _ hpat a]
      cases hh : ((memberItems shape.length axes its).getD a Item.all).isInt
      · rfl
      · exact absurd ((hchar a (by rw [hmlen]; exact ha)).mp hh) haR
    simp only [List.getD, List.getElem?_eq_getElem ha3, Option.getD_some] at h3
    simp only [List.getD, List.getElem?_eq_getElem ha2, Option.getD_some]
    rw [h3] at h2
    simpa using h2
  have hl := applyAxes_length hres
  have hview := keptFrom_get 0 a res (by omega) hkept
  have hdl : (dropLoop drops axes).getD k 0 = a - numDropped (res.take a) := by
    simp only [List.getD, hval, Option.getD_some, renum, hcnt]
    rfl
  rw [hdl]
  have : (keptAxes res)[a - numDropped (res.take a)]? = some a := by
    simpa [keptAxes] using hview
  exact this

end Ndcube

namespace Ndcube

theorem drop1_nodup (d : Nat) (axes : List Nat) (hnd : axes.Nodup) (hd : d < axes.length) :
    (drop1 d axes).Nodup := by
  let m := axes.getD d 0
  have hm : axes[d]? = some m := by simp [m, List.getD, List.getElem?_eq_getElem hd]
  have hmem_ne : ∀ a ∈ axes.eraseIdx d, a ≠ m := by
    intro a ha heq
    obtain ⟨p, hp⟩ := List.mem_iff_getElem?.mp ha
    rw [List.getElem?_eraseIdx] at hp
    by_cases hpd : p < d
    · rw [if_pos hpd, heq, ← hm] at hp
      have hlt : p < axes.length := by omega
      have := (List.getElem?_inj hlt hnd).mp hp
      omega
    · rw [if_neg hpd, heq, ← hm] at hp
      have hlt : p + 1 < axes.length := by
        cases h : axes[p + 1]? with
        | none => rw [h, hm] at hp; cases hp
        | some _ => exact (List.getElem?_eq_some_iff.mp h).1
      have := (List.getElem?_inj hlt hnd).mp hp
      omega
  rw [drop1_eq]
  show ((axes.eraseIdx d).map (r1 m)).Nodup
  rw [List.nodup_iff_pairwise_ne, List.pairwise_map]
  apply List.Pairwise.imp_of_mem _ (List.Nodup.eraseIdx d hnd)
  intro a b ha hb' hab heq
  have h1 := hmem_ne a ha
  have h2 := hmem_ne b hb'
  simp only [r1] at heq
  split at heq <;> split at heq <;> omega

/-- One pass of the loop keeps the remaining drop positions strictly increasing and in range. -/
theorem drops_step (d : Nat) (ds axes : List Nat) (hs : (d :: ds).Pairwise (· < ·))
    (hb : ∀ x ∈ d :: ds, x < axes.length) :
    (ds.map (shiftDown d)).Pairwise (· < ·) ∧ ∀ x ∈ ds.map (shiftDown d), x < (drop1 d axes).length := by
  have hd : d < axes.length := hb d (List.mem_cons_self ..)
  have hgt : ∀ x ∈ ds, d < x := fun x hx => (List.pairwise_cons.mp hs).1 x hx
  have hs' : ds.Pairwise (· < ·) := (List.pairwise_cons.mp hs).2
  have hmapeq : ds.map (shiftDown d) = ds.map (· - 1) := by
    apply List.map_congr_left
    intro x hx
    have := hgt x hx
    simp [shiftDown, this]
  have hlen' : (drop1 d axes).length = axes.length - 1 := by
    simp [drop1, List.length_eraseIdx, hd]
  constructor
  · rw [hmapeq, List.pairwise_map]
    apply List.Pairwise.imp_of_mem _ hs'
    intro a b ha hb' hab
    have := hgt a ha; have := hgt b hb'
    omega
  · intro x hx
    rw [hmapeq] at hx
    obtain ⟨y, hy, rfl⟩ := List.mem_map.mp hx
    have := hgt y hy
    have := hb y (List.mem_cons_of_mem _ hy)
    rw [hlen']; omega

theorem dropLoop_nodup (n : Nat) : ∀ (drops axes : List Nat), drops.length = n →
    drops.Pairwise (· < ·) → (∀ d ∈ drops, d < axes.length) → axes.Nodup →
    (dropLoop drops axes).Nodup := by
  induction n with
  | zero =>
    intro drops axes hlen _ _ hnd
    have : drops = [] := List.length_eq_zero_iff.mp hlen
    subst this; simpa [dropLoop_nil] using hnd
  | succ n ih =>
    intro drops axes hlen hs hb hnd
    cases drops with
    | nil => simp at hlen
    | cons d ds =>
      rw [dropLoop_cons]
      obtain ⟨h1, h2⟩ := drops_step d ds axes hs hb
      exact ih _ _ (by simpa using hlen) h1 h2
        (drop1_nodup d axes hnd (hb d (List.mem_cons_self ..)))

end Ndcube

namespace Ndcube

/-! ### ordered-dict lemmas: two dicts edited in lock-step keep the same key sequence -/

theorem derase_keys {β γ} (k : Key) (a : List (Key × β)) (m : List (Key × γ))
    (h : a.map (·.1) = m.map (·.1)) : (derase k a).map (·.1) = (derase k m).map (·.1) := by
  induction a generalizing m with
  | nil => cases m <;> simp_all [derase]
  | cons x xs ih =>
    cases m with
    | nil => simp at h
    | cons y ys =>
      simp only [List.map_cons, List.cons.injEq] at h
      obtain ⟨h1, h2⟩ := h
      obtain ⟨k1, v1⟩ := x
      obtain ⟨k2, v2⟩ := y
      simp only at h1
      subst h1
      simp only [derase]
      split
      · exact h2
      · simp [ih ys h2]

theorem dupsert_keys {β γ} (k : Key) (v : β) (w : γ) (a : List (Key × β)) (m : List (Key × γ))
    (h : a.map (·.1) = m.map (·.1)) : (dupsert k v a).map (·.1) = (dupsert k w m).map (·.1) := by
  induction a generalizing m with
  | nil => cases m <;> simp_all [dupsert]
  | cons x xs ih =>
    cases m with
    | nil => simp at h
    | cons y ys =>
      simp only [List.map_cons, List.cons.injEq] at h
      obtain ⟨h1, h2⟩ := h
      obtain ⟨k1, v1⟩ := x
      obtain ⟨k2, v2⟩ := y
      simp only at h1
      subst h1
      simp only [dupsert]
      split
      · simp [h2]
      · simp [ih ys h2]

theorem dupdate_keys {β γ} (a : List (Key × β)) (m : List (Key × γ)) (pa : List (Key × β))
    (pm : List (Key × γ)) (h1 : a.map (·.1) = m.map (·.1)) (h2 : pa.map (·.1) = pm.map (·.1)) :
    (dupdate a pa).map (·.1) = (dupdate m pm).map (·.1) := by
  induction pa generalizing a m pm with
  | nil => cases pm <;> simp_all [dupdate]
  | cons x xs ih =>
    cases pm with
    | nil => simp at h2
    | cons y ys =>
      simp only [List.map_cons, List.cons.injEq] at h2
      obtain ⟨hk, hrest⟩ := h2
      simp only [dupdate, List.foldl_cons]
      have := dupsert_keys x.1 x.2 y.2 a m h1
      rw [hk] at this ⊢
      exact ih _ _ _ (by rw [← hk]; exact dupsert_keys x.1 x.2 y.2 a m h1) hrest

theorem mapM_length {α β ε : Type} (f : α → Except ε β) (l : List α) (u : List β)
    (h : l.mapM f = .ok u) : u.length = l.length := by
  induction l generalizing u with
  | nil => simp [List.mapM_nil, pure, Except.pure] at h; subst h; rfl
  | cons x xs ih =>
    simp only [List.mapM_cons, bind, Except.bind] at h
    cases hv : f x with
    | error e => simp [hv] at h
    | ok v =>
      simp only [hv] at h
      cases hw : xs.mapM f with
      | error e => simp [hw] at h
      | ok w =>
        simp only [hw, pure, Except.pure] at h
        cases h
        simp [ih w hw]

end Ndcube
