import NdcubeModel.Model.Coords
import NdcubeModel.Lemmas.Index

/-!
# C05 — axis_world_coords(_values) report exactly what the WCS says for every pixel
-/

namespace Ndcube.C05
open Ndcube

/-- The correlation matrix is truthful: world axis `i` depends only on the pixel axes the
matrix marks (an assumption about astropy / gwcs, sampled by the harness on every WCS). -/
def Truthful {ω} (w : LLWcs ω) : Prop :=
  ∀ (i : Nat) (p p' : List Rat), p.length = w.pixDim → p'.length = w.pixDim →
    (∀ k, k < w.pixDim → corrAt w.corr i k = true → p[k]? = p'[k]?) →
    (w.p2w p)[i]? = (w.p2w p')[i]?

theorem corrPixels_mem (corr : List (List Bool)) (pixDim i k : Nat) :
    k ∈ corrPixels corr pixDim i ↔ k < pixDim ∧ corrAt corr i k = true := by
  simp [corrPixels]

theorem corrPixels_sorted (corr : List (List Bool)) (pixDim i : Nat) :
    (corrPixels corr pixDim i).Pairwise (· < ·) :=
  List.Pairwise.sublist List.filter_sublist List.pairwise_lt_range

/-- **Values.**  Under a truthful correlation matrix, every entry of the coordinate array of world
axis `i` equals the WCS's pixel-to-world value at the centre (corner) of *every* pixel position
`c` that agrees with the entry's indices on the axes `i` depends on — in particular at the
centre (corner) of the array element itself.  Any dimensionality, any correlation structure. -/
theorem awc_value {ω} (w : LLWcs ω) (hT : Truthful w) (groups : List (List Nat × List Nat))
    (corners : Bool) (i : Nat) (a : List Nat) (c : List Rat) (hc : c.length = w.pixDim)
    (hagree : ∀ pos k, (corrPixels w.corr w.pixDim i)[pos]? = some k →
      c[k]? = some (rangeAt corners (a.getD ((corrPixels w.corr w.pixDim i).length - 1 - pos) 0))) :
    (w.p2w (gridPixel w.corr w.pixDim groups corners i a))[i]? = (w.p2w c)[i]? := by
  apply hT i _ c (by simp [gridPixel]) hc
  intro k hk hcorr
  have hmem : k ∈ corrPixels w.corr w.pixDim i := (corrPixels_mem _ _ _ _).mpr ⟨hk, hcorr⟩
  obtain ⟨pos, hpos⟩ := List.mem_iff_getElem?.mp hmem
  have hposlt : pos < (corrPixels w.corr w.pixDim i).length := by
    cases h : (corrPixels w.corr w.pixDim i)[pos]? with
    | none => rw [h] at hpos; cases hpos
    | some _ => exact (List.getElem?_eq_some_iff.mp h).1
  have hidx : (corrPixels w.corr w.pixDim i).idxOf? k = some pos := by
    have hnd : (corrPixels w.corr w.pixDim i).Nodup := by
      rw [List.nodup_iff_pairwise_ne]
      exact List.Pairwise.imp (fun h => Nat.ne_of_lt h) (corrPixels_sorted _ _ _)
    have hget : (corrPixels w.corr w.pixDim i)[pos] = k := by
      have := List.getElem?_eq_getElem hposlt
      rw [this] at hpos; exact Option.some.inj hpos
    rw [← hget]
    simp only [List.idxOf?]
    rw [List.findIdx?_eq_some_iff_getElem]
    refine ⟨hposlt, by simp, ?_⟩
    intro j hj
    have hjlt : j < (corrPixels w.corr w.pixDim i).length := by omega
    have hne : ¬ ((corrPixels w.corr w.pixDim i)[j] = (corrPixels w.corr w.pixDim i)[pos]) := by
      intro heq
      have := (List.getElem?_inj hjlt hnd (j := pos)).mp
        (by rw [List.getElem?_eq_getElem hjlt, List.getElem?_eq_getElem hposlt, heq])
      omega
    simpa using hne
  rw [hagree pos k hpos]
  simp only [gridPixel, List.getElem?_map, List.getElem?_range hk, Option.map_some, hidx]

/-- **Shape.**  The coordinate array of world axis `i` spans exactly the array axes
`{n−1−k | corr[i][k]}`, listed in ascending array order. -/
theorem awc_shape (corr : List (List Bool)) (pixDim i : Nat) :
    coordArrayAxes corr pixDim pixDim none i
      = ((corrPixels corr pixDim i).map fun k => pixDim - 1 - k).reverse ∧
    (coordArrayAxes corr pixDim pixDim none i).Pairwise (· < ·) ∧
    ∀ ax, ax ∈ coordArrayAxes corr pixDim pixDim none i ↔
      ∃ k, k < pixDim ∧ corrAt corr i k = true ∧ ax = pixDim - 1 - k := by
  refine ⟨rfl, ?_, ?_⟩
  · simp only [coordArrayAxes, List.pairwise_reverse, List.pairwise_map]
    apply List.Pairwise.imp_of_mem _ (corrPixels_sorted corr pixDim i)
    intro a b ha hb hab
    have h1 := ((corrPixels_mem _ _ _ _).mp ha).1
    have h2 := ((corrPixels_mem _ _ _ _).mp hb).1
    omega
  · intro ax
    simp only [coordArrayAxes, List.mem_reverse, List.mem_map, corrPixels_mem]
    constructor
    · rintro ⟨k, ⟨hk, hc⟩, rfl⟩; exact ⟨k, hk, hc, rfl⟩
    · rintro ⟨k, hk, hc, rfl⟩; exact ⟨k, ⟨hk, hc⟩, rfl⟩

theorem axisToPixel_spec (n : Nat) (a : Int) (k : Nat) (h : axisToPixel n a = .ok k) :
    k < n ∧ ((a : Int) = (n : Int) - 1 - k ∨ (a : Int) + n = (n : Int) - 1 - k) := by
  simp only [axisToPixel] at h
  by_cases ha : a < 0
  · rw [if_pos ha] at h
    by_cases hc : a + (n : Int) < 0 ∨ a + (n : Int) > (n : Int) - 1
    · rw [if_pos hc] at h; cases h
    · rw [if_neg hc] at h; cases h; omega
  · rw [if_neg ha] at h
    by_cases hc : a < 0 ∨ a > (n : Int) - 1
    · rw [if_pos hc] at h; cases h
    · rw [if_neg hc] at h; cases h; omega

theorem mapM_mem {α β ε : Type} (f : α → Except ε β) (l : List α) (u : List β)
    (h : l.mapM f = .ok u) : ∀ y ∈ u, ∃ x ∈ l, f x = .ok y := by
  induction l generalizing u with
  | nil => simp [List.mapM_nil, pure, Except.pure] at h; subst h; intro y hy; simp at hy
  | cons x xs ih =>
    simp only [List.mapM_cons, bind, Except.bind] at h
    cases hv : f x with
    | error e => simp [hv] at h
    | ok v =>
      simp only [hv] at h
      cases hw : xs.mapM f with
      | error e => simp [hw] at h
      | ok w =>
        simp only [hw, pure, Except.pure] at h
        cases h
        intro y hy
        rcases List.mem_cons.mp hy with rfl | hy'
        · exact ⟨x, List.mem_cons_self .., hv⟩
        · obtain ⟨x', hx', hf⟩ := ih w hw y hy'
          exact ⟨x', List.mem_cons_of_mem _ hx', hf⟩

/-- **Selection.**  For integer array axes of the cube (either sign) the world axes returned are
exactly those correlated with a WCS pixel axis that describes one of the requested array axes
(directly, or through the extra-coords mapping), each once, in world order. -/
theorem awc_selection (corr : List (List Bool)) (pixDim worldDim n : Nat) (mapping : Option (List Nat))
    (axes : List Int) (sel : List Nat)
    (h : worldIndicesInts corr pixDim worldDim n mapping axes = .ok sel) :
    sel.Pairwise (· < ·) ∧
    ∀ i, i ∈ sel ↔ i < worldDim ∧ ∃ a ∈ axes, ∃ p : Nat, axisToPixel n a = .ok p ∧
      ∃ k ∈ pixelsOfCubeAxis pixDim mapping p, corrAt corr i k = true := by
  simp only [worldIndicesInts, bind, Except.bind] at h
  cases hp : axes.mapM (axisToPixel n) with
  | error e => simp [hp] at h
  | ok pix =>
    simp only [hp, pure, Except.pure] at h
    cases h
    refine ⟨List.Pairwise.sublist List.filter_sublist List.pairwise_lt_range, ?_⟩
    intro i
    simp only [List.mem_filter, List.mem_range, List.any_eq_true, List.mem_flatMap]
    constructor
    · rintro ⟨hlt, k, ⟨p, hpmem, hk⟩, hc⟩
      obtain ⟨a, ha, hf⟩ := mapM_mem _ _ _ hp p hpmem
      exact ⟨hlt, a, ha, p, hf, k, hk, hc⟩
    · rintro ⟨hlt, a, ha, p, hf, k, hk, hc⟩
      refine ⟨hlt, k, ⟨p, ?_, hk⟩, hc⟩
      -- every requested axis contributes its pixel axis to the list
      clear hk hc
      induction axes generalizing pix with
      | nil => simp at ha
      | cons x xs ih =>
        simp only [List.mapM_cons, bind, Except.bind] at hp
        cases hv : axisToPixel n x with
        | error e => simp [hv] at hp
        | ok v =>
          simp only [hv] at hp
          cases hw : xs.mapM (axisToPixel n) with
          | error e => simp [hw] at hp
          | ok w =>
            simp only [hw, pure, Except.pure] at hp
            cases hp
            rcases List.mem_cons.mp ha with rfl | ha'
            · rw [hv] at hf; cases hf; exact List.mem_cons_self ..
            · exact List.mem_cons_of_mem _ (ih w hw ha')

end Ndcube.C05
