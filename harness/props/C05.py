"""C05 — axis_world_coords(_values) report exactly what the WCS says for every pixel."""
import itertools, random
import numpy as np
import astropy.units as u
from astropy.time import Time
from astropy.wcs.wcsapi.high_level_api import high_level_objects_to_values

import common as C
import wcsfam as W
from core import err_kind

ID = "C05"
MODEL_OP = "world_coords"
RULE = ("non-cubic cubes of 1-4 dims over the exact probe family (separable / coupled / extra world axis), FITS (separable, "
        "celestial, rotated), gWCS tables, and sliced / rebinned cubes; wcs choice in {wcs, extra_coords, combined_wcs} with "
        "0-3 Quantity/Time extra coords (often several on one axis); axes: none, every kind of non-empty subset as ints of both signs, unique "
        "physical-type substrings; both pixel_corners; values form and high-level form. Non-trivial = always (every case "
        "evaluates at least one coordinate array); distinct = whole case")
TRUSTED = ["low_level_wcs.pixel_to_world_values on np.indices grids is the reference", "astropy high_level_objects_to_values for the high-level form"]
ASSUMPTIONS = ["real-WCS values compared at rtol 1e-9", "truthfulness of axis_correlation_matrix is checked on the full grid in every case"]
FAMS = ["probe", "probe_coupled", "probe_extra", "fits_sep", "fits_cel", "fits_rot", "gwcs"]


def corpus():
    return C.read_corpus(ID)


def generate(rng, tier):
    n = 600 if tier == "quick" else 30000
    for _ in range(n):
        nd = rng.choice([1, 2, 2, 3, 3, 4])
        shape = rng.sample([2, 3, 4, 5], nd) if nd <= 4 else [2, 3, 4, 5]
        necs = rng.choice([0, 0, 1, 2, 2, 3])
        ecs = [{"axis": rng.randrange(nd), "kind": rng.choice(["quantity", "time"])} for _ in range(necs)]
        for e in ecs[1:]:
            if rng.random() < 0.5:
                e["axis"] = ecs[0]["axis"]            # several tables on one array axis
        which = rng.choice(["wcs", "wcs", "combined_wcs", "extra_coords", "extra_coords"]) if necs else "wcs"
        r = rng.random()
        if r < 0.3:
            axes = None
        elif r < 0.8:
            k = rng.randint(1, nd)
            axes = [a if rng.random() < 0.5 else a - nd for a in rng.sample(range(nd), k)]
        else:
            axes = "string"
        yield {"shape": shape, "fam": rng.choice(FAMS), "wseed": rng.randrange(10**6), "ecs": ecs, "which": which,
               "axes": axes, "corners": rng.random() < 0.4, "pre": rng.choice([None, None, None, "slice", "rebin"]),
               "form": rng.choice(["values", "values", "high"])}

    # targeted: a cube cut out far along a long axis
    for k in range(6 if tier == "quick" else 60):
        shape = [[300], [3, 300], [300, 2]][k % 3]
        yield {"shape": shape, "fam": ["fits_sep", "probe", "fits_cel"][k % 3] if len(shape) > 1 else "fits_sep", "wseed": rng.randrange(10**6) * 12 + 2,
               "ecs": [], "which": "wcs", "axes": None, "corners": False, "pre": "slice_far", "form": ["values", "high"][k % 2]}
    # targeted: extra coords on some axes only, an integer axis that carries none asked for through the extra coords
    # (both forms); and two tables of the same physical type with a physical-type string as the request
    for k in range(40 if tier == "quick" else 2000):
        nd = rng.choice([2, 3, 3, 4])
        shape = rng.sample([2, 3, 4, 5], nd)
        with_ec = rng.sample(range(nd), rng.randint(1, nd - 1))
        ecs = [{"axis": a, "kind": rng.choice(["quantity", "time"])} for a in with_ec]
        free = [a for a in range(nd) if a not in with_ec]
        a = rng.choice(free)
        yield {"shape": shape, "fam": rng.choice(FAMS), "wseed": rng.randrange(10**6), "ecs": ecs, "which": "extra_coords",
               "axes": [a if k % 2 else a - nd], "corners": k % 3 == 0, "pre": None, "form": ["values", "high"][k % 2]}
    for k in range(30 if tier == "quick" else 1500):
        nd = rng.choice([2, 3])
        shape = rng.sample([2, 3, 4, 5], nd)
        ax = rng.sample(range(nd), 2)
        ecs = [{"axis": ax[0], "kind": "time"}, {"axis": ax[k % 2], "kind": "time"}]
        yield {"shape": shape, "fam": rng.choice(FAMS), "wseed": rng.randrange(10**6), "ecs": ecs,
               "which": ["extra_coords", "combined_wcs"][k % 2], "axes": "string", "corners": False, "pre": None,
               "form": ["values", "high"][(k // 2) % 2]}


def build(case):
    from ndcube import NDCube
    rng = random.Random(case["wseed"])
    shape = tuple(case["shape"])
    # one cube in six holds a WCS that declares another frame than the data (larger or smaller): the coordinates
    # are those of the cube's elements, one per element of the data
    frame = {0: "larger", 1: "smaller"}.get(case["wseed"] % 12, True)
    wcs = W.make_wcs(rng, shape, case["fam"], frame)
    cube = None
    if case["wseed"] % 7 == 3:
        # (one cube in seven is reached by slicing a larger one by ranges: see common.via_slicing)
        cube = C.via_slicing(C.payload(tuple(shape), 0), wcs, case["wseed"])
    if cube is None:
        cube = NDCube(C.payload(shape, 0), wcs=wcs)
    for k, ec in enumerate(case["ecs"]):
        n = shape[ec["axis"]]
        v = np.arange(n, dtype=float) ** 2 + 10 * k
        if ec["kind"] == "quantity":
            cube.extra_coords.add(f"q{k}", ec["axis"], v * u.m, physical_types=f"custom:q{k}")
        else:
            cube.extra_coords.add(f"t{k}", ec["axis"], Time("2020-01-01T00:00:00", scale="utc") + v * u.min)
    if case["pre"] == "slice":
        item = tuple(slice(1, None) if s > 2 else slice(None) for s in shape)
        if len(shape) > 1:
            item = (0,) + item[1:]
        cube = cube[item]
    elif case["pre"] == "slice_far":
        # a range that starts far along a long axis (beyond what an 8-bit pixel grid could count to)
        cube = cube[tuple(slice(230, 290) if s >= 290 else slice(None) for s in shape)]
    elif case["pre"] == "rebin":
        bins = tuple(2 if s % 2 == 0 else 1 for s in shape)
        if any(b > 1 for b in bins):
            cube = cube.rebin(bins)
    return cube


def ll_and_mapping(cube, which):
    """the low-level WCS in question and, for extra coords, the cube pixel axis of each of its pixel axes"""
    if which == "extra_coords":
        ec = cube.extra_coords
        return (ec.wcs.low_level_wcs if hasattr(ec.wcs, "low_level_wcs") else ec.wcs), [int(x) for x in ec.mapping]
    w = getattr(cube, which)
    return w.low_level_wcs, None


def full_grids(ll, shape, mapping, corners):
    """world values of every element (corner) of the cube: list of arrays in array order"""
    nd = len(shape)
    gshape = tuple(s + 1 for s in shape) if corners else tuple(shape)
    idx = np.indices(gshape).astype(float) - (0.5 if corners else 0.0)    # idx[a] = coordinate along array axis a
    if mapping is None:
        pix = [idx[nd - 1 - k] for k in range(ll.pixel_n_dim)]
    else:
        pix = [idx[nd - 1 - mapping[k]] for k in range(ll.pixel_n_dim)]
    out = ll.pixel_to_world_values(*pix)
    if ll.world_n_dim == 1 and not isinstance(out, (tuple, list)):
        out = [out]
    return [np.asarray(x, dtype=float) for x in out]


def fresh_unset_wcs_check(case, fails, tags):
    """A FITS WCS as a user builds it by hand, in nm and minutes, never used for anything before the request: the very
    first request on the cube (values form) already reports physical values - wcslib rescales such a WCS to metres and
    seconds the first time it is used, and the units must be read after that, not before."""
    from ndcube import NDCube
    from astropy.wcs import WCS
    def hand_built():
        w = WCS(naxis=2)
        w.wcs.ctype = ["WAVE", "TIME"]
        w.wcs.cunit = ["nm", "min"]
        w.wcs.cdelt = [0.25, 0.5]
        w.wcs.crval = [500.0, 2.0]
        w.wcs.crpix = [1, 2]
        return w
    twin = hand_built()
    twin.wcs.set()
    cube = NDCube(np.zeros((3, 4)), wcs=hand_built())
    try:
        first = cube.axis_world_coords_values(pixel_corners=case["corners"])
    except Exception as e:
        fails.append(f"first request on a cube with a hand-built FITS WCS (nm, min) raised {type(e).__name__}: {str(e)[:100]}")
        return
    off = -0.5 if case["corners"] else 0.0
    n = (5, 4) if case["corners"] else (4, 3)          # pixel order: WAVE has 4 elements, TIME 3
    tu = [u.Unit(x) for x in twin.world_axis_units]    # (the units after wcslib's own normalisation: m and min)
    want = {"em_wl": np.asarray(twin.pixel_to_world_values(np.arange(n[0]) + off, np.zeros(n[0]))[0]) * tu[0],
            "time": np.asarray(twin.pixel_to_world_values(np.zeros(n[1]), np.arange(n[1]) + off)[1]) * tu[1]}
    for nm, w_ in want.items():
        q = getattr(first, nm, None)
        try:
            ok = q is not None and np.allclose(u.Quantity(q).to_value(w_.unit), w_.value, rtol=1e-9)
        except Exception:
            ok = False
        if not ok:
            fails.append(f"first request (values form) on a cube with a hand-built FITS WCS in nm / min: {nm} is {q if q is None else u.Quantity(q)[:2]}, "
                         f"an identical WCS gives {w_[:2]}")
    tags.append("fresh-hand-built-wcs")


def run(case):
    rng = random.Random(case["wseed"] + 4)
    tags = [f"ndim={len(case['shape'])}", f"fam={case['fam']}", f"which={case['which']}", f"corners={case['corners']}",
            f"pre={case['pre']}", f"form={case['form']}",
            "axes=" + ("none" if case["axes"] is None else "string" if case["axes"] == "string" else
                       ("neg" if any(a < 0 for a in case["axes"]) else "pos"))]
    res = {"tags": tags, "oracle": None, "impl": {"err": None}, "model_req": None,
           "nontrivial": repr(sorted(case.items(), key=str))}
    exact = case["fam"].startswith("probe")
    fails = []
    if case["wseed"] % 6 == 5:
        fresh_unset_wcs_check(case, fails, tags)
    try:
        cube = build(case)
        shape = tuple(cube.data.shape)
        nd = len(shape)
        which = case["which"]
        if which != "wcs" and cube.extra_coords.wcs is None:
            which = "wcs"                       # every extra coord was sliced away
            tags.append("ec-all-dropped")
        res["which"] = which
        ll, mapping = ll_and_mapping(cube, which)
        corr = np.asarray(ll.axis_correlation_matrix)
        ptypes = [str(t) for t in ll.world_axis_physical_types]
        axes = case["axes"]
        if isinstance(axes, list):
            axes = [a for a in axes if -nd <= a < nd] or [0]
        # expected selection
        def cube_axis_of_pix(k):
            return nd - 1 - (k if mapping is None else mapping[k])
        if axes is None:
            exp_sel = list(range(ll.world_n_dim))
            args = ()
        elif axes == "string":
            # every unique-substring class: take one physical type and a unique substring of it
            cands = []
            for i, t in enumerate(ptypes):
                for sub in {t, t.split(":")[-1], t.split(".")[-1], t[-3:]}:
                    if sum(sub in t2 for t2 in ptypes) == 1:
                        cands.append((sub, i))
            # a string that matches several world axes (of different types, or the same type twice - two Time
            # extra coords are both "time") does not name a coordinate: it must be refused
            ambiguous = sorted({sub for t in ptypes for sub in {t, t.split(":")[-1], t.split(".")[0], t[:3], t[-2:]}
                                if sub and sum(sub in t2 for t2 in ptypes) >= 2})
            if ambiguous and case["wseed"] % 3 == 0:
                sub = ambiguous[case["wseed"] % len(ambiguous)]
                tags.append("ambiguous-string")
                method = cube.axis_world_coords_values if case["form"] == "values" else cube.axis_world_coords
                try:
                    r = method(sub, pixel_corners=case["corners"], wcs=None if which == "wcs" else getattr(cube, which))
                    fails.append(f"axes string {sub!r} matches {[t for t in ptypes if sub in t]} but was accepted and returned {len(r)} coordinate(s)")
                except ValueError:
                    pass
                except Exception as e:
                    fails.append(f"ambiguous axes string {sub!r} raised {type(e).__name__} instead of ValueError")
                res["nontrivial"] = repr(sorted(case.items(), key=str))
                raise StopIteration
            if not cands:
                return res
            picks = rng.sample(cands, min(len(cands), rng.randint(1, 2)))
            args = tuple(p[0] for p in picks)
            exp_sel = sorted({p[1] for p in picks})
        else:
            args = tuple(np.int64(a) for a in axes) if case["wseed"] % 4 == 0 else tuple(axes)      # numpy integers too
            want_axes = {a % nd for a in axes}
            exp_sel = [i for i in range(ll.world_n_dim)
                       if any(corr[i, k] and cube_axis_of_pix(k) in want_axes for k in range(ll.pixel_n_dim))]
        wcs_arg = None if which == "wcs" else getattr(cube, which)
        method = cube.axis_world_coords_values if case["form"] == "values" else cube.axis_world_coords
        try:
            out = method(*args, pixel_corners=case["corners"], wcs=wcs_arg)
        except Exception as e:
            res["impl"]["err"] = err_kind(e)
            mark = ""
            sel_types = [ptypes[i] for i in exp_sel]
            if "duplicate field name" in str(e) and len(set(sel_types)) < len(sel_types) and case["form"] == "values":
                mark = " [duplicate-physical-type]"
            fails.append(f"{case['form']} form with axes {args} wcs={which} raised {type(e).__name__}: {str(e)[:120]}{mark}")
            raise StopIteration
        full = full_grids(ll, shape, mapping, case["corners"])
        # truthfulness of the correlation matrix on the full grid + expected arrays per world axis
        expected = {}
        for i in range(ll.world_n_dim):
            dep_axes = sorted({cube_axis_of_pix(k) for k in range(ll.pixel_n_dim) if corr[i, k]})
            sl = tuple(slice(None) if a in dep_axes else 0 for a in range(nd))
            arr = full[i][sl]
            if not np.allclose(np.broadcast_to(np.expand_dims(arr, [a for a in range(nd) if a not in dep_axes]), full[i].shape),
                               full[i], rtol=1e-9, atol=1e-9, equal_nan=True):
                fails.append(f"world axis {i} varies along an axis its correlation-matrix row does not mark")
            expected[i] = (dep_axes, arr)
        if case["form"] == "values":
            got_list = list(out)[::-1]          # namedtuple is in reversed world order
            fields = list(out._fields)[::-1]
            if len(got_list) != len(exp_sel):
                fails.append(f"{len(got_list)} coordinates returned for axes {args}; the world axes correlated with them are {exp_sel}")
            else:
                obs = []
                for i, g, fname in zip(exp_sel, got_list, fields):
                    want = expected[i][1]
                    gv = np.asarray(g.value if hasattr(g, "value") else g, dtype=float)
                    if str(getattr(g, "unit", "")) != str(u.Unit(ll.world_axis_units[i])):
                        fails.append(f"world axis {i} returned in unit {getattr(g, 'unit', None)}, WCS says {ll.world_axis_units[i]}")
                    if gv.shape != want.shape:
                        fails.append(f"world axis {i} ({ptypes[i]}): array shape {gv.shape}, expected one entry per element along array axes "
                                     f"{expected[i][0]}: {want.shape}")
                    elif not (np.array_equal(gv, want, equal_nan=True) if exact else np.allclose(gv, want, rtol=1e-9, atol=1e-9, equal_nan=True)):
                        fails.append(f"world axis {i} ({ptypes[i]}): values differ from pixel_to_world_values at the element "
                                     f"{'corners' if case['corners'] else 'centres'}")
                    obs.append({"w": i, "shape": list(gv.shape), "flat": [None if np.isnan(x) else float(x) for x in gv.ravel()]})
                res["obs"] = {"sel": exp_sel if not fails else None, "arrays": obs}
        else:
            comps = list(ll.world_axis_object_components)
            names = []
            for c in comps:
                if c[0] not in names:
                    names.append(c[0])
            exp_objs = [k for k, nm in enumerate(names) if any(comps[i][0] == nm for i in exp_sel)]
            if len(out) != len(exp_objs):
                fails.append(f"{len(out)} objects returned for axes {args}, expected one per WCS object touching world axes {exp_sel}: {len(exp_objs)}")
            else:
                classes = ll.world_axis_object_classes
                for k, obj in zip(exp_objs, out):
                    cls = classes[names[k]][0]
                    if isinstance(cls, str):
                        continue
                    if not isinstance(obj, cls):
                        fails.append(f"object {k} is {type(obj).__name__}, the WCS declares {cls.__name__}")
                # numeric content against the full-grid evaluation (objects that span several world axes
                # broadcast every component over the union of the array axes of the object)
                if len(exp_objs) == len(names) and not fails:
                    try:
                        vals = high_level_objects_to_values(*out, low_level_wcs=ll)
                        for i, v in enumerate(vals):
                            v = np.asarray(v, dtype=float)
                            obj_world = [j for j in range(ll.world_n_dim) if comps[j][0] == comps[i][0]]
                            union = sorted(set().union(*[set(expected[j][0]) for j in obj_world]))
                            sl = tuple(slice(None) if a in union else 0 for a in range(nd))
                            want = full[i][sl]
                            if v.shape == want.shape and str(ll.world_axis_units[i]) == "deg":
                                v = want + ((v - want + 180.0) % 360.0 - 180.0)        # angles are compared modulo a turn
                            if v.shape != want.shape or not np.allclose(v, want, rtol=1e-8, atol=1e-8, equal_nan=True):
                                fails.append(f"high-level object for world axis {i}: shape {v.shape} / values disagree with the WCS on array axes {union} ({want.shape})")
                                break
                    except Exception as e:
                        fails.append(f"high-level objects cannot be converted back: {type(e).__name__}: {str(e)[:80]}")
            res["obs"] = None
        # model request: element probes per world axis
        probes = []
        for i in range(ll.world_n_dim):
            shp = expected[i][1].shape
            probes.append(C.all_indices(shp, 6, rng) if (i in exp_sel and len(shp) > 0) else ([[]] if i in exp_sel else []))
        res["model_req"] = {"op": "world_coords", "shape": list(shape), "corners": case["corners"], "mapping": mapping,
                            "wcs": {"pixDim": int(ll.pixel_n_dim), "worldDim": int(ll.world_n_dim), "corr": W.corr_matrix(ll), "shape": None},
                            "probes": probes, "axes": [int(a) for a in args] if (isinstance(case["axes"], list)) else None}
        res["probes"] = probes
        res["exp_axes"] = {i: expected[i][0] for i in expected}
        res["exp_shapes"] = {i: list(expected[i][1].shape) for i in expected}
        res["exp_vals"] = {i: [float(expected[i][1][tuple(p)]) if len(p) else float(expected[i][1]) for p in probes[i]] for i in expected}
        res["sel_impl"] = exp_sel if not fails else None
    except StopIteration:
        pass
    except Exception as e:
        import traceback
        fails.append(f"observing raised {type(e).__name__}: {str(e)[:160]}")
        res["trace"] = traceback.format_exc()[-900:]
    if fails:
        res["oracle"] = "; ".join(fails[:2])
    return res


def unfrac(t):
    return t[0] / t[1] if isinstance(t, list) else t


def compare(case, r, m):
    if r["impl"]["err"] or "probes" not in r:
        return None
    cube = build(case)
    ll, mapping = ll_and_mapping(cube, r.get("which", case["which"]))
    exact = case["fam"].startswith("probe")
    for i, wm in enumerate(m["world"]):
        if r["exp_axes"][i] != wm["axes"]:
            return f"world axis {i}: array axes {r['exp_axes'][i]} vs model {wm['axes']}"
        if r["exp_shapes"][i] != wm["shape"]:
            return f"world axis {i}: shape {r['exp_shapes'][i]} vs model {wm['shape']}"
        for p, want, term in zip(r["probes"][i], r["exp_vals"][i], wm["at"]):
            got = W.p2w(ll, [unfrac(t) for t in term["at"]])[term["w"]]
            if not W.close([want], [got], exact):
                return f"world axis {i} element {p}: implementation grid value {want} vs WCS at the model's pixel {term['at']}: {got}"
    if m.get("selection") is not None and r.get("sel_impl") is not None and isinstance(case["axes"], list):
        if "err" in m["selection"] if isinstance(m["selection"], dict) else False:
            return f"model refuses the axes ({m['selection']['err']})"
        if m["selection"] != r["sel_impl"]:
            return f"selected world axes: implementation {r['sel_impl']} vs model {m['selection']}"
    return None


def signature(case, failure):
    if failure.endswith("[duplicate-physical-type]") and ";" not in failure:
        return "values-form-duplicate-physical-type:ValueError"
    return "other:" + failure[:60]


def shrink(case):
    for simple in ({"pre": None}, {"corners": False}, {"form": "values"}, {"fam": "probe"}):
        if any(case.get(k) != v for k, v in simple.items()):
            yield {**case, **simple}
    if case["ecs"] and case["which"] == "wcs":
        yield {**case, "ecs": []}
