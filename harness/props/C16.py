"""C16 — rebin propagates uncertainties as the textbook combination of each block."""
import random, warnings
from fractions import Fraction
import numpy as np
import astropy.units as u
from astropy.nddata import StdDevUncertainty, VarianceUncertainty, UnknownUncertainty

import common as C
import wcsfam as W
from core import err_kind

ID = "C16"
MODEL_OP = "uncert"
RULE = ("cubes of 1-3 dims with divisor-rich shapes, StdDev / Variance / Unknown / absent uncertainties (small integer "
        "values), masks None / scalar / random / all-true, NaNs at any block position (first included), every divisor bin "
        "shape, operations sum / mean / nansum / nanmean / prod, both mask switches, plus a spy propagation function; "
        "closed-form oracle in squares. Non-trivial = propagation actually runs on a bin with >= 2 members; distinct = whole case")
TRUSTED = ["astropy NDUncertainty.propagate(np.add) adds variances (sampled on every case)"]
ASSUMPTIONS = ["comparison in variance form at rtol 1e-9", "a block with no contributing member has the empty root-sum-square, 0 (products: not compared)"]
OPS = {"sum": np.sum, "mean": np.mean, "nansum": np.nansum, "nanmean": np.nanmean, "prod": np.prod}
SHAPES = [[4], [6], [4, 6], [6, 4], [2, 6], [2, 6, 4], [4, 2, 3]]


def corpus():
    return C.read_corpus(ID)


def divisors(n):
    return [d for d in range(1, n + 1) if n % d == 0]


def generate(rng, tier):
    n = 900 if tier == "quick" else 100000
    for _ in range(n):
        shape = rng.choice(SHAPES)
        size = int(np.prod(shape))
        bins = [rng.choice(divisors(s)) for s in shape]
        if all(b == 1 for b in bins):
            bins[0] = divisors(shape[0])[-1]
        op = rng.choice(["sum", "mean", "nansum", "nanmean", "prod", "sum", "mean"])
        mk = rng.choice(["none", "none", "false", "true", "alltrue", "allfalse", "random", "random"])
        nans = []
        if rng.random() < (0.6 if op.startswith("nan") else 0.1):
            nans = [i for i in range(size) if rng.random() < 0.25]
            if rng.random() < 0.5 and 0 not in nans:
                nans.append(0)
            if rng.random() < 0.2:
                nans = list(range(size))          # every element NaN: nothing contributes anywhere
        yield {"shape": shape, "bins": bins, "op": op, "mask": mk,
               "bits": [rng.random() < 0.4 for _ in range(size)] if mk == "random" else None,
               "data": [rng.randint(1, 4) for _ in range(size)], "sig": [rng.randint(0, 3) for _ in range(size)],
               "nans": sorted(nans), "kind": rng.choice(["std", "std", "var", "var", "unknown", "absent"]),
               "ignores": rng.random() < 0.4, "spy": rng.random() < 0.12, "wseed": rng.randrange(10**6)}
    # systematic: one bin holding the whole of a larger array, lightly masked - more than 16 contributing members,
    # so that their number squared does not fit a narrow integer
    for i in range(24 if tier == "quick" else 400):
        shape = [[4, 6], [2, 6, 4], [6, 6], [4, 4, 2]][i % 4]
        size = int(np.prod(shape))
        yield {"shape": shape, "bins": list(shape), "op": ["mean", "nanmean", "sum", "nansum"][(i // 4) % 4], "mask": "random",
               "bits": [rng.random() < 0.15 for _ in range(size)],
               "data": [rng.randint(1, 4) for _ in range(size)], "sig": [rng.randint(0, 3) for _ in range(size)],
               "nans": [], "kind": ["var", "std"][(i // 2) % 2], "ignores": False, "spy": False, "wseed": rng.randrange(10**6)}


def build(case):
    from ndcube import NDCube
    shape = tuple(case["shape"])
    d = np.array(case["data"], dtype=float)
    for i in case["nans"]:
        d[i] = np.nan
    d = d.reshape(shape)
    sig = np.array(case["sig"], dtype=float).reshape(shape)
    mk = case["mask"]
    if mk == "none":
        mask = None
    elif mk in ("false", "true"):
        mask = mk == "true"
    elif mk == "alltrue":
        mask = np.ones(shape, dtype=bool)
    elif mk == "allfalse":
        mask = np.zeros(shape, dtype=bool)
    else:
        mask = np.array(case["bits"], dtype=bool).reshape(shape)
    k = case["kind"]
    unc = {"std": lambda: StdDevUncertainty(sig.copy()), "var": lambda: VarianceUncertainty(sig.copy() ** 2),
           "unknown": lambda: UnknownUncertainty(sig.copy()), "absent": lambda: None}[k]()
    wcs = W.make_wcs(random.Random(case["wseed"]), shape, "probe")
    if case["wseed"] % 3 == 0:
        # the cube's arrays are views into larger arrays (what slicing a bigger cube leaves behind): a cube
        # that does not own its memory must be left as untouched as one that does
        def view(a):
            return np.stack([np.zeros_like(a), a, np.zeros_like(a)])[1]
        data_in = view(d)
        mask_in = mask if mask is None or isinstance(mask, bool) else view(mask)
        if unc is not None:
            unc = type(unc)(view(unc.array), copy=False)
        return NDCube(data_in, wcs=wcs, uncertainty=unc, mask=mask_in), d, sig, mask
    return NDCube(d.copy(), wcs=wcs, uncertainty=unc, mask=mask if mask is None or isinstance(mask, bool) else mask.copy()), d, sig, mask


def blocks(arr, shape, bins):
    ns = tuple(s // b for s, b in zip(shape, bins))
    rs = [x for p in zip(ns, bins) for x in p]
    a = np.asarray(arr).reshape(rs)
    a = np.moveaxis(a, tuple(range(1, len(rs), 2)), tuple(range(len(shape))))
    return a.reshape((-1,) + ns)


def run(case):
    cube, d, sig, mask = build(case)
    shape, bins, op = tuple(case["shape"]), case["bins"], case["op"]
    tags = [f"ndim={len(shape)}", f"op={op}", f"mask={case['mask']}", f"kind={case['kind']}", f"ignores={case['ignores']}",
            "nan-first" if 0 in case["nans"] else ("nan" if case["nans"] else "no-nan"), f"spy={case['spy']}"]
    res = {"tags": tags, "oracle": None, "impl": {"err": None}}
    mjson = None if mask is None else (bool(mask) if isinstance(mask, bool) else [bool(x) for x in mask.ravel()])
    res["model_req"] = {"op": "uncert", "shape": list(shape), "binShape": bins, "operation": op,
                        "data": ["nan" if i in set(case["nans"]) else case["data"][i] for i in range(len(case["data"]))],
                        "variances": [s * s for s in case["sig"]], "mask": mjson, "ignoresMask": case["ignores"], "kind": case["kind"]}
    d0, u0 = cube.data.copy(), None if cube.uncertainty is None else cube.uncertainty.array.copy()
    m0 = None if mask is None or isinstance(mask, bool) else cube.mask.copy()
    spy_args = {}

    def spy(uncertainty, data, mask, **kw):
        spy_args["shapes"] = (tuple(uncertainty.array.shape), tuple(np.shape(data)), None if mask is None else tuple(np.shape(mask)))
        spy_args["u"] = np.array(uncertainty.array); spy_args["d"] = np.array(np.ma.getdata(data))
        spy_args["kw"] = sorted(kw)
        return type(uncertainty)(np.zeros(np.shape(data)[1:]))
    fails = []
    if len(shape) >= 2 and len(set(bins)) > 1 and case["wseed"] % 3 == 1:
        # another cube with the same rebinned shape and the same number of members per block, the bin shape split the
        # other way round over the axes, is rebinned first: one call must not depend on what an earlier one left behind
        from ndcube import NDCube
        rb = list(bins[::-1])
        dshape = tuple((s // b) * r for s, b, r in zip(shape, bins, rb))
        try:
            with warnings.catch_warnings():
                warnings.simplefilter("ignore")
                NDCube(np.ones(dshape), wcs=W.make_wcs(random.Random(3), dshape, "probe"),
                       uncertainty=StdDevUncertainty(np.ones(dshape))).rebin(tuple(rb), operation=np.sum, propagate_uncertainties=True)
            tags.append("after-another-geometry")
        except Exception:
            pass
    with warnings.catch_warnings(record=True) as wlist:
        warnings.simplefilter("always")
        try:
            # equivalent spellings of the default propagation: True, the default function itself, and / or the
            # propagation operation it would infer named explicitly (forwarded by rebin as a keyword)
            from ndcube.utils.cube import propagate_rebin_uncertainties
            spell = case["wseed"] % 4
            prop_arg = spy if case["spy"] else (propagate_rebin_uncertainties if spell in (2, 3) else True)
            pkw = {"propagation_operation": np.add} if (spell in (1, 3) and op != "prod" and not case["spy"]) else {}
            tags.append(f"spelling={spell}")
            out = cube.rebin(tuple(bins), operation=OPS[op], operation_ignores_mask=case["ignores"],
                             propagate_uncertainties=prop_arg, **pkw)
        except Exception as e:
            res["impl"]["err"] = err_kind(e)
            mark = ""
            if "read-only" in str(e) and op in ("nanmean", "nansum") and isinstance(mask, np.ndarray) and not case["ignores"]:
                # first members of every block masked -> numpy's nan-function is handed an empty masked selection
                lead = blocks(mask, shape, bins) | np.isnan(blocks(d, shape, bins))
                if any(lead[:k + 1].all() for k in range(lead.shape[0])):
                    mark = " [nanop-leading-members-all-masked]"
            res["oracle"] = f"rebin with propagate_uncertainties raised {type(e).__name__}: {str(e)[:120]}{mark}"
            return res
    msgs = " | ".join(str(w.message) for w in wlist)
    try:
        # source untouched
        if not np.array_equal(cube.data, d0, equal_nan=True) or (u0 is not None and not np.array_equal(cube.uncertainty.array, u0)) \
                or (m0 is not None and not np.array_equal(cube.mask, m0)):
            fails.append("the source cube's data / uncertainty / mask arrays were altered")
        # expected branch
        all_masked = (mask is True) or (isinstance(mask, np.ndarray) and mask.all())
        if case["kind"] == "absent":
            exp_tag = "warn-no-uncertainty"
        elif case["kind"] == "unknown":
            exp_tag = "warn-unknown"
        elif not case["ignores"] and all_masked:
            exp_tag = "warn-all-masked"
        else:
            exp_tag = "propagate"
        if exp_tag != "propagate":
            got_tag = exp_tag if (out.uncertainty is None and msgs) else ("propagate" if out.uncertainty is not None else "none-without-warning")
            key = {"warn-no-uncertainty": "no uncertainties", "warn-unknown": "no known way", "warn-all-masked": "all values are masked"}[exp_tag]
            if out.uncertainty is not None or key not in msgs:
                fails.append(f"expected no uncertainty with a warning ({exp_tag}); got uncertainty={out.uncertainty is not None}, warnings: {msgs[:100]}")
            res["obs"] = {"outcome": got_tag}
        else:
            ns = tuple(s // b for s, b in zip(shape, bins))
            nmem = int(np.prod(bins))
            if case["spy"]:
                exp_shape = (nmem,) + ns
                want_mask_shape = None if (mask is None or mask is False or case["ignores"]) else exp_shape
                if spy_args.get("shapes") != (exp_shape, exp_shape, want_mask_shape):
                    fails.append(f"custom propagation function received shapes {spy_args.get('shapes')}, expected members along axis 0: {exp_shape}")
                elif not np.array_equal(spy_args["d"], blocks(d, shape, bins), equal_nan=True) or \
                        not np.array_equal(spy_args["u"], blocks(cube.uncertainty.array, shape, bins)):
                    fails.append("custom propagation function did not receive the block members along the first axis")
                res["obs"] = {"outcome": "propagate", "flatShape": list(spy_args.get("shapes", [()])[0]), "spy": True}
            else:
                if out.uncertainty is None:
                    fails.append(f"uncertainty dropped (warnings: {msgs[:100]})")
                else:
                    if type(out.uncertainty) is not type(cube.uncertainty):
                        fails.append(f"uncertainty type changed to {type(out.uncertainty).__name__}")
                    got = np.asarray(out.uncertainty.array, dtype=float)
                    gotv = got ** 2 if case["kind"] == "std" else got
                    D, S2 = blocks(d, shape, bins), blocks(sig ** 2, shape, bins)
                    contrib = np.ones(D.shape, dtype=bool)
                    if isinstance(mask, np.ndarray) and not case["ignores"]:
                        contrib &= ~blocks(mask, shape, bins)
                    if op in ("nansum", "nanmean"):
                        contrib &= ~np.isnan(D)
                    n = contrib.sum(axis=0)
                    if op == "prod":
                        dd = np.where(contrib, D, 1.0)
                        P = dd.prod(axis=0)
                        v = P ** 2 * np.where(contrib, S2 / dd ** 2, 0).sum(axis=0)
                    else:
                        v = np.where(contrib, S2, 0).sum(axis=0)
                        if op in ("mean", "nanmean"):
                            v = v / np.clip(n, 1, None) ** 2
                    # a block with no contributing member has an empty sum of squares: 0 (products: undefined)
                    sel = (n > 0) & ~np.isnan(v) if op == "prod" else np.ones(n.shape, dtype=bool)
                    if gotv.shape != v.shape:
                        fails.append(f"uncertainty shape {gotv.shape} != {v.shape}")
                    elif not np.allclose(gotv[sel], v[sel], rtol=1e-9, atol=1e-12):
                        j = tuple(int(x[0]) for x in np.nonzero(sel & ~np.isclose(gotv, v, rtol=1e-9, atol=1e-12)))
                        fails.append(f"[{'prod' if op == 'prod' else 'add'}] output element {list(j)}: variance {gotv[j]:.6g}, "
                                     f"closed form over its {int(n[j])} contributing members {v[j]:.6g}")
                    res["obs"] = {"outcome": "propagate", "variances": [float(x) for x in gotv.ravel()],
                                  "defined": [bool(x) for x in sel.ravel()], "flatShape": [nmem] + list(ns)}
                    if nmem >= 2:
                        res["nontrivial"] = repr(sorted(case.items(), key=str))
    except Exception as e:
        import traceback
        fails.append(f"observing raised {type(e).__name__}: {str(e)[:160]}")
        res["trace"] = traceback.format_exc()[-800:]
    if fails:
        res["oracle"] = "; ".join(fails[:2])
    return res


def unfrac(t):
    return t[0] / t[1] if isinstance(t, list) else t


def compare(case, r, m):
    if r["impl"]["err"] or "obs" not in r:
        return None
    o = r["obs"]
    if o["outcome"] != m["outcome"]:
        return f"branch: implementation {o['outcome']} vs model {m['outcome']}"
    if "flatShape" in o and o["flatShape"] != m["flatShape"]:
        return f"flattened shape: implementation {o['flatShape']} vs model {m['flatShape']}"
    if "variances" in o and m["variances"]:
        for k, (g, ok, mv) in enumerate(zip(o["variances"], o["defined"], m["variances"])):
            if not ok or mv is None:
                continue
            if not np.isclose(g, unfrac(mv), rtol=1e-9, atol=1e-12):
                return f"variance of output {k}: implementation {g} vs model {unfrac(mv)}"
    return None


def signature(case, failure):
    if failure.startswith("[prod]") and ";" not in failure:
        return "prod:relative-error-combination"
    if failure.endswith("[nanop-leading-members-all-masked]"):
        return "nanop-leading-members-all-masked:ValueError"
    return "other:" + failure[:60]


def shrink(case):
    for simple in ({"spy": False}, {"nans": []}, {"mask": "none", "bits": None}, {"ignores": False}):
        if any(case.get(k) != v for k, v in simple.items()):
            yield {**case, **simple}
