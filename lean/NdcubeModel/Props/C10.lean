import NdcubeModel.Model.Arith

/-!
# C10 — arithmetic and unit conversion act on physical values, not on coordinates
-/

namespace Ndcube.C10
open Ndcube

@[simp] theorem bcast_length (v : List Rat) (n : Nat) : (bcast v n).length = n := by simp [bcast]

theorem bcast_get (v : List Rat) (n i : Nat) (h : i < n) : (bcast v n)[i]? = some (v.getD (i % v.length) 0) := by
  simp [bcast, List.getElem?_range h]

/-- **Sums act on physical values with unit conversion**: element `i` of `cube + q` is the cube's
element plus the operand's (broadcast) element converted to the cube's unit; in base units it is
the sum of the two physical values. -/
theorem add_quantity (c c' : ACube) (v : List Rat) (uq : UnitM) (h : c.add (.quantity v uq) = .ok c')
    (i : Nat) (x : Rat) (hx : c.data[i]? = some x) (hs : (cubeUnit c).scale ≠ 0) :
    uq.sameDim (cubeUnit c) = true ∧
    c'.data[i]? = some (x + v.getD (i % v.length) 0 * (uq.scale / (cubeUnit c).scale)) ∧
    (x + v.getD (i % v.length) 0 * (uq.scale / (cubeUnit c).scale)) * (cubeUnit c).scale
      = x * (cubeUnit c).scale + v.getD (i % v.length) 0 * uq.scale ∧
    c'.unit = c.unit ∧ c'.unc = c.unc ∧ c'.rest = c.rest := by
  simp only [ACube.add] at h
  split at h
  · next hd =>
    cases h
    have hi : i < c.data.length := (List.getElem?_eq_some_iff.mp hx).1
    refine ⟨hd, ?_, ?_, rfl, rfl, rfl⟩
    · simp only [zipOp, List.getElem?_zipWith, hx, bcast_get _ _ _ hi, List.getD, List.length_map]
      simp only [List.getElem?_map]
      cases hv : v[i % v.length]? <;> simp
    · grind
  · cases h

/-- **Refusals of sums**: incompatible units, a bare number or array added to a cube with a
(non-dimensionless) unit, and another cube / NDData. -/
theorem add_refusals (c : ACube) :
    (∀ v uq, uq.sameDim (cubeUnit c) = false → c.add (.quantity v uq) = .error .unitsError) ∧
    c.add .nddata = .error .typeError ∧ c.mul .nddata = .error .typeError ∧
    (∀ u x, c.unit = some u → (u.dimensionless && u.scale == 1) = false →
      c.add (.num x) = .error .typeError ∧ ∀ v, c.add (.arr v) = .error .typeError) := by
  refine ⟨?_, rfl, rfl, ?_⟩
  · intro v uq h; simp [ACube.add, h]
  · intro u x hu hd
    have : unitlessOK c = false := by simp [unitlessOK, hu, hd]
    simp [ACube.add, this]

/-- **Coordinates, mask and meta are the source's** for every operation; sums and negation leave
the uncertainty as it is. -/
theorem carried (c c' : ACube) (v : Operand) :
    (c.add v = .ok c' → c'.rest = c.rest ∧ c'.unc = c.unc ∧ c'.unit = c.unit) ∧
    (c.mul v = .ok c' → c'.rest = c.rest) ∧
    (c.neg.rest = c.rest ∧ c.neg.unc = c.unc ∧ c.neg.unit = c.unit) ∧
    (∀ u, c.to u = .ok c' → c'.rest = c.rest) := by
  refine ⟨?_, ?_, ⟨rfl, rfl, rfl⟩, ?_⟩
  · intro h
    cases v with
    | num x => simp only [ACube.add] at h; split at h <;> cases h; exact ⟨rfl, rfl, rfl⟩
    | arr w => simp only [ACube.add] at h; split at h <;> cases h; exact ⟨rfl, rfl, rfl⟩
    | quantity w uq => simp only [ACube.add] at h; split at h <;> cases h; exact ⟨rfl, rfl, rfl⟩
    | nddata => simp only [ACube.add] at h; cases h
  · intro h
    cases v <;> simp only [ACube.mul] at h <;> (try cases h) <;> rfl
  · intro u h
    simp only [ACube.to] at h
    split at h
    · cases h
    · split at h
      · cases h; rfl
      · cases h

/-- **Standard deviations scale by `|k|`** (variances by `k²`) under multiplication by a number. -/
theorem mul_num_unc (c c' : ACube) (k : Rat) (h : c.mul (.num k) = .ok c') (kind : UncKind) (a : List Rat)
    (hu : c.unc = some (kind, a)) (ha : a.length = c.data.length) (i : Nat) (s : Rat) (hs : a[i]? = some s) :
    ∃ a', c'.unc = some (kind, a') ∧ a'[i]? = some (s * uncFactor kind k) ∧
      (kind = .std → uncFactor kind k = if k < 0 then -k else k) ∧
      c'.data = c.data.map (· * k) ∧ c'.unit = c.unit := by
  simp only [ACube.mul] at h
  cases h
  have hi : i < a.length := (List.getElem?_eq_some_iff.mp hs).1
  refine ⟨zipOp (· * ·) a ((List.replicate c.data.length k).map (uncFactor kind)), by simp [scaleUnc, hu], ?_, ?_, rfl, rfl⟩
  · simp only [zipOp, List.getElem?_zipWith, hs, List.getElem?_map]
    rw [List.getElem?_replicate]
    simp [show i < c.data.length by omega]
  · intro hk; subst hk; rfl

/-- **Units multiply under products**: the result's unit is the product of the cube's unit
(dimensionless if it has none) and the operand's, the data the element-wise product. -/
theorem mul_quantity (c c' : ACube) (v : List Rat) (uq : UnitM) (h : c.mul (.quantity v uq) = .ok c')
    (i : Nat) (x : Rat) (hx : c.data[i]? = some x) :
    c'.unit = some ((cubeUnit c).mul uq) ∧ c'.data[i]? = some (x * v.getD (i % v.length) 0) ∧
    ((cubeUnit c).mul uq).scale = (cubeUnit c).scale * uq.scale := by
  simp only [ACube.mul] at h
  cases h
  have hi : i < c.data.length := (List.getElem?_eq_some_iff.mp hx).1
  refine ⟨rfl, ?_, rfl⟩
  simp [zipOp, List.getElem?_zipWith, hx, bcast_get _ _ _ hi]

theorem zip_add_sub (a b : List Rat) (h : b.length = a.length) :
    zipOp (· + ·) (zipOp (· + ·) a b) (b.map (- ·)) = a := by
  induction a generalizing b with
  | nil => cases b <;> simp [zipOp]
  | cons x xs ih =>
    cases b with
    | nil => simp at h
    | cons y ys =>
      simp only [zipOp, List.zipWith_cons_cons, List.map_cons, List.cons.injEq]
      exact ⟨by grind, ih ys (by simpa using h)⟩

theorem bcast_map (f : Rat → Rat) (hf : f 0 = 0) (v : List Rat) (n : Nat) :
    bcast (v.map f) n = (bcast v n).map f := by
  simp only [bcast, List.map_map, List.length_map]
  apply List.map_congr_left
  intro i _
  simp only [Function.comp, List.getD, List.getElem?_map]
  cases v[i % v.length]? <;> simp [hf]

/-- **(c + q) − q = c**, exactly, for every Quantity operand compatible with the cube. -/
theorem add_sub_cancel (c c' : ACube) (v : List Rat) (uq : UnitM) (h : c.add (.quantity v uq) = .ok c') :
    c'.sub (.quantity v uq) = .ok c := by
  simp only [ACube.add] at h
  split at h
  · next hd =>
    cases h
    simp only [ACube.sub, Operand.neg, ACube.add, cubeUnit] at hd ⊢
    simp only [cubeUnit, hd, if_true]
    congr 1
    have hlen : (zipOp (· + ·) c.data (bcast (v.map (· * (uq.scale / (c.unit.getD UnitM.one).scale))) c.data.length)).length = c.data.length := by
      simp [zipOp]
    rw [hlen]
    have hneg : (List.map (fun x => x * (uq.scale / (c.unit.getD UnitM.one).scale)) (List.map (fun x => -x) v))
        = (List.map (fun x => x * (uq.scale / (c.unit.getD UnitM.one).scale)) v).map (- ·) := by
      simp only [List.map_map]; apply List.map_congr_left; intro x _; simp only [Function.comp]; grind
    rw [hneg, bcast_map (- ·) (by grind), zip_add_sub _ _ (by simp)]
  · cases h

theorem map_mul_div (a : List Rat) (k : Rat) (hk : k ≠ 0) : (a.map (· * k)).map (· * (1 / k)) = a := by
  rw [List.map_map]
  conv => rhs; rw [← List.map_id a]
  apply List.map_congr_left
  intro x _
  simp only [Function.comp, id]
  grind

theorem inv_neg_of_neg (k : Rat) (h : k < 0) : (1 / k) < 0 := by
  by_cases hc : (1 / k) < 0
  · exact hc
  · have h3 : 0 ≤ 1 / k := by grind
    have h4 : 0 ≤ (-k) * (1 / k) := Rat.mul_nonneg (by grind) h3
    have h5 : k * (1 / k) = 1 := by grind
    grind

theorem inv_pos_of_pos (k : Rat) (h : 0 < k) : ¬ ((1 / k) < 0) := by
  intro hc
  have h4 : 0 ≤ k * (-(1 / k)) := Rat.mul_nonneg (by grind) (by grind)
  have h5 : k * (1 / k) = 1 := by grind
  grind

theorem uncFactor_inv (kind : UncKind) (k : Rat) (hk : k ≠ 0) : uncFactor kind k * uncFactor kind (1 / k) = 1 := by
  cases kind <;> simp only [uncFactor]
  · by_cases h : k < 0
    · rw [if_pos h, if_pos (inv_neg_of_neg k h)]; grind
    · have hpos : 0 < k := by grind
      rw [if_neg h, if_neg (inv_pos_of_pos k hpos)]; grind
  · grind
  · have : k * k ≠ 0 := by grind
    have : (1 / k) * (1 / k) ≠ 0 := by grind
    grind
  · grind

/-- **(c · k) / k = c** for every non-zero number `k`: data, unit and uncertainty (of any kind). -/
theorem mul_div_cancel (c c' : ACube) (k : Rat) (hk : k ≠ 0) (h : c.mul (.num k) = .ok c')
    (hunc : ∀ kind a, c.unc = some (kind, a) → a.length = c.data.length) :
    c'.div (.num k) = .ok c := by
  simp only [ACube.mul] at h
  cases h
  simp only [ACube.div, Operand.recip, ACube.mul, List.length_map]
  congr 1
  have hdata := map_mul_div c.data k hk
  cases hu : c.unc with
  | none =>
    cases c
    simp_all [scaleUnc]
  | some p =>
    obtain ⟨kind, a⟩ := p
    have hl := hunc kind a hu
    have hunc' : scaleUnc (scaleUnc (some (kind, a)) (List.replicate c.data.length k)) (List.replicate c.data.length (1 / k)) = some (kind, a) := by
      simp only [scaleUnc, Option.map_some, List.map_replicate]
      congr 2
      apply List.ext_getElem?
      intro i
      simp only [zipOp, List.getElem?_zipWith, List.getElem?_replicate]
      by_cases hi : i < c.data.length
      · have hi' : i < a.length := by omega
        simp only [hi, if_true, List.getElem?_eq_getElem hi', Option.map_some, Option.bind_some]
        congr 1
        have := uncFactor_inv kind k hk
        grind
      · have hi' : a.length ≤ i := by omega
        simp [hi, List.getElem?_eq_none hi']
    cases c
    simp_all

/-- **−(−c) = c** and **c · (−1) = −c** (uncertainties of a known kind are unchanged by both). -/
theorem neg_laws (c : ACube) :
    c.neg.neg = c ∧
    (∀ kind a, c.unc = some (kind, a) → kind ≠ .unknown → a.length = c.data.length →
      c.mul (.num (-1)) = .ok c.neg) ∧
    (c.unc = none → c.mul (.num (-1)) = .ok c.neg) := by
  refine ⟨?_, ?_, ?_⟩
  · have hmm : ∀ l : List Rat, (l.map (- ·)).map (- ·) = l := by
      intro l
      rw [List.map_map]
      have : ((fun x : Rat => -x) ∘ fun x => -x) = id := by funext x; simp only [Function.comp, id]; grind
      rw [this, List.map_id]
    cases c
    simp only [ACube.neg, hmm]
  · intro kind a hu hk hl
    simp only [ACube.mul, ACube.neg]
    congr 1
    have hdata : c.data.map (· * (-1)) = c.data.map (- ·) := by
      apply List.map_congr_left; intro x _; grind
    have hf : uncFactor kind (-1) = 1 := by
      cases kind <;> simp only [uncFactor]
      · rw [if_pos (by decide +kernel)]; grind
      · grind
      · grind
      · exact absurd rfl hk
    have hun : scaleUnc c.unc (List.replicate c.data.length (-1)) = c.unc := by
      rw [hu]
      simp only [scaleUnc, Option.map_some, List.map_replicate, hf]
      congr 2
      apply List.ext_getElem?
      intro i
      simp only [zipOp, List.getElem?_zipWith, List.getElem?_replicate]
      by_cases hi : i < c.data.length
      · have hi' : i < a.length := by omega
        simp only [hi, if_true, List.getElem?_eq_getElem hi', Option.map_some, Option.bind_some]
        congr 1; grind
      · have hi' : a.length ≤ i := by omega
        simp [hi, List.getElem?_eq_none hi']
    cases c
    simp_all
  · intro hu
    simp only [ACube.mul, ACube.neg]
    have hdata : c.data.map (· * (-1)) = c.data.map (- ·) := by
      apply List.map_congr_left; intro x _; grind
    cases c
    simp_all [scaleUnc]

/-- **`to(unit)` preserves every physical value** and converting back restores the data. -/
theorem to_preserves (c c' : ACube) (u new : UnitM) (hu : c.unit = some u) (h : c.to new = .ok c')
    (hn : new.scale ≠ 0) (i : Nat) (x : Rat) (hx : c.data[i]? = some x) :
    c'.unit = some new ∧ c'.data[i]? = some (x * (u.scale / new.scale)) ∧
    (x * (u.scale / new.scale)) * new.scale = x * u.scale := by
  simp only [ACube.to, hu] at h
  split at h
  · cases h
    refine ⟨rfl, by simp [hx], by grind⟩
  · cases h

/-! ## powers and `value / cube` -/

theorem rat_mul_pow (a b : Rat) (n : Nat) : (a * b) ^ n = a ^ n * b ^ n := by
  induction n with
  | zero => simp
  | succ n ih => rw [Rat.pow_succ, Rat.pow_succ, Rat.pow_succ, ih]; grind

theorem rat_mul_zpow (a b : Rat) (k : Int) : (a * b) ^ k = a ^ k * b ^ k := by
  cases k with
  | ofNat n => exact rat_mul_pow a b n
  | negSucc n =>
    rw [show Int.negSucc n = -((n + 1 : Nat) : Int) from rfl, Rat.zpow_neg, Rat.zpow_neg, Rat.zpow_neg,
      Rat.zpow_natCast, Rat.zpow_natCast, Rat.zpow_natCast, rat_mul_pow, Rat.inv_mul_rev, Rat.mul_comm]

theorem rat_one_zpow (k : Int) : (1 : Rat) ^ k = 1 := by
  have h1 : ∀ n : Nat, (1 : Rat) ^ n = 1 := by
    intro n; induction n with
    | zero => simp
    | succ n ih => rw [Rat.pow_succ, ih]; simp
  cases k with
  | ofNat n => exact h1 n
  | negSucc n =>
    rw [show Int.negSucc n = -((n + 1 : Nat) : Int) from rfl, Rat.zpow_neg, Rat.zpow_natCast, h1]
    exact Rat.inv_eq_of_mul_eq_one (Rat.mul_one 1)

/-- **Powers**: the physical values of `cube ** k` are the `k`-th powers of the cube's physical values
(the unit's scale is raised along with the data), for every integer `k`; where `k < 0` the real code
divides by the data, so the statement is about cubes without zeros there. -/
theorem pow_phys (c : ACube) (k : Int) (_hz : k < 0 → ∀ d ∈ c.data, d ≠ 0) :
    (c.pow k).phys = c.phys.map (· ^ k) := by
  simp only [ACube.phys, ACube.pow, cubeUnit, List.map_map]
  apply List.map_congr_left
  intro d _
  cases hu : c.unit with
  | none => simp [UnitM.one]
  | some u => simp [UnitM.pow, rat_mul_zpow]

/-- a power carries coordinates, mask and meta over and keeps the number of elements -/
theorem pow_carried (c : ACube) (k : Int) : (c.pow k).rest = c.rest ∧ (c.pow k).data.length = c.data.length := by
  simp [ACube.pow]

/-- **`number / cube`**: the physical values are the number divided by the cube's physical values, the
unit is the cube's unit to the power −1. -/
theorem rdiv_num_phys (c c' : ACube) (x : Rat) (h : c.rdiv (.num x) = .ok c') (_hz : ∀ d ∈ c.data, d ≠ 0) :
    c'.phys = c.phys.map (fun p => x / p) ∧ c'.unit = c.unit.map (·.pow (-1)) ∧ c'.rest = c.rest := by
  simp only [ACube.rdiv, ACube.mul, Except.ok.injEq] at h
  subst h
  refine ⟨?_, rfl, rfl⟩
  simp only [ACube.phys, ACube.pow, cubeUnit, List.map_map]
  apply List.map_congr_left
  intro d _
  cases hu : c.unit with
  | none =>
    simp only [Function.comp, Option.map_none, Option.getD_none, UnitM.one, Rat.mul_one, Rat.div_def]
    rw [show (-1 : Int) = -((1 : Nat) : Int) from rfl, Rat.zpow_neg, Rat.zpow_natCast, Rat.pow_one, Rat.mul_comm]
  | some u =>
    simp only [Function.comp, Option.map_some, Option.getD_some, UnitM.pow, Rat.div_def]
    rw [show (-1 : Int) = -((1 : Nat) : Int) from rfl, Rat.zpow_neg, Rat.zpow_neg, Rat.zpow_natCast, Rat.zpow_natCast,
      Rat.pow_one, Rat.pow_one, Rat.inv_mul_rev]
    grind

/-- **`Quantity / cube`**: element by element the operand's physical value divided by the cube's. -/
theorem rdiv_quantity_phys (c c' : ACube) (v : List Rat) (uq : UnitM) (h : c.rdiv (.quantity v uq) = .ok c')
    (_hz : ∀ d ∈ c.data, d ≠ 0) :
    c'.phys = zipOp (fun p q => q / p) c.phys ((bcast v c.data.length).map (· * uq.scale)) ∧ c'.rest = c.rest := by
  simp only [ACube.rdiv, ACube.mul, Except.ok.injEq] at h
  subst h
  refine ⟨?_, rfl⟩
  simp only [ACube.phys, ACube.pow, cubeUnit, zipOp, List.length_map, Option.getD_some, UnitM.mul,
    List.map_zipWith, List.zipWith_map_left, List.zipWith_map_right]
  congr 1
  funext d q
  have hinv : ∀ x : Rat, x ^ (-1 : Int) = x⁻¹ := by
    intro x
    rw [show (-1 : Int) = -((1 : Nat) : Int) from rfl, Rat.zpow_neg, Rat.zpow_natCast, Rat.pow_one]
  cases hu : c.unit with
  | none =>
    simp only [Option.map_none, Option.getD_none, UnitM.one, Rat.mul_one, Rat.one_mul, Rat.div_def, hinv]
    grind
  | some u =>
    simp only [Option.map_some, Option.getD_some, UnitM.pow, Rat.div_def, hinv, Rat.inv_mul_rev]
    grind

end Ndcube.C10
