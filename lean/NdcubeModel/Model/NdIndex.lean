import NdcubeModel.Model.Py

/-!
# numpy basic indexing of an N-d shape

`applyAxis n item` is what one sanitised, negative-normalised item does to one axis of
length `n`; `AxisRes.kept start len` keeps `len` elements starting at source position
`start`, `AxisRes.dropped i` removes the axis at source position `i`.

`srcIndex axes r` maps a multi-index `r` of the result to the multi-index of the source
element it is a view of (numpy semantics); `resultShape axes` is the result shape.
-/

namespace Ndcube

inductive AxisRes where
  | kept (start len : Nat)
  | dropped (idx : Nat)
deriving Repr, DecidableEq, Inhabited

def AxisRes.isKept : AxisRes → Bool
  | .kept _ _ => true
  | .dropped _ => false

/-- The raw start of a normalised slice (0 for `None`). -/
def optStart : Option Int → Nat
  | .none => 0
  | .some b => b.toNat

/-- One (already negative-normalised) item on one axis of length `n`.  The kept start is the
raw non-negative start (what `SlicedLowLevelWCS` adds to the pixel coordinate); when it is
beyond the end the length is 0. -/
def applyAxis (n : Nat) : Item → Except Err AxisRes
  | .int i =>
    if 0 ≤ i ∧ i < n then .ok (.dropped i.toNat) else .error .indexError
  | .slice s e _ =>
    let (lo, hi) := sliceBounds n s e
    .ok (.kept (optStart s) (hi - lo))
  | _ => .error .indexError

/-- Apply one item per axis. -/
def applyAxes : List Nat → List Item → Except Err (List AxisRes)
  | [], [] => .ok []
  | n :: ns, it :: its => do
    let a ← applyAxis n it
    let rest ← applyAxes ns its
    pure (a :: rest)
  | _, _ => .error .indexError

/-- `_normalize_negative_indices` over `zip(item, shape)`. -/
def normAxes : List Nat → List Item → Except Err (List Item)
  | n :: ns, it :: its => do
    let a ← normalizeNegative n it
    let rest ← normAxes ns its
    pure (a :: rest)
  | _, _ => .ok []

/-- `NDCubeSlicingMixin.__getitem__` drops an Ellipsis that stands for no axis at all (one entry
per axis plus a single Ellipsis) before handing the item to `sanitize_slices`. -/
def stripEmptyEllipsis (ndim : Nat) (items : List Item) : List Item :=
  if items.length = ndim + 1 ∧ countEllipsis items = 1 then items.filter (· != .ellipsis) else items

/-- The sanitised, negative-normalised items of `NDCube.__getitem__` (array order). -/
def normItems (shape : List Nat) (items : List Item) : Except Err (List Item) := do
  let its ← sanitize shape.length (stripEmptyEllipsis shape.length items)
  normAxes shape its

/-- Full pipeline of `NDCube.__getitem__` on the index: None check, `sanitize_slices`,
negative normalisation, per-axis application. -/
def indexShape (shape : List Nat) (items : List Item) : Except Err (List AxisRes) := do
  let its ← normItems shape items
  applyAxes shape its

def resultShape : List AxisRes → List Nat
  | [] => []
  | .kept _ len :: rs => len :: resultShape rs
  | .dropped _ :: rs => resultShape rs

/-- Source multi-index of result multi-index `r`. -/
def srcIndex : List AxisRes → List Nat → List Nat
  | [], _ => []
  | .dropped i :: rs, r => i :: srcIndex rs r
  | .kept s _ :: rs, x :: r => (s + x) :: srcIndex rs r
  | .kept s _ :: rs, [] => s :: srcIndex rs []

/-- `r` is a valid multi-index of `shape`. -/
def inShape : List Nat → List Nat → Prop
  | [], [] => True
  | n :: ns, x :: xs => x < n ∧ inShape ns xs
  | _, _ => False

instance : (shape r : List Nat) → Decidable (inShape shape r)
  | [], [] => isTrue trivial
  | n :: ns, x :: xs =>
    match Nat.decLt x n, instDecidableInShape ns xs with
    | isTrue h1, isTrue h2 => isTrue ⟨h1, h2⟩
    | isFalse h1, _ => isFalse fun h => h1 h.1
    | _, isFalse h2 => isFalse fun h => h2 h.2
  | [], _ :: _ => isFalse fun h => h
  | _ :: _, [] => isFalse fun h => h

/-- Source positions (counted from `k`) of the axes that survive, in result order: entry `j`
is the source axis that result axis `j` is a view of. -/
def keptFrom (k : Nat) : List AxisRes → List Nat
  | [] => []
  | a :: as => if a.isKept then k :: keptFrom (k + 1) as else keptFrom (k + 1) as

/-- Positions (in array order) of the axes that survive. -/
def keptAxes (axes : List AxisRes) : List Nat := keptFrom 0 axes

/-- Number of integer items. -/
def countInts (its : List Item) : Nat := (its.filter Item.isInt).length

def numDropped (axes : List AxisRes) : Nat := (axes.filter (fun a => !a.isKept)).length

end Ndcube
