"""C01 — index slicing keeps data and primary-WCS coordinates in lock-step."""
import random
import numpy as np
import astropy.units as u
from astropy.nddata import StdDevUncertainty

import common as C
import wcsfam as W
from core import err_kind

ID = "C01"
MODEL_OP = "getitem"
RULE = ("cubes of 1-4 dims (entries 1-5) x WCS family (exact probe: separable / coupled / extra world axis / fewer world than pixel axes; already-wrapped: celestial FITS with a pixel axis sliced away; "
        "FITS separable / celestial / rotated; gWCS tables) x payload x mask x uncertainty x items built per axis "
        "from ints in [-n-1,n], slices with bounds in [-n-2,n+2] or None, Ellipsis, short tuples, bare items, "
        "plus a malformed stream (None, too long, two Ellipsis, steps) and two-step chains; quick tier also "
        "enumerates every int/slice item of every 1-D shape n<=3 exhaustively. A case is non-trivial when the "
        "item is not all-slice(None); distinct = distinct (shape, family, items, chain) tuples")
TRUSTED = ["numpy basic indexing (reference for data/mask/uncertainty)", "astropy NDData slicing and SlicedLowLevelWCS (modelled, compared on every case)"]
ASSUMPTIONS = ["world values of real WCS families are compared with rtol/atol 1e-9; exact on ProbeWCS",
               "cubes built on a WCS whose array_shape matches the data (or is absent)"]
FAMILIES = ["probe", "probe_coupled", "probe_extra", "probe_drop", "fits_sep", "fits_cel", "fits_rot", "fits_sliced", "gwcs"]


def corpus():
    return C.read_corpus(ID)


# ---------------------------------------------------------------- generation
def gen_axis_item(rng, n):
    r = rng.random()
    if r < 0.3:
        return rng.randint(-n - 1, n)
    if r < 0.4:
        return C.sl()
    def b():
        return None if rng.random() < 0.25 else rng.randint(-n - 2, n + 2)
    return C.sl(b(), b())


def gen_items(rng, shape):
    nd = len(shape)
    items = [gen_axis_item(rng, n) for n in shape]
    r = rng.random()
    if r < 0.25 and nd >= 1:          # Ellipsis replacing a run of axes
        i = rng.randrange(nd + 1)
        j = rng.randint(i, nd)
        items = items[:i] + ["..."] + items[j:]
    elif r < 0.45:                     # short tuple
        items = items[:rng.randint(1, nd)]
    return items


def gen_malformed(rng, shape):
    nd = len(shape)
    items = [gen_axis_item(rng, n) for n in shape]
    k = rng.randrange(7)
    if k == 0:
        items[rng.randrange(nd)] = None
    elif k == 5:
        # None *inserted* (np.newaxis style): the tuple becomes longer than the cube has axes
        items.insert(rng.randint(0, nd), None)
    elif k == 6:
        items.insert(rng.randint(0, nd), None)
        if rng.random() < 0.5:
            items.append(None)
        else:
            items[rng.randrange(len(items))] = "..."
            if None not in items:
                items.append(None)
    elif k == 1:
        items = items + [0]
    elif k == 2:
        items = ["..."] + items[1:] + ["..."] if nd > 1 else ["...", "..."]
    elif k == 3:
        items[rng.randrange(nd)] = C.sl(None, None, 2)
    else:
        items = items[:nd - 1] + ["...", 0] if nd >= 1 else items  # Ellipsis + full length (numpy-valid)
        items = [gen_axis_item(rng, n) for n in shape] + ["..."]
    return items


def mk_case(rng, shape, items, chain=None, fam=None):
    return {"shape": list(shape), "fam": fam or rng.choice(FAMILIES), "wseed": rng.randrange(10**6),
            "with_shape": rng.random() < 0.85, "payload": "dask" if rng.random() < 0.15 else "numpy",
            "mask": rng.choice(["none", "none", "array", "scalar"]), "uncert": rng.random() < 0.5,
            "unit": rng.random() < 0.5, "items": items, "chain": chain,
            "bare": len(items) == 1 and rng.random() < 0.5}


def generate(rng, tier):
    n_random = 1200 if tier == "quick" else 100000
    # exhaustive 1-D part
    for n in ([1, 2, 3] if tier == "quick" else [1, 2, 3, 4]):
        bounds = [None] + list(range(-n - 2, n + 3))
        for i in range(-n - 1, n + 1):
            yield mk_case(rng, [n], [i], fam="probe")
        for a in bounds:
            for b in bounds:
                yield mk_case(rng, [n], [C.sl(a, b)], fam="probe")
    if tier == "thorough":
        for shape in [(2, 3), (3, 2), (2, 2)]:
            per_axis = []
            for n in shape:
                bounds = [None, -n - 1, -1, 0, 1, n, n + 1]
                per_axis.append(list(range(-n, n)) + [C.sl(a, b) for a in bounds for b in bounds])
            for a in per_axis[0]:
                for b in per_axis[1]:
                    yield mk_case(rng, shape, [a, b], fam=rng.choice(["probe_coupled", "fits_cel", "probe"]))
    # systematic: negative entries behind an Ellipsis (they land on axes beyond the number of entries given), and
    # second steps with negative bounds on a cube whose first step left an offset
    for shape in ([3, 4, 5], [2, 3, 4, 5]):
        for items in (["...", -1], ["...", -2, C.sl(-3, -1)], [0, "...", -1], ["...", C.sl(None, -1)], ["...", -1, -1],
                      [C.sl(1, None), "...", C.sl(-2, None)], ["...", C.sl(-4, -1), -2]):
            yield mk_case(rng, shape, items, fam=rng.choice(["probe", "probe_coupled", "fits_sep"]))
        nd = len(shape)
        for first in ([C.sl(1, 4)], [C.sl(), C.sl(1, None)], [C.sl(1, -1), C.sl(2, None)], [C.sl(None, -1), C.sl(1, 3)]):
            for second in ([C.sl(None, -1)], [C.sl(-2, -1)], [C.sl(), C.sl(None, -1)], [C.sl(0, -1), C.sl(-2, None)], [-1, C.sl(None, -1)]):
                yield mk_case(rng, shape, first + [C.sl()] * (nd - len(first)), chain=second, fam=rng.choice(["probe", "fits_sep"]))
    # systematic: narrow numpy integers on a long axis (first step), then a second range step on the result
    for shape in ([300], [300, 2]):
        for it, ch in ((-3, None), (C.sl(-100, None), None), (C.sl(250, None), [C.sl(10, None)]), (C.sl(200, 290), [C.sl(5, -5)]),
                       (C.sl(-120, -20), [C.sl(60, None)]), (127, None), (C.sl(100, 228), [C.sl(100, None)])):
            case = mk_case(rng, shape, [it] + [C.sl()] * (len(shape) - 1), chain=ch, fam="fits_sep")
            case["narrow"] = True
            yield case
    # systematic: bounds far beyond the axis (numpy clamps them, however large: sys.maxsize, 2**31, 2**40 ...)
    for shape in ([5], [3, 5], [2, 3, 4]):
        nd = len(shape)
        for big in (2 ** 31, 2 ** 40, 2 ** 63 - 1):
            for items in ([C.sl(1, big)], [C.sl(-big, 2)], [C.sl(), C.sl(2, big + 3)][:nd] if nd >= 2 else [C.sl(0, big)],
                          [C.sl(-big, big)] * nd):
                yield mk_case(rng, shape, list(items), fam=rng.choice(["probe", "fits_sep"]))
    for k in range(n_random):
        nd = rng.choice([1, 2, 2, 3, 3, 4])
        shape = [rng.randint(1, 5) for _ in range(nd)]
        r = rng.random()
        if r < 0.08:
            yield mk_case(rng, shape, gen_malformed(rng, shape))
        elif r < 0.25:
            items = gen_items(rng, shape)
            yield mk_case(rng, shape, items, chain="auto")
        else:
            yield mk_case(rng, shape, gen_items(rng, shape))


# ---------------------------------------------------------------- implementation + oracle
def build(case):
    from ndcube import NDCube
    rng = random.Random(case["wseed"])
    shape = tuple(case["shape"])
    wcs = W.make_wcs(rng, shape, case["fam"], case["with_shape"])
    data = C.payload(shape, 0, case["payload"])
    n = int(np.prod(shape))
    mask = None
    if case["mask"] == "array":
        mask = (np.arange(n).reshape(shape) % 3 == 0)
        if case["payload"] == "dask" and case["wseed"] % 2:
            import dask.array as da
            mask = da.from_array(mask, chunks=tuple(max(1, s_ // 2) for s_ in shape))     # a lazy mask next to lazy data
    elif case["mask"] == "scalar":
        # one value for the cube as a whole: the Python bool, or numpy's own (numpy.ma.nomask is numpy.False_)
        mask = False if case["wseed"] % 2 else np.ma.nomask
    unc = StdDevUncertainty(np.arange(n, dtype=float).reshape(shape) + 0.5) if case["uncert"] else None
    cube = NDCube(data, wcs=wcs, mask=mask, uncertainty=unc, unit=u.ct if case["unit"] else None, meta={"k": 1})
    return cube, wcs


def numpy_ref(arr, idx):
    try:
        return "ok", arr[idx]
    except IndexError:
        return "IndexError", None
    except Exception as e:  # pragma: no cover
        return type(e).__name__, None


def auto_chain(rng, shape):
    return gen_items(rng, list(shape))


from astropy import log as _log
_log.setLevel("ERROR")


def run(case):
    rng = random.Random(case["wseed"] + 1)
    cube, base = build(case)
    shape = tuple(case["shape"])
    items = case["items"]
    idx = C.to_py_index(items, case.get("bare", False), C.npint_of(case))
    if case.get("narrow"):
        # integers of the narrowest numpy type that holds them (int8 / uint8 / int16), on an axis longer than that
        # type's range: valid indices all the same
        def nar(x):
            if x is None or isinstance(x, type(Ellipsis)):
                return x
            x = int(x)
            return np.int8(x) if -128 <= x < 128 else (np.uint8(x) if 0 <= x < 256 else np.int16(x))
        idx = tuple(slice(nar(i.start), nar(i.stop), i.step) if isinstance(i, slice) else nar(i) for i in (idx if isinstance(idx, tuple) else (idx,)))
    ref = np.arange(int(np.prod(shape)), dtype=float).reshape(shape)
    tags = [f"ndim={len(shape)}", f"fam={case['fam']}", f"payload={case['payload']}", f"mask={case['mask']}",
            f"with_shape={case['with_shape']}"] + [f"item={C.item_kind(i)}" for i in items]
    res = {"tags": tags, "oracle": None}
    has_none = any(i is None for i in items)
    has_step = any(isinstance(i, dict) and i["s"][2] not in (None, 1) for i in items)
    declared_before = None if W.low_level(base).array_shape is None else tuple(W.low_level(base).array_shape)
    if case["wseed"] % 3 == 1:
        # a refused request first (an integer one past the end): it must leave the cube as it is
        try:
            cube[(shape[0],) + (slice(None),) * (len(shape) - 1)]
        except Exception:
            pass
    # first slice
    try:
        out = cube[idx]
        impl = {"err": None}
    except Exception as e:
        out, impl = None, {"err": err_kind(e), "msg": str(e)[:200]}
    # the WCS object the caller built the cube on still declares what the caller gave it (another cube may share it)
    declared_after = None if W.low_level(base).array_shape is None else tuple(W.low_level(base).array_shape)
    if declared_after != declared_before:
        res["impl"] = impl
        res["oracle"] = f"slicing changed the array shape declared by the caller's WCS object from {declared_before} to {declared_after}"
        return res
    nstatus, nref = ("IndexError", None) if has_none else numpy_ref(ref, idx)
    scalar = nstatus == "ok" and np.ndim(nref) == 0
    res["impl"] = impl
    res["nontrivial"] = None
    key = (tuple(shape), case["fam"], repr(items), repr(case.get("chain")))
    if any(not (isinstance(i, dict) and i["s"][0] is None and i["s"][1] is None) for i in items):
        res["nontrivial"] = repr(key)
    wcs_ll = W.low_level(base)
    model_req = {"op": "getitem", "shape": list(shape), "items": items,
                 "wcs": {"pixDim": wcs_ll.pixel_n_dim, "worldDim": wcs_ll.world_n_dim,
                         "corr": W.corr_matrix(wcs_ll),
                         "shape": list(shape) if wcs_ll.array_shape is not None else None},
                 "probes": []}
    tags.append("outcome=" + (impl["err"] or "ok"))
    if impl["err"]:
        res["model_req"] = model_req
        if has_none:
            if impl["err"] != "IndexError":
                res["oracle"] = f"None index raised {impl['err']} instead of IndexError"
        elif has_step:
            # stepped slices are outside the property's index space; the library refuses them
            if impl["err"] not in ("IndexError", "ValueError"):
                res["oracle"] = f"stepped slice raised {impl['err']}"
        elif nstatus != "ok":
            if impl["err"] not in ("IndexError", "ValueError"):
                res["oracle"] = f"numpy raises {nstatus}, cube raised {impl['err']}"
        elif scalar:
            if impl["err"] != "ValueError":
                res["oracle"] = f"scalar result refused with {impl['err']} (expected ValueError)"
        else:
            mark = " [ellipsis-full-length]" if ("..." in items and len(items) > len(shape) and impl["err"] == "ValueError") else ""
            res["oracle"] = f"valid index {items} refused with {impl['err']}: {impl.get('msg')}{mark}"
        return res
    if has_step:
        res["oracle"] = f"stepped slice {items} accepted (steps are not supported and must be refused, not ignored)"
        res["model_req"] = model_req
        return res
    if nstatus != "ok":
        res["oracle"] = f"numpy raises {nstatus} for {items} but the cube returned a result"
        res["model_req"] = model_req
        return res
    if scalar:
        res["oracle"] = "an index with an integer on every axis returned a cube"
        res["model_req"] = model_req
        return res
    # optional second slice (already-wrapped WCS family)
    chain_items = None
    if case.get("chain"):
        chain_items = case["chain"] if case["chain"] != "auto" else auto_chain(rng, nref.shape)
        case = dict(case); case["chain"] = chain_items
        idx2 = C.to_py_index(chain_items)
        n2status, nref2 = numpy_ref(nref, idx2)
        try:
            out2 = out[idx2]
            err2 = None
        except Exception as e:
            out2, err2 = None, err_kind(e)
        tags.append("chain=" + (err2 or "ok"))
        res["inter_shape"] = list(nref.shape)
        ill = out.wcs.low_level_wcs
        res["inter_wcs"] = {"pixDim": int(ill.pixel_n_dim), "worldDim": int(ill.world_n_dim), "corr": W.corr_matrix(ill),
                            "shape": None if ill.array_shape is None else [int(x) for x in ill.array_shape]}
        if n2status == "ok" and np.ndim(nref2) > 0:
            if err2:
                # numpy-valid Ellipsis placement that sanitize_slices refuses is reported separately below
                mark = " [ellipsis-full-length]" if ("..." in chain_items and len(chain_items) > np.ndim(nref) and err2 == "ValueError") else ""
                res["oracle"] = f"valid second index {chain_items} on the sliced cube refused with {err2}{mark}"
                res["chain_items"] = chain_items
                return res
            out, nref = out2, nref2
        else:
            if not err2:
                res["oracle"] = f"second index {chain_items}: numpy {n2status}/scalar but cube returned a result"
            res["chain_items"] = chain_items
            return res
    res["chain_items"] = chain_items
    try:
        return _observe(case, res, out, nref, idx, chain_items, shape, wcs_ll, model_req, rng)
    except Exception as e:
        import traceback
        res["oracle"] = f"observing the result of {items} raised {type(e).__name__}: {str(e)[:200]}"
        res["trace"] = traceback.format_exc()[-1200:]
        res["model_req"] = None
        return res


def _observe(case, res, out, nref, idx, chain_items, shape, wcs_ll, model_req, rng):
    # ---- oracle on the result
    fails = []
    data = C.materialize(out.data)
    if case["payload"] == "dask" and not hasattr(out.data, "compute"):
        fails.append("dask payload was computed by slicing")
    if data.shape != nref.shape or not np.array_equal(data, nref):
        fails.append(f"data differs from numpy indexing: shape {data.shape} vs {nref.shape}")
    n = int(np.prod(shape))
    def follow(a):
        a = a[idx]
        return a[C.to_py_index(chain_items)] if chain_items is not None else a
    if case["mask"] == "array":
        m = follow(np.arange(n).reshape(shape) % 3 == 0)
        if out.mask is None or not np.array_equal(np.asarray(out.mask), m):
            fails.append("mask differs from numpy indexing of the mask")
    elif case["mask"] == "scalar":
        if out.mask is not (False if case["wseed"] % 2 else np.ma.nomask):
            fails.append(f"scalar mask not kept: {out.mask!r}")
    elif out.mask is not None:
        fails.append("mask appeared")
    if case["uncert"]:
        uref = follow(np.arange(n, dtype=float).reshape(shape) + 0.5)
        if out.uncertainty is None or not np.array_equal(np.asarray(out.uncertainty.array), uref):
            fails.append("uncertainty differs from numpy indexing of the uncertainty")
    elif out.uncertainty is not None:
        fails.append("uncertainty appeared")
    if (out.unit is not None) != case["unit"]:
        fails.append("unit changed")
    sll = out.wcs.low_level_wcs
    if sll.pixel_n_dim != data.ndim:
        fails.append(f"sliced wcs pixel_n_dim {sll.pixel_n_dim} != data.ndim {data.ndim}")
    ashape = sll.array_shape
    if ashape is None or tuple(ashape) != tuple(data.shape):
        fails.append(f"array_shape {ashape} != data shape {tuple(data.shape)}" +
                     (" [wcs-without-array_shape]" if wcs_ll.array_shape is None else ""))
    # world coordinates at the surviving elements
    probes = C.all_indices(data.shape, 40, rng)
    names = list(wcs_ll.world_axis_names)
    snames = list(sll.world_axis_names)
    keep = [names.index(nm) for nm in snames] if len(set(names)) == len(names) and all(nm in names for nm in snames) else None
    if keep is None:
        fails.append(f"sliced world axis names {snames} are not a selection of {names}")
    exact = case["fam"].startswith("probe")
    srcs, worlds = [], []
    _, src_all = C.decode(data, shape)
    for r in probes:
        src = [int(a[tuple(r)]) for a in src_all]
        srcs.append(src)
        wv = W.p2w(sll, r[::-1])
        worlds.append(wv)
        if keep is not None:
            bv = W.p2w(wcs_ll, src[::-1])
            want = [bv[i] for i in keep]
            if not W.close(wv, want, exact):
                fails.append(f"element {r} (source {src}) reports world {wv}, source cube says {want}")
                break
    # a world axis that is not kept must not depend on a kept pixel axis
    if keep is not None and chain_items is None:
        corr = np.asarray(wcs_ll.axis_correlation_matrix)
        pyidx = idx if isinstance(idx, tuple) else (idx,)
    if fails:
        res["oracle"] = "; ".join(fails[:3])
    res["obs"] = {"shape": list(data.shape), "pixDim": int(sll.pixel_n_dim), "worldDim": int(sll.world_n_dim),
                  "arrayShape": None if ashape is None else [int(x) for x in ashape],
                  "probes": probes, "src": srcs, "world": worlds, "keep": keep,
                  "corr": W.corr_matrix(sll)}
    if chain_items is None:
        model_req["probes"] = probes
        res["model_req"] = model_req
    else:
        # the first step is re-checked without probes; the second step is a fresh request whose base
        # WCS is the (already sliced) WCS of the intermediate cube
        res["model_req"] = None
        res["extra_reqs"] = [{"op": "getitem", "shape": res["inter_shape"], "items": chain_items,
                              "wcs": res["inter_wcs"], "probes": probes}]
    return res


def compare(case, r, m):
    impl = r["impl"]
    if impl["err"]:
        if "err" not in m:
            return f"implementation raised {impl['err']}, model returns a result"
        if m["err"] != impl["err"]:
            return f"implementation raised {impl['err']}, model says {m['err']}"
        return None
    if "err" in m:
        if "obs" not in r:
            return None  # oracle-level refusal already classified
        return f"implementation returned a result, model says {m['err']}"
    if "obs" not in r:
        return None
    o = r["obs"]
    for k in ("shape", "pixDim", "worldDim", "arrayShape", "corr"):
        if o[k] != m[k]:
            return f"{k}: implementation {o[k]} vs model {m[k]}"
    if o["src"] != m["src"]:
        return f"source indices differ: implementation {o['src'][:3]} vs model {m['src'][:3]}"
    # evaluate the model's symbolic world terms on the real base WCS
    cube, base = build(case)
    exact = case["fam"].startswith("probe")
    for rr, wv, terms in zip(o["probes"], o["world"], m["world"]):
        want = [W.p2w(base, [t[0] / t[1] if isinstance(t, list) else t for t in term["at"]])[term["w"]] for term in terms]
        if not W.close(wv, want, exact):
            return f"world at {rr}: implementation {wv} vs model term value {want}"
    return None


def compare_extra(case, r, k, m):
    """Second slice of a chain, relative to the intermediate cube (its WCS is a SlicedLowLevelWCS)."""
    if "err" in m:
        return f"second step: implementation returned a result, model says {m['err']}"
    o = r["obs"]
    for key in ("shape", "pixDim", "worldDim", "arrayShape", "corr"):
        if o[key] != m[key]:
            return f"second step {key}: implementation {o[key]} vs model {m[key]}"
    cube, base = build(case)
    inter = cube[C.to_py_index(case["items"], case.get("bare", False), C.npint_of(case))]
    ishape = tuple(r["inter_shape"])
    # source indices of the model are relative to the intermediate cube
    _, src_inter = C.decode(C.materialize(inter.data), tuple(case["shape"]))
    exact = case["fam"].startswith("probe")
    for rr, src, wv, msrc, terms in zip(o["probes"], o["src"], o["world"], m["src"], m["world"]):
        got = [int(a[tuple(msrc)]) for a in src_inter]
        if got != src:
            return f"second step: element {rr} comes from {src}, model says intermediate element {msrc} = {got}"
        want = [W.p2w(inter.wcs, [t[0] / t[1] if isinstance(t, list) else t for t in term["at"]])[term["w"]] for term in terms]
        if not W.close(wv, want, exact):
            return f"second step: world at {rr}: implementation {wv} vs model term value {want}"
    return None


def signature(case, failure):
    if failure.endswith("[wcs-without-array_shape]") and ";" not in failure:
        return "wcs-without-array_shape:sliced-array_shape-None"
    if failure.endswith("[ellipsis-full-length]"):
        return "ellipsis-in-full-length-index:ValueError"
    return "other:" + failure[:60]


def shrink(case):
    shape, items = case["shape"], case["items"]
    for simple in ({"payload": "numpy"}, {"mask": "none"}, {"uncert": False}, {"unit": False}, {"chain": None}, {"fam": "probe"}):
        if any(case.get(k) != v for k, v in simple.items()):
            yield {**case, **simple}
    if "..." not in items and len(items) == len(shape):
        for ax in range(len(shape)):
            if len(shape) > 1 and isinstance(items[ax], dict):
                yield {**case, "shape": shape[:ax] + shape[ax + 1:], "items": items[:ax] + items[ax + 1:]}
            if shape[ax] > 1:
                yield {**case, "shape": shape[:ax] + [shape[ax] - 1] + shape[ax + 1:]}
            if items[ax] != C.sl():
                yield {**case, "items": items[:ax] + [C.sl()] + items[ax + 1:]}
