import NdcubeModel.Model.Wcs

/-!
# ExtraCoords (lookup-table form) and GlobalCoords bookkeeping

Mirrors `ExtraCoords._getitem_lookup_tables`, `ExtraCoords.mapping`, the dropped-table
bookkeeping, and `GlobalCoords.add / remove / _all_coords` (after the `fix:` commits).
A lookup table is identified by `id`; its contents are sliced by numpy (C01's per-axis spec).
-/

namespace Ndcube

structure Lut where
  axes : List Nat        -- array axes of the cube, one per table dimension
  id   : Nat
  /-- separable tables (`QuantityTableCoordinate` of several 1-D tables): which original
  component sits on each entry of `axes`; coupled tables (SkyCoord) carry all components -/
  comps : List Nat := []
  sep  : Bool := false
deriving Repr, DecidableEq

structure ExtraCoordsM where
  luts : List Lut          -- `_lookup_tables`, in order
  dropped : List Nat       -- ids of `_dropped_tables`, in order
  /-- components of separable tables turned scalar while the table as a whole survives
  (`QuantityTableCoordinate._dropped_world_dimensions`): (table id, component) -/
  droppedComps : List (Nat × Nat) := []
deriving Repr

/-- `np.cumsum([isinstance(i, Integral) for i in item])[ax]` -/
def nDroppedUpTo (items : List Item) (ax : Nat) : Nat := countInts (items.take (ax + 1))

/-- the slice handed to one table and the array axes it keeps -/
def lutSlice (items : List Item) (l : Lut) : List Item := l.axes.map fun ax => items.getD ax Item.all

def lutNewAxes (items : List Item) (l : Lut) : List Nat :=
  (l.axes.filter fun ax => !(items.getD ax Item.all).isInt).map fun ax => ax - nDroppedUpTo items ax

/-- a table becomes scalar (is dropped) when every one of its axes is indexed by an integer -/
def lutIsDropped (items : List Item) (l : Lut) : Bool := (lutSlice items l).all Item.isInt

/-- components that stay with a surviving table -/
def lutNewComps (items : List Item) (l : Lut) : List Nat :=
  ((l.axes.zip l.comps).filter fun p => !(items.getD p.1 Item.all).isInt).map (·.2)

/-- components of a surviving separable table that turned scalar -/
def lutLostComps (items : List Item) (l : Lut) : List (Nat × Nat) :=
  if l.sep && !lutIsDropped items l then
    ((l.axes.zip l.comps).filter fun p => (items.getD p.1 Item.all).isInt).map fun p => (l.id, p.2)
  else []

/-- `ExtraCoords.__getitem__` for lookup tables; `items` has one entry per cube axis. -/
def ExtraCoordsM.getitem (ec : ExtraCoordsM) (items : List Item) : ExtraCoordsM :=
  if ec.luts = [] then ec else
  { luts := (ec.luts.filter fun l => !lutIsDropped items l).map fun l =>
      { l with axes := lutNewAxes items l, comps := lutNewComps items l }
    dropped := ec.dropped ++ (ec.luts.filter fun l => lutIsDropped items l).map (·.id)
    droppedComps := ec.droppedComps ++ ec.luts.flatMap (lutLostComps items) }

/-- `ExtraCoords.mapping`: cube pixel axis of each pixel axis of the extra-coords WCS -/
def ExtraCoordsM.mapping (ec : ExtraCoordsM) (ndim : Nat) : List Nat :=
  ec.luts.flatMap fun l => l.axes.map fun ax => ndim - 1 - ax

/-! ## GlobalCoords -/

structure GlobalCoordsM where
  internal : List (String × String)      -- name ↦ physical type (values travel with the name)
deriving Repr

def GlobalCoordsM.add (g : GlobalCoordsM) (name ptype : String) (validType : String → Bool) :
    Except Err GlobalCoordsM :=
  if g.internal.any (·.1 == name) then .error .valueError
  else if !validType ptype then .error .valueError
  else .ok { internal := g.internal ++ [(name, ptype)] }

def GlobalCoordsM.remove (g : GlobalCoordsM) (name : String) : Except Err GlobalCoordsM :=
  if g.internal.any (·.1 == name) then .ok { internal := g.internal.filter (·.1 != name) }
  else .error .keyError

/-- `_all_coords`: internal ∪ WCS-dropped ∪ extra-coords-dropped, later sources override -/
def allCoords (internal wcsDropped ecDropped : List (String × String)) : List (String × String) :=
  let upd (acc : List (String × String)) (p : String × String) : List (String × String) :=
    if acc.any (·.1 == p.1) then acc.map fun q => if q.1 == p.1 then p else q else acc ++ [p]
  (wcsDropped ++ ecDropped).foldl upd internal

end Ndcube
