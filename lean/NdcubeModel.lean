-- Root of the `NdcubeModel` library.
import NdcubeModel.Model.Py
import NdcubeModel.Model.NdIndex
import NdcubeModel.Model.Wcs
import NdcubeModel.Model.Cube
import NdcubeModel.Lemmas.Index
import NdcubeModel.Props.C01
import NdcubeModel.Witness.C01
import NdcubeModel.Model.Sequence
import NdcubeModel.Lemmas.Seq
import NdcubeModel.Props.C11
import NdcubeModel.Props.C12
import NdcubeModel.Witness.C11
import NdcubeModel.Witness.C12
import NdcubeModel.Driver
