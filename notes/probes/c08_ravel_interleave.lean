import Mathlib.Tactic.Ring
/-! scratch (design round): the reshape trick of `NDCube.rebin` is right in any number of axes -/

def prod : List Nat → Nat
  | [] => 1
  | x :: xs => x * prod xs

def ravel : List Nat → List Nat → Nat
  | _ :: ss, i :: is => i * prod ss + ravel ss is
  | _, _ => 0

def interleave : List Nat → List Nat → List Nat
  | a :: as, b :: bs => a :: b :: interleave as bs
  | _, _ => []

def zipMulAdd : List Nat → List Nat → List Nat → List Nat   -- j*f + k
  | j :: js, f :: fs, k :: ks => (j * f + k) :: zipMulAdd js fs ks
  | _, _, _ => []

def zipMul : List Nat → List Nat → List Nat
  | a :: as, b :: bs => (a * b) :: zipMul as bs
  | _, _ => []

theorem prod_interleave (ns fs : List Nat) (h : ns.length = fs.length) :
    prod (interleave ns fs) = prod (zipMul ns fs) := by
  induction ns generalizing fs with
  | nil => cases fs <;> simp [interleave, zipMul, prod]
  | cons n ns ih =>
    cases fs with
    | nil => simp at h
    | cons f fs =>
      simp only [interleave, zipMul, prod]
      rw [ih fs (by simpa using h)]; ring

theorem ravel_interleave (ns fs js ks : List Nat)
    (h1 : ns.length = fs.length) (h2 : js.length = ns.length) (h3 : ks.length = ns.length) :
    ravel (interleave ns fs) (interleave js ks) = ravel (zipMul ns fs) (zipMulAdd js fs ks) := by
  induction ns generalizing fs js ks with
  | nil => cases fs <;> cases js <;> cases ks <;> simp_all [interleave, zipMul, zipMulAdd, ravel]
  | cons n ns ih =>
    cases fs with
    | nil => simp at h1
    | cons f fs =>
      cases js with
      | nil => simp at h2
      | cons j js =>
        cases ks with
        | nil => simp at h3
        | cons k ks =>
          simp only [interleave, zipMul, zipMulAdd, ravel, prod]
          rw [ih fs js ks (by simpa using h1) (by simpa using h2) (by simpa using h3),
              prod_interleave ns fs (by simpa using h1)]
          ring
#print axioms ravel_interleave
