from common import *
from ndcube.wcs.tools import unwrap_wcs_to_fitswcs
from ndcube.wcs.wrappers import ResampledLowLevelWCS
from astropy.wcs.wcsapi import SlicedLowLevelWCS
def chk(chain, f, dropped, shape):
    idx = np.indices(shape)[::-1].astype(float)
    a = chain.pixel_to_world_values(*idx)
    # pad dropped (array order) -> wcs order
    dpix = dropped[::-1]
    full=[]; k=0
    for d in dpix:
        if d: full.append(np.zeros(shape))
        else: full.append(idx[k]); k+=1
    b = f.pixel_to_world_values(*full)
    if not isinstance(a,(tuple,list)): a=[a]
    # chain world axes may be fewer; compare matching by value loosely
    return [bool(np.allclose(x,y)) for x,y in zip(a, [b[i] for i in range(len(b))][:len(a)])]
w = wlin(3,(4,6,8))
r = ResampledLowLevelWCS(w.deepcopy(), [2,3,2])
f,d = unwrap_wcs_to_fitswcs(r)
print("resample only:", chk(r,f,d,(2,2,4)), f.array_shape)
w2 = w.deepcopy()
s = SlicedLowLevelWCS(w2, (slice(1,3), slice(None), slice(2,6)))
f,d = unwrap_wcs_to_fitswcs(s)
print("slice only:", chk(s,f,d,(2,6,4)), f.array_shape, d)
w3 = w.deepcopy()
s = SlicedLowLevelWCS(w3, (slice(0,4), slice(None), slice(2,6)))
r = ResampledLowLevelWCS(s, [2,3,2], [0.5,1,0.5])
f,d = unwrap_wcs_to_fitswcs(r)
print("slice+resample(offset):", chk(r,f,d,(2,2,2)), f.array_shape, d)
w4 = w.deepcopy()
s = SlicedLowLevelWCS(w4, (1, slice(None), slice(2,6)))
f,d = unwrap_wcs_to_fitswcs(s)
print("int slice:", f.array_shape, d, s.world_axis_physical_types, f.wcs.crpix)
w5 = w.deepcopy()
tryit("neg slice", lambda: unwrap_wcs_to_fitswcs(SlicedLowLevelWCS(w5, (slice(-3,None), slice(None), slice(None))))[0].wcs.crpix)
