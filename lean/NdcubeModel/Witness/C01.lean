import NdcubeModel.Props.C01

/-! Non-vacuity of the C01 theorems: a concrete cube and items for which `getitem` succeeds
(so the hypotheses `c.getitem items = .ok c'` are satisfiable on non-trivial inputs). -/

namespace Ndcube.C01.Witness
open Ndcube

def w2 : LLWcs Rat :=
  { pixDim := 2, worldDim := 2, p2w := fun q => q, w2p := fun v => v,
    corr := [[true, false], [false, true]], shape := some [3, 4] }

def cube : Cube Nat Rat :=
  { shape := [3, 4], data := fun r => r.foldl (fun a x => 10 * a + x) 0, mask := .absent,
    uncert := none, wcs := w2, metaId := 0 }

def shapeOf (r : Except Err (Cube Nat Rat)) : Option (List Nat) :=
  match r with
  | .ok c => some c.shape
  | .error _ => none

example : shapeOf (cube.getitem [.slice (some (-2)) none none, .int (-1)]) = some [2] := by decide
example : shapeOf (cube.getitem [.ellipsis, .slice (some 1) (some 9) none]) = some [3, 3] := by decide
example : shapeOf (cube.getitem [.int 0, .int 0]) = none := by decide
def probe (r : Except Err (Cube Nat Rat)) : Option (Nat × List Rat) :=
  match r with
  | .ok c => some (c.data [1], c.wcs.p2w [1])
  | .error _ => none

example : probe (cube.getitem [.slice (some (-2)) none none, .int (-1)]) = some (23, [2]) := by
  decide +kernel

end Ndcube.C01.Witness
