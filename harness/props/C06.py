"""C06 — combined_wcs and array_axis_physical_types truthfully describe the cube."""
import random
from fractions import Fraction
import numpy as np
import astropy.units as u
from astropy.time import Time
from astropy.coordinates import SkyCoord

import common as C
import wcsfam as W
from core import err_kind

ID = "C06"
MODEL_OP = "compound (combined_wcs)"
RULE = ("cubes of 1-4 dims over probe / FITS / gWCS primaries with 0-4 extra coords in any axis assignment (several on "
        "one axis, 2-axis Quantity tables, meshed 2-axis SkyCoord tables, Quantity / Time / 1-D SkyCoord), before and after slicing and rebinning; "
        "pixel positions on and between grid points; finite-difference dependence of every world output on every array "
        "axis. Non-trivial = at least one extra coord; distinct = whole case")
TRUSTED = ["the separate descriptions (cube.wcs, cube.extra_coords.wcs) evaluated directly are the reference"]
ASSUMPTIONS = ["lookup tables are strictly monotonic so that every marked dependence is witnessed by a finite difference",
               "round trips compared at atol 1e-6 pixels"]


def corpus():
    return C.read_corpus(ID)


def generate(rng, tier):
    n = 500 if tier == "quick" else 8000
    for _ in range(n):
        nd = rng.choice([1, 2, 2, 3, 3, 4])
        shape = [rng.choice([3, 4, 5]) for _ in range(nd)]
        ecs = []
        for _ in range(rng.choice([0, 1, 1, 2, 3, 4])):
            kind = rng.choice(["quantity", "quantity", "time", "sky", "quantity2", "skymesh"])
            if kind in ("quantity2", "skymesh") and nd < 2:
                kind = "quantity"
            ax = rng.randrange(nd) if kind not in ("quantity2", "skymesh") else sorted(rng.sample(range(nd), 2))
            ecs.append({"axis": ax, "kind": kind})
        for e in ecs * 2:                                  # the two components of a meshed SkyCoord table have equal lengths
            if e["kind"] == "skymesh":
                shape[e["axis"][1]] = shape[e["axis"][0]]
        for e in ecs:
            if e["kind"] == "skymesh" and shape[e["axis"][1]] != shape[e["axis"][0]]:
                e["kind"] = "quantity2"
        yield {"shape": shape, "fam": rng.choice(["probe", "probe_coupled", "fits_sep", "fits_cel", "fits_rot", "gwcs"]),
               "wseed": rng.randrange(10**6), "ecs": ecs, "pre": rng.choice([None, None, "slice", "rebin"])}


def build(case):
    from ndcube import NDCube
    rng = random.Random(case["wseed"])
    shape = tuple(case["shape"])
    wcs = W.make_wcs(rng, shape, case["fam"], True)
    if case["wseed"] % 4 == 1:
        # a primary WCS that declares pixel bounds (the optional APE-14 attribute; a gWCS with a bounding box does)
        # next to extra coordinates that declare none
        pb = [(-0.5, n - 0.5) for n in shape[::-1]]
        if isinstance(wcs, W.ProbeWCS):
            wcs._bounds = pb        # (on the exact probe family only: astropy's FITS WCS changes its own world_to_pixel
                                    #  behaviour at the bounds, which is not what is examined here)
    cube = None
    if case["wseed"] % 7 == 3:
        # (one cube in seven is reached by slicing a larger one by ranges: see common.via_slicing)
        cube = C.via_slicing(C.payload(tuple(shape), 0), wcs, case["wseed"])
    if cube is None:
        cube = NDCube(C.payload(shape, 0), wcs=wcs)
    for k, ec in enumerate(case["ecs"]):
        if ec["kind"] == "quantity2":
            a0, a1 = ec["axis"]
            t0 = (np.arange(shape[a0], dtype=float) * 2 + 100 * k) * u.m
            t1 = (np.arange(shape[a1], dtype=float) ** 2 + 7 * k) * u.m
            from ndcube.extra_coords.table_coord import QuantityTableCoordinate
            if (case["wseed"] + k) % 2:
                # the same coordinates spelled the other way round: axes given in descending order, tables to match
                cube.extra_coords.add((f"qb{k}", f"qa{k}"), (a1, a0),
                                      QuantityTableCoordinate(t1, t0, names=(f"qb{k}", f"qa{k}"), physical_types=(f"custom:qb{k}", f"custom:qa{k}")))
                continue
            cube.extra_coords.add((f"qa{k}", f"qb{k}"), (a0, a1),
                                  QuantityTableCoordinate(t0, t1, names=(f"qa{k}", f"qb{k}"), physical_types=(f"custom:qa{k}", f"custom:qb{k}")))
            continue
        if ec["kind"] == "skymesh":
            n = shape[ec["axis"][0]]
            v = np.arange(n, dtype=float) ** 2 + 3 * np.arange(n) + 10 * k
            cube.extra_coords.add((f"lon{k}", f"lat{k}"), tuple(ec["axis"]),
                                  SkyCoord(v * u.deg / 10, (v / 2 - 5 + np.arange(n) % 2) * u.deg / 10, frame="icrs"), mesh=True)
            continue
        n = shape[ec["axis"]]
        v = np.arange(n, dtype=float) ** 2 + 3 * np.arange(n) + 10 * k
        if ec["kind"] == "quantity":
            cube.extra_coords.add(f"q{k}", ec["axis"], v * u.m, physical_types=f"custom:q{k}")
        elif ec["kind"] == "time":
            cube.extra_coords.add(f"t{k}", ec["axis"], Time("2020-01-01T00:00:00", scale="utc") + v * u.min)
        else:
            cube.extra_coords.add((f"lon{k}", f"lat{k}"), ec["axis"], SkyCoord(v * u.deg / 10, (v / 2 - 5) * u.deg / 10, frame="icrs"), mesh=False)
    if case["pre"] == "slice":
        item = [slice(1, None) for _ in shape]
        # an integer on an axis that carries no part of a 2-axis table (one *of* its axes is C02's concern),
        # possibly an axis lying between the two axes of such a table
        used = {a for e in case["ecs"] if e["kind"] in ("quantity2", "skymesh") for a in e["axis"]}
        free = [a for a in range(len(shape)) if a not in used]
        if len(shape) > 1 and free:
            # index 2, never the reference pixel of the FITS families (crpix - 1 is -1, 0, 0.5 or 1): along a cut
            # exactly through the reference pixel a celestial longitude is constant although structurally coupled
            item[free[case["wseed"] % len(free)]] = 2
        cube = cube[tuple(item)]
    elif case["pre"] == "rebin" and not any(e["kind"] in ("quantity2", "skymesh") for e in case["ecs"]):
        # (multi-table Quantity coordinates cannot be resampled onto grids of different lengths: C19's concern)
        bins = tuple(2 if s % 2 == 0 else 1 for s in shape)
        if any(b > 1 for b in bins):
            cube = cube.rebin(bins)
    return cube


def frac(q):
    f = Fraction(q).limit_denominator(64)
    return int(f) if f.denominator == 1 else [f.numerator, f.denominator]


def unfrac(t):
    return t[0] / t[1] if isinstance(t, list) else t


def run(case):
    rng = random.Random(case["wseed"] + 6)
    tags = [f"ndim={len(case['shape'])}", f"fam={case['fam']}", f"necs={len(case['ecs'])}", f"pre={case['pre']}"] + \
           [f"ec={e['kind']}" for e in case["ecs"]]
    res = {"tags": tags, "oracle": None, "impl": {"err": None}, "model_req": None}
    exact = case["fam"].startswith("probe") and all(e["kind"] in ("quantity", "quantity2") for e in case["ecs"])
    fails = []
    try:
        cube = build(case)
        shape = tuple(cube.data.shape)
        nd = len(shape)
        if case["ecs"] and case["wseed"] % 3 == 0 and getattr(cube.extra_coords, "_lookup_tables", None):
            # a request the extra coords refuse (a mapping / a wcs set by hand on table-built extra coords): AttributeError,
            # and the cube is described afterwards exactly as before
            for attr, val in (("mapping", (0,) * max(1, len(case["ecs"]))), ("wcs", cube.wcs)):
                try:
                    setattr(cube.extra_coords, attr, val)
                    fails.append(f"extra_coords.{attr} set by hand on table-built extra coords was accepted")
                except AttributeError:
                    pass
                except Exception as e:
                    fails.append(f"extra_coords.{attr} = ... raised {type(e).__name__}, documented: AttributeError")
            tags.append("after-refused-requests")
        pll = cube.wcs.low_level_wcs
        ecw = cube.extra_coords.wcs
        ell = None if ecw is None else (ecw.low_level_wcs if hasattr(ecw, "low_level_wcs") else ecw)
        mapping = [] if ell is None else [int(x) for x in cube.extra_coords.mapping]
        if ell is not None:
            res["nontrivial"] = repr(sorted(case.items(), key=str))
        try:
            cll = cube.combined_wcs.low_level_wcs
            aapt = cube.array_axis_physical_types
        except Exception as e:
            res["impl"]["err"] = err_kind(e)
            fails.append(f"combined_wcs / array_axis_physical_types raised {type(e).__name__}: {str(e)[:120]}")
            raise StopIteration
        if cll.pixel_n_dim != nd:
            fails.append(f"combined wcs has {cll.pixel_n_dim} pixel axes for {nd} array axes")
        nw = pll.world_n_dim + (0 if ell is None else ell.world_n_dim)
        if cll.world_n_dim != nw:
            fails.append(f"combined wcs has {cll.world_n_dim} world axes, primary + extra coords have {nw}")
        types = [str(t) for t in pll.world_axis_physical_types] + ([] if ell is None else [str(t) for t in ell.world_axis_physical_types])
        if [str(t) for t in cll.world_axis_physical_types] != types:
            fails.append("world axes are not the primary's followed by the extra coords'")
        # the extra coordinates are the tables the user gave, on the axes the user named (whatever the spelling of
        # the request): at an array element the combined wcs reports the generating formula of each Quantity table
        if case["pre"] is None and not fails:
            names = list(cll.world_axis_names)
            units_ = list(cll.world_axis_units)
            # (two elements with other indices on every axis, array order)
            for el in ([min(a, n - 1) for a, n in enumerate(shape)], [max(n - 1 - a, 0) for a, n in enumerate(shape)]):
                wv = W.p2w(cll, el[::-1])
                for k, ec in enumerate(case["ecs"]):
                    expect = {}
                    if ec["kind"] == "quantity2":
                        a0, a1 = ec["axis"]
                        expect = {f"qa{k}": el[a0] * 2 + 100 * k, f"qb{k}": el[a1] ** 2 + 7 * k}
                    elif ec["kind"] == "quantity":
                        expect = {f"q{k}": el[ec["axis"]] ** 2 + 3 * el[ec["axis"]] + 10 * k}
                    for nm, val in expect.items():
                        if nm not in names:
                            fails.append(f"extra coordinate {nm} is not a world axis of the combined wcs ({names})")
                        else:
                            got_m = float(wv[names.index(nm)]) * float(u.Unit(units_[names.index(nm)]).to(u.m))
                            if not np.isclose(got_m, val, rtol=1e-9, atol=1e-9):
                                fails.append(f"array element {el}: {nm} is {got_m} m, the table given for that axis holds {val} m")
        # positions on and between grid points (inside the tables' ranges)
        pts = []
        for _ in range(5):
            pts.append([rng.choice([0, 1, s - 1, 0.5, s - 1.5, 1.25]) if s > 1 else 0 for s in shape[::-1]])   # pixel order
        pts = [[min(max(x, 0), s - 1) for x, s in zip(p, shape[::-1])] for p in pts]
        worlds = []
        for p in pts:
            got = W.p2w(cll, p)
            want = W.p2w(pll, p) + ([] if ell is None else W.p2w(ell, [p[k] for k in mapping]))
            worlds.append(got)
            if not W.close(got, want, exact):
                fails.append(f"pixel {p}: combined gives {got}, separate descriptions give {want}")
                break
            # round trip
            if np.all(np.isfinite(got)) and not (isinstance(W.low_level(_base(pll)), W.ProbeWCS) and W.low_level(_base(pll)).Ainv is None):
                try:
                    back = cll.world_to_pixel_values(*got)
                    back = [float(np.asarray(x)) for x in (back if isinstance(back, (tuple, list)) else [back])]
                    if not np.allclose(back, p, atol=1e-6, rtol=0):
                        fails.append(f"round trip of pixel {p} gives {back}")
                        break
                except Exception as e:
                    fails.append(f"world_to_pixel_values of its own output raised {type(e).__name__}: {str(e)[:100]}")
                    break
        # world values that no array element has: one 1-D extra coordinate taken one pixel further along its axis
        # than everything else (each table in turn, not only the first on an axis) - they must be refused, not
        # answered with the position the other coordinates imply
        invertible = not (isinstance(W.low_level(_base(pll)), W.ProbeWCS) and W.low_level(_base(pll)).Ainv is None)
        if ell is not None and invertible and not fails:
            ecorr = np.asarray(ell.axis_correlation_matrix, dtype=bool)
            p0 = [1.0 if s >= 3 else 0.0 for s in shape[::-1]]
            w0 = W.p2w(cll, p0)
            n_probe = 0
            for j in range(ell.world_n_dim):
                ks = [k for k in range(ell.pixel_n_dim) if ecorr[j, k]]
                if len(ks) != 1 or ecorr[:, ks[0]].sum() != 1 or shape[::-1][mapping[ks[0]]] < 3 or not np.all(np.isfinite(w0)):
                    continue
                q = [p0[k] for k in mapping]
                q[ks[0]] += 1.0
                moved = W.p2w(ell, q)[j]
                if not np.isfinite(moved) or moved == w0[pll.world_n_dim + j]:
                    continue
                bad = list(w0); bad[pll.world_n_dim + j] = moved
                n_probe += 1
                try:
                    r = cll.world_to_pixel_values(*bad)
                    r = [float(np.asarray(x)) for x in (r if isinstance(r, (tuple, list)) else [r])]
                    fails.append(f"world values {bad} (extra coordinate {types[pll.world_n_dim + j]} taken one pixel further than the rest) "
                                 f"belong to no element but were converted to pixel {r} instead of being refused")
                    break
                except ValueError:
                    pass
                except Exception as e:
                    fails.append(f"inconsistent world values raised {type(e).__name__} instead of ValueError: {str(e)[:80]}")
                    break
            if n_probe:
                tags.append("inconsistent-world-probe")
        # correlation matrix vs finite differences
        corr = np.asarray(cll.axis_correlation_matrix)
        if corr.shape != (cll.world_n_dim, nd):
            fails.append(f"correlation matrix shape {corr.shape}")
        elif not fails:
            dep = np.zeros_like(corr)
            pshape = shape[::-1]
            bases = [[0.0] * nd, [min(1.0, s - 1.0) for s in pshape], [min(0.5, s - 1.0) for s in pshape],
                     [min(0.25 * (k + 1), s - 1.0) for k, s in enumerate(pshape)]]
            for base in bases:
                b0 = np.array(W.p2w(cll, base))
                for k in range(nd):
                    if pshape[k] < 2:
                        continue
                    for step in (1.0, 0.5, -0.25):
                        q = list(base); q[k] = q[k] + step
                        if q[k] > pshape[k] - 1 or q[k] < 0:
                            continue
                        d = np.array(W.p2w(cll, q))
                        with np.errstate(invalid="ignore"):
                            dep[:, k] |= ~np.isclose(d, b0, rtol=1e-13, atol=0, equal_nan=True)
            long_axes = [k for k in range(nd) if shape[::-1][k] >= 2]
            for i in range(cll.world_n_dim):
                for k in long_axes:
                    if dep[i, k] and not corr[i, k]:
                        fails.append(f"world axis {i} ({types[i]}) changes along pixel axis {k} but the matrix says it does not")
                    if corr[i, k] and not dep[i, k]:
                        fails.append(f"matrix marks world axis {i} ({types[i]}) / pixel axis {k} but the value never changes along it")
            # array_axis_physical_types
            for a in range(nd):
                k = nd - 1 - a
                want = [types[i] for i in range(len(types)) if corr[i, k]]
                if list(aapt[a]) != want:
                    fails.append(f"array_axis_physical_types[{a}] = {list(aapt[a])}, matrix column {k} marks {want}")
                    break
        res["obs"] = {"pixDim": int(cll.pixel_n_dim), "worldDim": int(cll.world_n_dim), "corr": W.corr_matrix(cll),
                      "aapt": [list(map(str, x)) for x in aapt], "world": worlds, "pts": pts}
        if ell is not None:
            members = [{"pixDim": int(pll.pixel_n_dim), "worldDim": int(pll.world_n_dim), "corr": W.corr_matrix(pll), "shape": None},
                       {"pixDim": int(ell.pixel_n_dim), "worldDim": int(ell.world_n_dim), "corr": W.corr_matrix(ell), "shape": None}]
            res["model_req"] = {"op": "compound", "members": members, "mapping": list(range(nd)) + mapping, "types": types,
                                "pixels": [[frac(x) for x in p] for p in pts]}
    except StopIteration:
        pass
    except Exception as e:
        import traceback
        fails.append(f"observing raised {type(e).__name__}: {str(e)[:160]}")
        res["trace"] = traceback.format_exc()[-900:]
    if fails:
        res["oracle"] = "; ".join(fails[:2])
    return res


def _base(ll):
    w = ll
    while hasattr(w, "_wcs"):
        w = w._wcs
        w = w.low_level_wcs if hasattr(w, "low_level_wcs") else w
    return w


def compare(case, r, m):
    if r["impl"]["err"] or "obs" not in r:
        return None
    if "err" in m:
        return f"implementation built a combined wcs, model says {m['err']}"
    o = r["obs"]
    for k in ("pixDim", "worldDim", "corr", "aapt"):
        if o[k] != m[k]:
            return f"{k}: implementation {o[k]} vs model {m[k]}"
    cube = build(case)
    pll = cube.wcs.low_level_wcs
    ecw = cube.extra_coords.wcs
    ell = ecw.low_level_wcs if hasattr(ecw, "low_level_wcs") else ecw
    mem = [pll, ell]
    exact = case["fam"].startswith("probe") and all(e["kind"] in ("quantity", "quantity2") for e in case["ecs"])
    for p, got, terms in zip(o["pts"], o["world"], m["world"]):
        want = [W.p2w(mem[t["member"]], [unfrac(x) for x in t["at"]])[t["w"]] for t in terms]
        if not W.close(got, want, exact):
            return f"pixel {p}: implementation {got} vs model terms {want}"
    return None


def signature(case, failure):
    return "other:" + failure[:60]


def shrink(case):
    if case["pre"]:
        yield {**case, "pre": None}
    for i in range(len(case["ecs"])):
        yield {**case, "ecs": case["ecs"][:i] + case["ecs"][i + 1:]}
    if case["fam"] != "probe":
        yield {**case, "fam": "probe"}
