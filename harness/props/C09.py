"""C09 — rebin keeps the coordinate frame registered to the data."""
import random
from fractions import Fraction
import numpy as np
import astropy.units as u
from astropy.time import Time
from astropy.coordinates import SkyCoord

import common as C
import wcsfam as W
from core import err_kind

ID = "C09"
MODEL_OP = "rebin_coords"
RULE = ("cubes of 1-4 dims with divisor-rich shapes over the exact probe family (separable / coupled), FITS (separable, "
        "celestial, rotated) and gWCS-table WCS; 0-3 extra coords (Quantity / Time / 1-D SkyCoord tables, a meshed SkyCoord table over two axes, linear and "
        "non-linear content) on binned and unbinned axes; every divisor bin shape; optionally the cube under test is a proper "
        "slice (offsets 0-2) of a larger cube, or the result of a first rebin. Non-trivial = some factor > 1; distinct = the whole case")
TRUSTED = ["the source cube's own WCS / numpy.interp on the source tables are the references"]
ASSUMPTIONS = ["lookup-table edges are not compared (a table has no value at -1/2); table centres are",
               "Time tables are compared in MJD at 1e-9 d, real WCS values at rtol 1e-9"]
SHAPES = [[4], [6], [4, 6], [6, 4], [2, 6], [3, 4], [4, 4], [6, 6], [2, 6, 4], [4, 2, 3], [4, 3, 4], [2, 3, 4, 2]]


def corpus():
    return C.read_corpus(ID)


def other_angle_units(lon, lat, k):
    """the same angles, every third time stored in other units than the frame's default degrees (hour angle / radian,
    or arcsec): a table's values are physical, whatever unit they are stored in"""
    if k % 3 == 1:
        return lon.to(u.hourangle), lat.to(u.rad)
    if k % 3 == 2:
        return lon.to(u.arcsec), lat.to(u.arcmin)
    return lon, lat


def divisors(n):
    return [d for d in range(1, n + 1) if n % d == 0]


def generate(rng, tier):
    n = 500 if tier == "quick" else 30000
    for _ in range(n):
        shape = list(rng.choice(SHAPES))
        bins = [rng.choice(divisors(s)) for s in shape]
        ecs = []
        for _ in range(rng.choice([0, 1, 1, 2, 3])):
            ecs.append({"axis": rng.randrange(len(shape)), "kind": rng.choice(["quantity", "quantity", "time", "sky"]),
                        "nonlinear": rng.random() < 0.5})
        pre = rng.choice([None, None, "slice", "slice", "rebin"])
        if len(shape) >= 2 and rng.random() < 0.2:
            # a meshed SkyCoord table over two array axes (its two components need equal lengths when it is
            # built; a pre-slice then gives the two axes different lengths and offsets)
            a0, a1 = sorted(rng.sample(range(len(shape)), 2))
            if shape[a0] != shape[a1]:
                pre = "slice"
            elif pre == "rebin":
                pre = None
            ecs.append({"axis": [a0, a1], "kind": "skymesh", "nonlinear": rng.random() < 0.5})
            if rng.random() < 0.85:
                # rebinned lengths equal on the two axes (unequal ones are refused: known finding)
                cands = [(b0, b1) for b0 in divisors(shape[a0]) for b1 in divisors(shape[a1]) if shape[a0] // b0 == shape[a1] // b1]
                bins[a0], bins[a1] = rng.choice(cands)
        yield {"shape": shape, "bins": bins, "fam": rng.choice(["probe", "probe_coupled", "fits_sep", "fits_cel", "fits_rot", "gwcs"]),
               "wseed": rng.randrange(10**6), "ecs": ecs, "pre": pre, "pad_seed": rng.randrange(10**6)}


def padding(case):
    """(offset, tail) per axis of the cube that is built when the cube under test is a slice of it:
    axis a of the built cube has offset + shape[a] + tail entries, and the axes of a meshed table equal lengths."""
    nd = len(case["shape"])
    if case["pre"] != "slice":
        return [0] * nd, [0] * nd
    if "pad_seed" not in case:                       # corpus entries from before padding existed
        return [0] * nd, [0] * nd
    r = random.Random(case["pad_seed"])
    off = [r.choice([0, 1, 2]) for _ in range(nd)]
    tail = [r.choice([0, 0, 1]) for _ in range(nd)]
    for ec in case["ecs"]:
        if ec["kind"] == "skymesh":
            a0, a1 = ec["axis"]
            L = max(off[a] + case["shape"][a] + tail[a] for a in (a0, a1))
            for a in (a0, a1):
                tail[a] = L - off[a] - case["shape"][a]
    return off, tail


def table_values(kind, n, nonlinear, k):
    base = np.arange(n, dtype=float)
    v = base ** 2 if nonlinear else 3 * base
    return v + 10 * k


def sky_frame(case, k):
    """ICRS, or a frame with a non-default attribute (FK5 at equinox J1975): the frame is part of the coordinate"""
    return {"frame": "icrs"} if (case["wseed"] + k) % 2 == 0 else {"frame": "fk5", "equinox": "J1975"}


def build(case):
    from ndcube import NDCube
    rng = random.Random(case["wseed"])
    off, tail = padding(case)
    shape = tuple(o + s + t for o, s, t in zip(off, case["shape"], tail))
    wcs = W.make_wcs(rng, shape, case["fam"], True)
    if case["wseed"] % 3 == 0 and case["fam"] != "gwcs":
        # the WCS declares the pixel bounds of its array: the rebinned WCS must declare those of the rebinned array
        bounds = [(-0.5, n - 0.5) for n in shape[::-1]]
        ll0 = W.low_level(wcs)
        if isinstance(ll0, W.ProbeWCS):
            ll0._bounds = bounds
        else:
            ll0.pixel_bounds = bounds
    cube = None
    if case["wseed"] % 7 == 3:
        # (one cube in seven is reached by slicing a larger one by ranges: see common.via_slicing)
        cube = C.via_slicing(C.payload(tuple(shape), 0), wcs, case["wseed"])
    if cube is None:
        cube = NDCube(C.payload(shape, 0), wcs=wcs)
    tabs = []
    for k, ec in enumerate(case["ecs"]):
        if ec["kind"] == "skymesh":
            n = shape[ec["axis"][0]]
            v = table_values(ec["kind"], n, ec["nonlinear"], k)
            cube.extra_coords.add((f"lon{k}", f"lat{k}"), tuple(ec["axis"]),
                                  SkyCoord(*other_angle_units(v * u.deg / 10, (v / 2 - 5 + np.arange(n) % 2) * u.deg / 10, case["wseed"] + k), **sky_frame(case, k)), mesh=True)
            tabs.append(v)
            continue
        n = shape[ec["axis"]]
        v = table_values(ec["kind"], n, ec["nonlinear"], k)
        if ec["kind"] == "quantity" and (case["wseed"] + k) % 4 == 3:
            # a Quantity subclass with state of its own: longitudes wrapped at 180 deg (negative entries)
            from astropy.coordinates import Longitude
            cube.extra_coords.add(f"q{k}", ec["axis"], Longitude((v - 40) * u.deg, wrap_angle=180 * u.deg), physical_types=f"custom:q{k}")
        elif ec["kind"] == "quantity" and (case["wseed"] + k) % 4 == 1:
            # a table of whole numbers held in an integer dtype (channel numbers): half-way values are not integers
            cube.extra_coords.add(f"q{k}", ec["axis"], u.Quantity(np.round(v).astype(np.int64), u.m, dtype=np.int64), physical_types=f"custom:q{k}")
        elif ec["kind"] == "quantity":
            cube.extra_coords.add(f"q{k}", ec["axis"], v * u.m, physical_types=f"custom:q{k}")
        elif ec["kind"] == "time":
            # (a Time table in any of the usual scales: the instants, not the clock readings, must be kept)
            cube.extra_coords.add(f"t{k}", ec["axis"], Time("2020-01-01T00:00:00", scale=["utc", "tai", "tt"][case["wseed"] % 3]) + v * u.min)
        else:
            cube.extra_coords.add((f"lon{k}", f"lat{k}"), ec["axis"], SkyCoord(*other_angle_units(v * u.deg / 10, (v / 2 - 5) * u.deg / 10, case["wseed"] + k), **sky_frame(case, k)), mesh=False)
        tabs.append(v)
    return cube, tabs


def pre_item(case):
    off, _ = padding(case)
    return tuple(slice(o, o + s) for o, s in zip(off, case["shape"]))


def ec_tables(cube):
    """name -> (axis, numeric arrays) for every lookup-table extra coord of the cube"""
    out = []
    for axes, coord in cube.extra_coords._lookup_tables:
        t = coord.table
        if isinstance(t, Time):
            arrs = [(t.tai.mjd - 58849.0) * 1440.0]       # minutes since 2020-01-01, as instants (TAI)
        elif isinstance(t, SkyCoord) and getattr(coord, "mesh", False):
            # a meshed table keeps its slice lazily; one component per array axis
            arrs = [np.asarray(c.to_value(u.deg)) * 10 for c in coord._sliced_components]
        elif isinstance(t, SkyCoord):
            arrs = [t.spherical.lon.deg * 10, t.spherical.lat.deg * 10]
        else:
            arrs = [np.asarray(x.to_value(u.m if x.unit.is_equivalent(u.m) else u.deg)) for x in (t if isinstance(t, (tuple, list)) else [t])]
        if not np.isscalar(axes) and len(axes) == 1:
            axes = axes[0]
        out.append((int(axes) if np.isscalar(axes) else tuple(int(a) for a in axes), list(coord.names), arrs))
    out.sort(key=lambda x: x[1])          # the order of extra coords is C02's concern; match by name here
    return out


def run(case):
    rng = random.Random(case["wseed"] + 9)
    tags = [f"ndim={len(case['shape'])}", f"fam={case['fam']}", f"necs={len(case['ecs'])}", f"pre={case['pre']}"] + \
           [f"ec={e['kind']}" for e in case["ecs"]]
    res = {"tags": tags, "oracle": None, "model_req": None, "impl": {"err": None}}
    exact = case["fam"].startswith("probe")
    fails = []
    try:
        cube, _ = build(case)
        src = cube
        if case["pre"] == "slice":
            # the cube under test is a proper slice (offsets 0-2, tails 0-1) of a larger cube
            src = cube[pre_item(case)]
        elif case["pre"] == "rebin":
            first = [2 if s % 4 == 0 else 1 for s in cube.data.shape]
            src = cube.rebin(tuple(first))
        shape = tuple(src.data.shape)
        bins = [b if s % b == 0 else 1 for b, s in zip(case["bins"], shape)]
        if all(b == 1 for b in bins):
            bins[0] = [d for d in divisors(shape[0])][-1]
        sll = src.wcs.low_level_wcs
        try:
            # equivalent spellings of the bin shape (non-integers are rounded, a pixel Quantity is accepted)
            spell = case["wseed"] % 4
            arg = tuple(bins)
            if spell == 1:
                arg = tuple(b + (0.4 if k % 2 else -0.4) for k, b in enumerate(bins))
            elif spell == 2:
                arg = np.array(bins) * u.pix
            elif spell == 3:
                arg = np.array([b + (0.3 if k % 2 else -0.3) for k, b in enumerate(bins)]) * u.pix
            out = src.rebin(arg)
        except Exception as e:
            res["impl"]["err"] = err_kind(e)
            mesh_unequal = any(ec["kind"] == "skymesh" and shape[ec["axis"][0]] // bins[ec["axis"][0]] != shape[ec["axis"][1]] // bins[ec["axis"][1]]
                               for ec in case["ecs"])
            fails.append(("[meshed SkyCoord extra coord, rebinned lengths differ] " if mesh_unequal else "") +
                         f"rebin{tuple(bins)} raised {type(e).__name__}: {str(e)[:120]}")
            raise StopIteration
        if any(b > 1 for b in bins):
            res["nontrivial"] = repr(sorted(case.items(), key=str))
        new_shape = tuple(s // b for s, b in zip(shape, bins))
        oll = out.wcs.low_level_wcs
        probes = C.all_indices(new_shape, 12, rng)
        probes_f = probes + [[x - 0.5 for x in p] for p in probes[:4]] + [[x + 0.5 for x in p] for p in probes[:2]]
        world = []
        for p in probes_f:
            got = W.p2w(oll, p[::-1])
            centre = [pp * b + (b - 1) / 2 for pp, b in zip(p, bins)]
            want = W.p2w(sll, centre[::-1])
            world.append(got)
            if not W.close(got, want, exact):
                kind = "centre" if all(float(x).is_integer() for x in p) else "edge"
                fails.append(f"{kind} {p} of the rebinned cube reports {got}; the source at j*f+(f-1)/2 = {centre} has {want}")
                break
        # declared pixel bounds: every f-th original edge, i.e. the same footprint
        sb = sll.pixel_bounds
        if sb is not None and not fails:
            ob = oll.pixel_bounds
            want_b = [((lo + 0.5) / f - 0.5, (hi + 0.5) / f - 0.5) for (lo, hi), f in zip(sb, bins[::-1])]
            if ob is None or not np.allclose(np.asarray(ob, dtype=float), np.asarray(want_b, dtype=float), atol=1e-12):
                fails.append(f"pixel_bounds of the rebinned wcs {ob}; the source's {list(sb)} cover {want_b} on the rebinned grid")
            tags.append("pixel-bounds")
        # corners through the public API: every f-th original edge
        if not fails:
            cs = src.axis_world_coords_values(pixel_corners=True)
            co = out.axis_world_coords_values(pixel_corners=True)
            corr = np.asarray(sll.axis_correlation_matrix)
            for wi, (a, b) in enumerate(zip(cs[::-1], co[::-1])):     # world order
                arr_axes = [len(shape) - 1 - pj for pj in range(corr.shape[1]) if corr[wi, pj]][::-1]
                sel = tuple(slice(None, None, bins[ax]) for ax in sorted(arr_axes))
                a2 = np.asarray(a.value)[sel]
                if a2.shape != np.asarray(b.value).shape or not np.allclose(a2, b.value, rtol=1e-9, atol=1e-9, equal_nan=True):
                    fails.append(f"pixel edges of world axis {wi} are not every f-th original edge")
                    break
        # extra coords: table centres
        ecobs = []
        if not fails and case["ecs"]:
            st = ec_tables(src)
            ot = ec_tables(out)
            def _ptypes(c):
                w = c.extra_coords.wcs
                w = w.low_level_wcs if hasattr(w, "low_level_wcs") else w
                return dict(zip(w.world_axis_names, map(str, w.world_axis_physical_types)))
            if [x[1] for x in st] != [x[1] for x in ot]:
                fails.append(f"extra coords names changed by rebin: {[x[1] for x in st]} -> {[x[1] for x in ot]}")
            elif not all(isinstance(a[1].table, SkyCoord) == isinstance(b[1].table, SkyCoord) and
                         (not isinstance(a[1].table, SkyCoord) or a[1].table.frame.is_equivalent_frame(b[1].table.frame))
                         for a, b in zip(sorted(src.extra_coords._lookup_tables, key=lambda t: list(t[1].names)),
                                         sorted(out.extra_coords._lookup_tables, key=lambda t: list(t[1].names)))):
                fails.append("a SkyCoord extra coord is no longer in the frame (with its attributes) it was given in")
            elif _ptypes(src) != _ptypes(out):
                fails.append(f"extra coords physical types changed by rebin: {_ptypes(src)} -> {_ptypes(out)}")
            else:
                for (ax, names, sa), (ax2, _, oa) in zip(st, ot):
                    if ax != ax2:
                        fails.append(f"extra coord {names} moved from axis {ax} to {ax2}"); break
                    for ci, (s_arr, o_arr) in enumerate(zip(sa, oa)):
                        a = ax[ci] if isinstance(ax, tuple) else ax        # meshed: one component per axis
                        f = bins[a]
                        n = shape[a]
                        grid = np.arange(n // f) * f + (f - 1) / 2
                        want = np.interp(grid, np.arange(n), s_arr)
                        if np.asarray(o_arr).shape != want.shape or not np.allclose(o_arr, want, rtol=1e-9, atol=1e-7):
                            fails.append(f"extra coord {names} on axis {ax}: rebinned table {np.round(o_arr, 6).tolist()} != source "
                                         f"interpolated at block centres {np.round(want, 6).tolist()}")
                            break
                    ecobs.append({"axis": list(ax) if isinstance(ax, tuple) else int(ax), "src": [list(map(float, a)) for a in sa], "out": [list(map(float, a)) for a in oa]})
                    if fails:
                        break
        res["obs"] = {"world": world, "probes": probes_f, "ecs": ecobs, "shape": list(shape), "bins": bins}
        res["model_req"] = {"op": "rebin_coords", "wcs": {"pixDim": int(sll.pixel_n_dim), "worldDim": int(sll.world_n_dim),
                                                          "corr": W.corr_matrix(sll), "shape": list(shape)},
                            "binShape": bins, "shape": list(shape),
                            "pixels": [[frac(x) for x in p] for p in probes_f]}
    except StopIteration:
        pass
    except Exception as e:
        import traceback
        fails.append(f"observing the rebinned cube raised {type(e).__name__}: {str(e)[:160]}")
        res["trace"] = traceback.format_exc()[-900:]
    if fails:
        res["oracle"] = "; ".join(fails[:2])
    return res


def frac(q):
    f = Fraction(q).limit_denominator(64)
    return int(f) if f.denominator == 1 else [f.numerator, f.denominator]


def unfrac(t):
    return t[0] / t[1] if isinstance(t, list) else t


def source_of(case):
    cube, _ = build(case)
    if case["pre"] == "slice":
        return cube[pre_item(case)]
    if case["pre"] == "rebin":
        return cube.rebin(tuple(2 if s % 4 == 0 else 1 for s in cube.data.shape))
    return cube


def compare(case, r, m):
    if r["impl"]["err"] or "obs" not in r:
        return None
    if "err" in m:
        return f"implementation rebinned, model says {m['err']}"
    o = r["obs"]
    src = source_of(case)
    sll = src.wcs.low_level_wcs
    exact = case["fam"].startswith("probe")
    for p, got, terms in zip(o["probes"], o["world"], m["world"]):
        want = [W.p2w(sll, [unfrac(t) for t in term["at"]])[term["w"]] for term in terms]
        if not W.close(got, want, exact):
            return f"world at {p}: implementation {got} vs model terms {want}"
    grids = [[unfrac(x) for x in g] for g in m["grids"]]
    for ec in o["ecs"]:
        for ci, (s_arr, o_arr) in enumerate(zip(ec["src"], ec["out"])):
            g = grids[ec["axis"][ci] if isinstance(ec["axis"], list) else ec["axis"]]
            want = np.interp(g, np.arange(len(s_arr)), s_arr)
            if len(want) != len(o_arr) or not np.allclose(o_arr, want, rtol=1e-9, atol=1e-7):
                return f"extra coord on axis {ec['axis']}: table {o_arr} vs table at the model's grid {g}: {want.tolist()}"
    return None


def signature(case, failure):
    if failure.startswith("[meshed SkyCoord extra coord, rebinned lengths differ]") and "must all be same shape" in failure:
        return "meshed-skycoord-rebin:unequal-output-lengths-refused"
    return "other:" + failure[:60]


def shrink(case):
    if case["pre"]:
        yield {**case, "pre": None}
    if case["ecs"]:
        yield {**case, "ecs": case["ecs"][:-1]}
    if case["fam"] != "probe":
        yield {**case, "fam": "probe"}
