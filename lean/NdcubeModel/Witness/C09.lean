import NdcubeModel.Props.C09

/-! Non-vacuity for C09 and the counter-example for the pre-fix offset 0. -/
namespace Ndcube.C09.Witness
open Ndcube

example : blockCentre [0, 1] [2, 3] = [1/2, 4] := by decide +kernel
example : resampleGrid 1 6 3 = [1, 4] := by decide +kernel
/-- offset 0 (the behaviour before the fix) samples the first pixel of each block, not its centre -/
example : resampleGrid 0 6 3 = [0, 3] ∧ resampleGrid 0 6 3 ≠ [1, 4] := by decide +kernel
example : interpolateTable [0, 1, 4, 9, 16, 25] (resampleGrid 1 6 3) = [some 1, some 16] := by decide +kernel
example : interp1 [0, 1, 4] (3/2) = some (5/2) ∧ interp1 [0, 1, 4] (5/2) = none ∧ interp1 [0, 1, 4] 2 = some 4 := by
  decide +kernel

end Ndcube.C09.Witness
