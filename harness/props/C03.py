"""C03 — coordinates dropped by slicing survive as global coordinates."""
import random, re
import numpy as np
import astropy.units as u

import common as C
import wcsfam as W
import ecs as E
from core import err_kind

ID = "C03"
MODEL_OP = "slice_chain (dropped world dimensions, GlobalCoords add/remove)"
RULE = ("cubes of 1-4 dims over probe (separable / coupled) / FITS (separable, celestial, rotated) / gWCS primaries with 0-3 "
        "lookup-table extra coords (Quantity, Time, SkyCoord 1-D / 2-D / meshed, separable 2-axis Quantity) or a WCS-backed "
        "ExtraCoords; histories of 1-3 slices (ints of both signs, one axis of a coupled pair or both) interleaved with "
        "global_coords.add (fresh name / duplicate name / invalid physical type) and remove (present / absent); global "
        "coords read twice after every history. Non-trivial = at least one world coordinate dropped; distinct = whole case")
TRUSTED = ["the unsliced cube's WCS and extra-coords WCS evaluated at the source element give the expected values",
           "the unsliced WCS's world_axis_object_components accessors turn a global coordinate back into world values"]
ASSUMPTIONS = ["correlation matrices of the generated WCS are truthful (sampled by C05/C06)",
               "results with a zero-length axis are not generated", "user coordinate names differ from WCS / table axis names"]
FAMILIES = ["probe", "probe_coupled", "fits_sep", "fits_cel", "fits_rot", "gwcs"]


def corpus():
    return C.read_corpus(ID)


def generate(rng, tier):
    n = 400 if tier == "quick" else 30000
    # systematic: WCS-backed extra coords that are just a coupled celestial pair sitting on the cube's last two array
    # axes; those two axes are indexed away one at a time (either first), the rest of the cube stays
    for nd in (3, 4):
        for mapping in ([0, 1], [1, 0]):
            for first in (-1, -2):
                shape = [3 + (a % 3) for a in range(nd)]
                it1 = [C.sl()] * nd
                it1[first] = rng.choice([0, 1, -1])
                it2 = [C.sl()] * (nd - 1)
                it2[-1] = rng.choice([0, 1, -1])
                yield {"shape": shape, "fam": rng.choice(["probe", "fits_cel"]), "wseed": rng.randrange(10**6),
                       "ecs": [{"kind": "wcs", "mapping": mapping, "efam": "fits_cel"}],
                       "steps": [{"items": it1}, {"items": it2}]}
    # systematic: a multi-table Quantity coordinate (tables in different, equivalent units) whose axes are ALL indexed
    # away by one item (the coordinate is dropped as a whole), in one step or with a range step before it
    for nd, kind, axes_list in ((2, "quantity2", [[0, 1], [1, 0]]), (3, "quantity2", [[0, 2], [2, 1], [1, 0]]),
                                (4, "quantity3", [[0, 1, 3], [3, 0, 2]]), (3, "quantity3", [[2, 0, 1]])):
        for axes in axes_list:
            for pre in (False, True):
                shape = [3 + (a % 3) for a in range(nd)]
                item = [C.sl(1, None) if pre and nd > len(axes) else C.sl()] * nd
                for j, a in enumerate(axes):
                    item[a] = [1, -1, 0][j % 3]
                if all(isinstance(i, int) for i in item):
                    continue                      # (a scalar result is not a cube)
                steps = ([{"items": [C.sl(1, None)] * nd}] if pre else []) + [{"items": item}]
                yield {"shape": shape, "fam": "probe", "wseed": rng.randrange(10**6),
                       "ecs": [{"kind": kind, "axes": axes}] + ([{"kind": "time", "axes": [axes[0]]}] if pre else []), "steps": steps}
    # systematic: a meshed SkyCoord table cut by ranges that do not start at 0, then indexed away altogether - by one
    # item with integers on both of its axes, or one axis after the other (the dropped coordinate's value is the
    # table's at start + integer on each axis)
    for starts in ([1, 2], [2, 0], [0, 1], [1, 1]):
        for ints in ([1, 0], [-1, 1], [0, -1]):
            shape = [5, 5, 3]
            it1 = [C.sl(starts[0], None), C.sl(starts[1], None), C.sl()]
            base = {"shape": shape, "fam": "probe", "wseed": 1000 + 10 * starts[0] + starts[1],
                    "ecs": [{"kind": "sky2mesh", "axes": [0, 1]}]}
            yield {**base, "steps": [{"items": it1}, {"items": [ints[0], ints[1], C.sl()]}]}
            yield {**base, "steps": [{"items": it1}, {"items": [ints[0], C.sl(), C.sl()]}, {"items": [ints[1], C.sl()]}]}
    for k in range(n):
        nd = rng.choice([1, 2, 2, 3, 3, 4])
        shape = [rng.randint(2, 5) for _ in range(nd)]
        ecs, shape = E.gen_layout(rng, nd, shape, n_ecs=rng.choice([0, 0, 1, 1, 2, 3]), p_wcs=0.22)
        chain = E.gen_chain(rng, shape, rng.choice([1, 2, 2, 3]), need_drop=True)
        steps = []
        added = []
        for items in chain:
            for _ in range(rng.choice([0, 0, 1, 2])):
                steps.append(gen_gc_op(rng, added))
            steps.append({"items": items})
        for _ in range(rng.choice([0, 1])):
            steps.append(gen_gc_op(rng, added))
        yield {"shape": shape, "fam": rng.choice(FAMILIES), "wseed": rng.randrange(10**6), "ecs": ecs, "steps": steps}


def gen_gc_op(rng, added):
    r = rng.random()
    if r < 0.55 or not added:
        if added and rng.random() < 0.2:
            return {"add": rng.choice(added), "ptype": "custom:dup", "valid": True}
        if rng.random() < 0.15:
            return {"add": f"bad{len(added)}", "ptype": "not a physical type", "valid": False}
        name = f"u{len(added)}"
        added.append(name)
        return {"add": name, "ptype": rng.choice(["custom:user", "em.wl", "time", "pos.eq.ra"]), "valid": True}
    if r < 0.8:
        return {"remove": rng.choice(added)}
    return {"remove": "absent"}


def user_value(name):
    return (len(name) * 1.5) * u.kg


def accessor(comp):
    f = comp[2]
    if callable(f):
        return f
    def g(obj, path=f):
        for part in path.split("."):
            obj = getattr(obj, part)
        return obj
    return g


def expected_dropped(ll, names_alive_axes, src_pix, surv_axes, nd, tag, group_of=None):
    """For a low-level WCS whose pixel axis p sits on original array axis `names_alive_axes[p]`:
    the coordinate objects (world axes grouped by object key) none of whose array axes survive,
    with value and accessor per component."""
    out = []
    corr = np.asarray(ll.axis_correlation_matrix)
    vals = W.p2w(ll, src_pix)
    comps = list(ll.world_axis_object_components)
    ptypes = [str(t) for t in ll.world_axis_physical_types]
    alive = {}
    names = list(ll.world_axis_names)
    key = (lambda i: comps[i][0]) if group_of is None else (lambda i: group_of[names[i]])
    for i in range(ll.world_n_dim):
        axes = [names_alive_axes[p] for p in range(ll.pixel_n_dim) if corr[i, p]]
        alive[key(i)] = alive.get(key(i), False) or any(a in surv_axes for a in axes)
    for i in range(ll.world_n_dim):
        if not alive[key(i)]:
            out.append({"src": tag, "i": i, "ptype": ptypes[i], "value": vals[i], "key": key(i), "get": accessor(comps[i]),
                        "unit": str(ll.world_axis_units[i]),
                        "name": names[i], "deg": str(ll.world_axis_units[i]) == "deg"})
    return out


def ec_groups(ecs):
    """world-axis name -> coordinate object it belongs to (lookup-table layouts)."""
    g = {}
    for k, ec in enumerate(ecs):
        if ec["kind"] == "wcs":
            return None
        for nm in E.names_of(k, ec):
            g[nm] = f"sky{k}" if ec["kind"].startswith("sky") else nm
    return g


def run(case):
    tags = [f"ndim={len(case['shape'])}", f"fam={case['fam']}", f"necs={len(case['ecs'])}"] + [f"ec={e['kind']}" for e in case["ecs"]]
    res = {"tags": tags, "oracle": None, "impl": {"err": None}, "model_req": None}
    fails = []
    try:
        cube = E.build_cube(case["shape"], case["fam"], case["wseed"], case["ecs"])
        nd = cube.data.ndim
        orig_ll = cube.wcs.low_level_wcs
        ecw = cube.extra_coords.wcs
        ec_ll = None if ecw is None else (ecw.low_level_wcs if hasattr(ecw, "low_level_wcs") else ecw)
        ec_map = [int(m) for m in cube.extra_coords.mapping]
        cur = cube
        chain = []
        stages = []          # (cube, chain prefix) of every intermediate result
        user = {}
        statuses = []
        for st in case["steps"]:
            if "items" in st:
                tags.append("op=slice")
                try:
                    stages.append((cur, list(chain)))
                    cur = cur[C.to_py_index(st["items"], npint=C.npint_of(case))]
                    chain.append(st["items"])
                    statuses.append("ok")
                except Exception as e:
                    statuses.append(err_kind(e))
                    fails.append(f"slicing by a valid index raised {type(e).__name__}: {str(e)[:120]}")
                    raise StopIteration
            elif "add" in st:
                dup = st["add"] in user
                tags.append("op=add-dup" if dup else ("op=add" if st["valid"] else "op=add-badtype"))
                before = list(cur.global_coords._internal_coords.items())
                try:
                    cur.global_coords.add(st["add"], st["ptype"], user_value(st["add"]))
                    statuses.append("ok")
                    if dup or not st["valid"]:
                        fails.append(f"global_coords.add({st['add']!r}, {st['ptype']!r}) was accepted ({'duplicate name' if dup else 'invalid physical type'})")
                    user[st["add"]] = st["ptype"]
                except Exception as e:
                    statuses.append(err_kind(e))
                    if not dup and st["valid"]:
                        fails.append(f"global_coords.add({st['add']!r}, {st['ptype']!r}) raised {type(e).__name__}")
                    elif list(cur.global_coords._internal_coords.items()) != before:
                        fails.append("a refused add changed the stored coordinates")
            else:
                tags.append("op=remove" if st["remove"] in user else "op=remove-absent")
                try:
                    cur.global_coords.remove(st["remove"])
                    statuses.append("ok")
                    if st["remove"] not in user:
                        fails.append(f"remove of absent {st['remove']!r} accepted")
                    user.pop(st["remove"], None)
                except Exception as e:
                    statuses.append(err_kind(e))
                    if st["remove"] in user:
                        fails.append(f"remove({st['remove']!r}) raised {type(e).__name__}")
        # ---- observe: the final cube, then every intermediate cube again (they must not have
        # been changed by the slices taken from them), then a sibling slice of each intermediate
        def observe(cur, chain, label, check_user):
            try:
                gc = cur.global_coords
                n = len(gc)
                got = {k: (gc.physical_types[k], gc[k]) for k in gc}
                got2 = {k: (gc.physical_types[k], gc[k]) for k in gc}
            except Exception as e:
                fails.append(f"{label}reading global_coords raised {type(e).__name__}: {str(e)[:120]}")
                return None
            if list(got) != list(got2) or n != len(got):
                fails.append(f"{label}global_coords read twice gives {list(got)} then {list(got2)} (len {n})")
            surv = E.surviving_axes(nd, [C.to_py_index(it) for it in chain])
            idx = np.indices(cube.data.shape)
            src0 = []
            for ix in idx:
                a = ix
                for it in chain:
                    a = a[C.to_py_index(it)]
                src0.append(int(a.flat[0]))
            src_pix = src0[::-1]
            exp = expected_dropped(orig_ll, [nd - 1 - p for p in range(orig_ll.pixel_n_dim)], src_pix, surv, nd, "wcs")
            if ec_ll is not None:
                exp += expected_dropped(ec_ll, [nd - 1 - m for m in ec_map], [src_pix[m] for m in ec_map], surv, nd, "ec", ec_groups(case["ecs"]))
            if check_user:
                for name, pt in user.items():
                    if name not in got:
                        fails.append(f"user coordinate {name!r} is missing after the history")
                    elif got[name][0] != pt or not (got[name][1] == user_value(name)):
                        fails.append(f"user coordinate {name!r} changed: {got[name]}")
            derived = {k: v for k, v in got.items() if not (isinstance(k, str) and (k.startswith("u") and k[1:].isdigit()))}
            groups = {}
            for e in exp:
                groups.setdefault((e["src"], e["key"]), []).append(e)
            unused = dict(derived)
            for (srcname, key), grp in groups.items():
                want_pt = tuple(e["ptype"] for e in grp)
                hit = None
                problems = []
                for k, (pt, obj) in unused.items():
                    ptt = tuple(pt) if isinstance(pt, (tuple, list)) else (pt,)
                    if ptt != want_pt:
                        continue
                    try:
                        # a Quantity is compared as a physical value: in the unit the source WCS reports for the axis
                        objs = [obj.to(e["unit"]) if isinstance(obj, u.Quantity) and e["unit"] else obj for e in grp]
                        vals = [float(np.asarray(getattr(e["get"](o), "value", e["get"](o)))) for e, o in zip(grp, objs)]
                    except Exception as ex:
                        problems.append(f"{k}: accessor failed {type(ex).__name__}")
                        continue
                    diff = [((a - e["value"] + 180.0) % 360.0 - 180.0) if e["deg"] else (a - e["value"]) for a, e in zip(vals, grp)]
                    # (times: a few nanoseconds, whatever the offset from the reference time - a Time keeps two doubles)
                    tol = 5e-9 if all(e["ptype"] == "time" for e in grp) and max(abs(e["value"]) for e in grp) < 1e6 else \
                        1e-9 * max(1.0, max(abs(e["value"]) for e in grp))
                    if np.allclose(diff, 0, rtol=0, atol=tol):
                        hit = k
                        break
                    problems.append(f"{k} holds {vals}")
                if hit is None:
                    fails.append(f"{label}dropped {srcname} coordinate(s) {[e['name'] for e in grp]} {list(want_pt)} with value(s) "
                                 f"{[e['value'] for e in grp]} at the sliced-away index not in global_coords ({'; '.join(problems) or 'no entry of that physical type'})")
                else:
                    unused.pop(hit)
            if unused and not fails:
                fails.append(f"{label}global_coords lists {list(unused)} although nothing of the kind was dropped")
            return exp

        exp = observe(cur, chain, "", True)
        if exp is None:
            raise StopIteration
        if exp:
            res["nontrivial"] = repr(sorted(case.items(), key=str))
        tags.append(f"dropped={min(len(exp), 4)}")
        if not fails:
            for k, (c_k, chain_k) in enumerate(stages):
                observe(c_k, chain_k, f"[intermediate cube {k} re-read after it was sliced] ", False)
                if fails:
                    break
                # a sibling: slice the intermediate again, differently (integer on its last axis)
                try:
                    sib_items = [C.sl()] * (c_k.data.ndim - 1) + [-1] if c_k.data.ndim > 1 else None
                    if sib_items:
                        sib = c_k[C.to_py_index(sib_items, npint=C.npint_of(case))]
                        observe(sib, chain_k + [sib_items], f"[sibling slice [..., -1] of intermediate cube {k}] ", False)
                        tags.append("sibling")
                except Exception as e:
                    fails.append(f"sibling slice of intermediate cube {k} raised {type(e).__name__}: {str(e)[:100]}")
                if fails:
                    break
        # ---- what the implementation's own bookkeeping says (for the model)
        sll = cur.wcs.low_level_wcs
        dwd = getattr(sll, "dropped_world_dimensions", None) or {}
        res["obs"] = {"statuses": statuses, "shape": list(cur.data.shape),
                      "wcs_dropped": [[str(nm), float(np.asarray(v))] for nm, v in zip(dwd.get("world_axis_names", []), dwd.get("value", []))],
                      "ec_dropped": sorted(str(x) for x in cur.extra_coords.dropped_world_dimensions.get("world_axis_names", [])),
                      "internal": [[k, v[0]] for k, v in cur.global_coords._internal_coords.items()],
                      "world_names": [str(x) for x in sll.world_axis_names]}
        import props.C02 as P2
        luts, id_names = P2.lut_requests(case, cube)
        res["id_names"] = {str(k): v for k, v in id_names.items()}
        res["orig_names"] = [str(x) for x in orig_ll.world_axis_names]
        res["model_req"] = {"op": "slice_chain", "shape": list(case["shape"]),
                            "wcs": {"pixDim": int(orig_ll.pixel_n_dim), "worldDim": int(orig_ll.world_n_dim),
                                    "corr": W.corr_matrix(orig_ll), "shape": list(case["shape"])},
                            "luts": luts, "steps": case["steps"]}
    except StopIteration:
        pass
    if fails:
        res["oracle"] = "; ".join(fails[:2])
    return res


def unfrac(t):
    return t[0] / t[1] if isinstance(t, list) else t


def compare(case, r, m):
    if "obs" not in r:
        return None
    o = r["obs"]
    ms = ["ok" if "ok" in s else s["err"] for s in m["steps"]]
    if ms != o["statuses"]:
        return f"step outcomes: implementation {o['statuses']} vs model {ms}"
    if o["shape"] != m["shape"]:
        return f"shape: implementation {o['shape']} vs model {m['shape']}"
    if o["internal"] != m["internal"]:
        return f"user coordinates: implementation {o['internal']} vs model {m['internal']}"
    names = r["orig_names"]
    if [names[i] for i in m["worldKeep"]] != o["world_names"]:
        return f"kept world axes: implementation {o['world_names']} vs model {[names[i] for i in m['worldKeep']]}"
    cube = E.build_cube(case["shape"], case["fam"], case["wseed"], case["ecs"])
    ll = cube.wcs.low_level_wcs
    want = sorted((names[d["axis"]], W.p2w(ll, [unfrac(x) for x in d["value"]["at"]])[d["value"]["w"]]) for d in m["wcsDropped"])
    got = sorted((a, b) for a, b in o["wcs_dropped"])
    if [a for a, _ in want] != [a for a, _ in got] or not np.allclose([b for _, b in want], [b for _, b in got], rtol=1e-9, atol=1e-9):
        return f"dropped world dimensions of the wcs: implementation {got} vs model {want}"
    if case["ecs"] and case["ecs"][0]["kind"] == "wcs":
        return None
    sep_ids = {l["id"] for l in r["model_req"]["luts"] if l["sep"]}
    mnames = []
    for i in m["ecDropped"]:
        mnames += r["id_names"][str(i)]
    for i, c in m["ecDroppedComps"]:
        mnames.append(r["id_names"][str(i)][c])
    mnames = set(mnames)   # a table dropped as a whole after losing a component names that component twice
    if sorted(mnames) != o["ec_dropped"]:
        return f"dropped extra coords: implementation {o['ec_dropped']} vs model {sorted(mnames)}"
    return None


def signature(case, failure):
    kinds = [e["kind"] for e in case["ecs"]]
    kinds = ["quantity2" if k == "quantity3" else k for k in kinds]
    if ("quantity2" in kinds and kinds.count("quantity") + kinds.count("quantity2") >= 2 and "dropped ec coordinate" in failure
            and re.search(r"'q[abc]?\d", failure)):
        return "quantity2-beside-quantity-table:object-key-collision"
    if kinds == ["wcs"] and "dropped ec coordinate" in failure:
        return "wcs-backed-extra-coords-all-axes-dropped:vanish"
    return "other:" + failure[:60]


def shrink(case):
    steps = case["steps"]
    for i in range(len(steps)):
        c = {**case, "steps": steps[:i] + steps[i + 1:]}
        try:
            a = np.empty(tuple(case["shape"]))
            for st in c["steps"]:
                if "items" in st:
                    a = a[C.to_py_index(st["items"])]
            if a.ndim >= 1 and a.size > 0:
                yield c
        except Exception:
            pass
    for i in range(len(case["ecs"])):
        yield {**case, "ecs": case["ecs"][:i] + case["ecs"][i + 1:]}
    if case["fam"] != "probe":
        yield {**case, "fam": "probe"}
