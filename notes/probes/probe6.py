from common import *
def mk(n0, off, shape=(3,4)):
    d = np.arange(n0*shape[0]*shape[1]).reshape((n0,)+shape) + off
    return NDCube(d.astype(float), wcs=wcs3((n0,)+shape))
cubes = [mk(2,0), mk(3,100), mk(1,200)]
seq = NDCubeSequence(cubes, common_axis=0, meta={'m':1})
tryit("shape", lambda: (seq.shape, seq.cube_like_shape))
tryit("seq[1:,0]", lambda: (seq[1:,0].shape, seq[1:,0]._common_axis))
tryit("seq[...,0]", lambda: (seq[...,0].shape, seq[...,0]._common_axis))
tryit("seq[:, ..., 0]", lambda: (seq[:,...,0].shape, seq[:,...,0]._common_axis))
tryit("seq[::2]", lambda: [c.data[0,0,0] for c in seq[::2].data])
tryit("seq[::-1]", lambda: [c.data[0,0,0] for c in seq[::-1].data])
tryit("seq[-1]", lambda: seq[-1].data[0,0,0])
tryit("seq[0:2, :, 1]", lambda: (seq[0:2,:,1].shape, seq[0:2,:,1]._common_axis))
seq1 = NDCubeSequence(cubes, common_axis=1)
tryit("ca1 seq[:,0]", lambda: (seq1[:,0]._common_axis))
tryit("ca1 seq[:,:,0]", lambda: (seq1[:,:,0]._common_axis))
tryit("explode seq ragged axis0", lambda: len(seq.explode_along_axis(0).data))
tryit("explode seq axis1", lambda: (len(seq.explode_along_axis(1).data), seq.explode_along_axis(1)._common_axis))
tryit("explode cube", lambda: (len(cubes[1].explode_along_axis(-1).data), cubes[1].explode_along_axis(-1)._common_axis))
# index_as_cube
cat = np.concatenate([c.data for c in cubes], axis=0)
def iac(item):
    r = seq.index_as_cube[item]
    if isinstance(r, NDCube): return ("cube", r.data.shape, np.array_equal(r.data, cat[item]))
    j = np.concatenate([c.data for c in r.data], axis=r._common_axis)
    return ("seq", len(r.data), j.shape, np.array_equal(j, cat[item]), r._common_axis)
for item in [3, -1, -4, 6, slice(1,4), slice(None,4), slice(2,None), slice(-3,None), slice(1,9), slice(0,6,2), (slice(1,5),0), (slice(2,5), slice(None), 1), slice(2,2), slice(2,3), slice(4,2)]:
    tryit(f"iac[{item}]", lambda: iac(item))
