#!/usr/bin/env python3
"""Regenerate MANIFEST.json from tools/manifest_src.json (claimed checks) + properties.jsonl."""
import json, os
ROOT = os.path.dirname(os.path.dirname(os.path.abspath(__file__)))
src = json.load(open(os.path.join(ROOT, "tools", "manifest_src.json")))
props = [json.loads(l) for l in open(os.path.join(ROOT, "properties.jsonl"))]
checks, na = [], []
for p in props:
    pid = p["id"]
    c = src["checks"].get(pid)
    if c is None:
        na.append({"property_id": pid, "reason": src["not_applicable"].get(pid, "check not built yet (the technique applies; see DESIGN.md section 7)")})
        continue
    checks.append({
        "property_id": pid,
        "quick_cmd": f"./check {pid} quick",
        "thorough_cmd": f"./check {pid} thorough",
        "evidence_file": f"evidence/{pid}.json",
        "replay_cmd_template": f"./check {pid} --replay {{path}}",
        "engine": "lean4-model+correspondence",
        "level_claimed": {"category": "proof", "text": c["text"], "design_ref": c.get("design_ref", f"DESIGN.md section 7, {pid}")},
        "level_note": c["note"],
        "technique": c["technique"],
    })
m = {
    "version": 1,
    "setup_cmd": "cd lean && lake build",
    "hooks": {"guard": "NDCUBE_VERIF", "enable": "export NDCUBE_VERIF=1 (set by ./check; no source hooks are needed: every observable is public or a read-only private attribute)",
              "baseline_off_cmd": "cd /repo && env -u NDCUBE_VERIF /venv/bin/python -m pytest -ra -q -p no:cacheprovider --timeout=900 --continue-on-collection-errors",
              "source_commits": [], "add_only": True},
    "engines": [{"name": "lean4-model+correspondence", "path": "lean/ + harness/",
                 "serves_properties": [c["property_id"] for c in checks],
                 "kind_free_text": "Lean 4 theorems over a hand-written executable model (lean/NdcubeModel), tied to /repo on every run by a differential correspondence check (harness/) that drives the real ndcube in-process and the model through a JSON line protocol (lake env lean --run Main.lean); an independent oracle states each property on implementation observables and is the search procedure for failing inputs"}],
    "checks": checks,
    "notes": src.get("notes", ""),
    "not_applicable": na,
}
json.dump(m, open(os.path.join(ROOT, "MANIFEST.json"), "w"), indent=1)
print(f"{len(checks)} checks, {len(na)} not claimed")
