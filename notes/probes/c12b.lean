def sliceL {α} (l : List α) (lo hi : Nat) : List α := (l.drop lo).take (hi - lo)

theorem sliceL_append {α} (a b : List α) (lo hi : Nat) :
    sliceL (a ++ b) lo hi = sliceL a lo (min hi a.length) ++ sliceL b (lo - a.length) (hi - a.length) := by
  unfold sliceL
  rw [List.drop_append, List.take_append]
  simp only [List.length_drop]
  by_cases h : lo ≤ a.length
  · congr 1
    · -- take (hi-lo) (drop lo a) = take (min hi |a| - lo) (drop lo a)
      apply List.take_eq_take_iff.mpr
      simp [List.length_drop]; omega
    · congr 1; omega
  · have : a.drop lo = [] := by simp; omega
    simp [this]
    congr 1; omega
