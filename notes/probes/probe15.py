from common import *
import itertools
# C13 shared index array
def mk(shape):
    return NDCube(np.arange(np.prod(shape)).reshape(shape).astype(float), wcs=wlin(len(shape), shape))
a = mk((2,3,4,5)); b = mk((4,5,3,2))   # aligned: a(0,1,2) lens 2,3,4 ; b axes (3,2,0) lens 2,3,4
col = NDCollection([("a",a),("b",b)], aligned_axes=((0,1,2),(3,2,0)))
for item in [(0,slice(None),0),(0,0),(slice(None),0,0),(0,0,slice(None))]:
    r = col[item]
    print(item, r.aligned_axes, {k:v.shape for k,v in r.items()})
# C11 ellipsis common axis
def mk3(n0, off):
    d = np.arange(n0*12).reshape((n0,3,4)) + off
    return NDCube(d.astype(float), wcs=wcs3((n0,3,4)))
seq1 = NDCubeSequence([mk3(2,0), mk3(2,100)], common_axis=1)
tryit("ca1 seq[:, ..., 0]", lambda: (seq1[:,...,0]._common_axis, seq1[:,...,0].shape))
seq2 = NDCubeSequence([mk3(2,0), mk3(2,100)], common_axis=2)
tryit("ca2 seq[:, 0, ...]", lambda: (seq2[:,0,...]._common_axis, seq2[:,0,...].shape))
tryit("ca2 seq[:, ..., 0, :]", lambda: (seq2[:,...,0,:]._common_axis, seq2[:,...,0,:].shape))
# C03 successive drops
c = NDCube(np.zeros((2,3,4)), wcs=wcs3((2,3,4)))
c.extra_coords.add("a", 0, np.arange(2)*u.m, physical_types="pos.distance")
c.extra_coords.add("b", 1, np.arange(3)*u.s, physical_types="time")
c.extra_coords.add("e", 2, np.arange(4)*u.J, physical_types="phys.energy")
s1 = c[1]
print("after 1:", [str(t.table) for t in s1.extra_coords._dropped_tables])
s2 = s1[2]
print("after 2:", [str(t.table) for t in s2.extra_coords._dropped_tables])
