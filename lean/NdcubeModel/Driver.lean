import Lean.Data.Json
import NdcubeModel.Model.Cube
import NdcubeModel.Model.Sequence
import NdcubeModel.Model.Collection
import NdcubeModel.Model.Rebin
import NdcubeModel.Model.Wrappers
import NdcubeModel.Model.Table
import NdcubeModel.Model.Fits
import NdcubeModel.Model.Uncert
import NdcubeModel.Model.Coords
import NdcubeModel.Model.ExtraCoords
import NdcubeModel.Model.Crop
import NdcubeModel.Model.SeqCrop
import NdcubeModel.Model.SeqCoords
import NdcubeModel.Model.Arith
import NdcubeModel.Model.Reproject
import NdcubeModel.Model.Frame

/-!
# Line-protocol driver

One JSON object per input line, one JSON object per output line.  Every request carries
`"op"`; the driver is stateless (histories are sent whole).  Only core `Lean.Data.Json` and the
`Model/*` files are imported.
-/

namespace Ndcube.Driver
open Lean Ndcube

abbrev R := Except String

def field (j : Json) (k : String) : R Json :=
  match j.getObjVal? k with
  | .ok v => .ok v
  | .error e => .error s!"missing field {k}: {e}"

def optField (j : Json) (k : String) : Option Json :=
  match j.getObjVal? k with
  | .ok .null => none
  | .ok v => some v
  | .error _ => none

def asInt (j : Json) : R Int :=
  match j.getInt? with
  | .ok v => .ok v
  | .error e => .error s!"expected int: {e}"

def asNat (j : Json) : R Nat :=
  match j.getNat? with
  | .ok v => .ok v
  | .error e => .error s!"expected nat: {e}"

def asBool (j : Json) : R Bool :=
  match j.getBool? with
  | .ok v => .ok v
  | .error e => .error s!"expected bool: {e}"

def asStr (j : Json) : R String :=
  match j.getStr? with
  | .ok v => .ok v
  | .error e => .error s!"expected string: {e}"

def asArr (j : Json) : R (List Json) :=
  match j.getArr? with
  | .ok v => .ok v.toList
  | .error e => .error s!"expected array: {e}"

def asList {α} (f : Json → R α) (j : Json) : R (List α) := do
  let xs ← asArr j
  xs.mapM f

def asOptInt (j : Json) : R (Option Int) :=
  match j with
  | .null => .ok none
  | _ => (asInt j).map some

/-- Rationals travel as `[num, den]` or as a plain integer. -/
def asRat (j : Json) : R Rat :=
  match j with
  | .arr xs =>
    match xs.toList with
    | [n, d] => do
      let n ← asInt n
      let d ← asNat d
      if d = 0 then .error "zero denominator" else .ok (mkRat n d)
    | _ => .error "expected [num, den]"
  | _ => (asInt j).map fun i => (i : Rat)

def ratJson (q : Rat) : Json :=
  if q.den = 1 then Json.num (JsonNumber.fromInt q.num)
  else Json.arr #[Json.num (JsonNumber.fromInt q.num), Json.num (JsonNumber.fromNat q.den)]

def natJson (n : Nat) : Json := Json.num (JsonNumber.fromNat n)
def intJson (n : Int) : Json := Json.num (JsonNumber.fromInt n)
def listJson {α} (f : α → Json) (l : List α) : Json := Json.arr (l.map f).toArray
def optJson {α} (f : α → Json) : Option α → Json
  | none => .null
  | some a => f a

/-- Items: integer → `.int`; `{"s":[a,b,c]}` → slice; `"..."` → Ellipsis; `null` → None. -/
def asItem (j : Json) : R Item :=
  match j with
  | .null => .ok .none
  | .str "..." => .ok .ellipsis
  | .num _ => (asInt j).map Item.int
  | _ => do
    let s ← field j "s"
    let xs ← asArr s
    match xs with
    | [a, b, c] => do
      let a ← asOptInt a
      let b ← asOptInt b
      let c ← asOptInt c
      pure (.slice a b c)
    | _ => .error "slice needs three entries"

def itemJson : Item → Json
  | .int i => intJson i
  | .slice a b c => Json.mkObj [("s", Json.arr #[optJson intJson a, optJson intJson b, optJson intJson c])]
  | .ellipsis => .str "..."
  | .none => .null

def errJson (e : Err) : Json := Json.mkObj [("err", .str e.name)]

def axisResJson : AxisRes → Json
  | .kept s l => Json.mkObj [("kept", Json.arr #[natJson s, natJson l])]
  | .dropped i => Json.mkObj [("dropped", natJson i)]

/-! ## The free ("symbolic") base WCS

World value = the term "world axis `i` of the base, evaluated at pixel vector `q`". -/

abbrev Sym := Nat × List Rat

def symJson (s : Sym) : Json := Json.mkObj [("w", natJson s.1), ("at", listJson ratJson s.2)]

def freeWcs (pixDim worldDim : Nat) (corr : List (List Bool)) (shape : Option (List Nat)) :
    LLWcs Sym :=
  { pixDim := pixDim, worldDim := worldDim,
    p2w := fun q => (List.range worldDim).map fun i => (i, q),
    w2p := fun _ => [],
    corr := corr, shape := shape }

def asWcs (j : Json) : R (LLWcs Sym) := do
  let pd ← field j "pixDim" >>= asNat
  let wd ← field j "worldDim" >>= asNat
  let corr ← field j "corr" >>= asList (asList asBool)
  let shape ← match optField j "shape" with
    | none => pure none
    | some s => (asList asNat s).map some
  pure (freeWcs pd wd corr shape)

/-! ## op `getitem` (C01) -/

def opGetitem (j : Json) : R Json := do
  let shape ← field j "shape" >>= asList asNat
  let items ← field j "items" >>= asList asItem
  let w ← field j "wcs" >>= asWcs
  let probes ← field j "probes" >>= asList (asList asNat)
  let c : Cube (List Nat) Sym :=
    { shape := shape, data := fun r => r, mask := .absent, uncert := none, wcs := w, metaId := 0 }
  match c.getitem items with
  | .error e => pure (errJson e)
  | .ok c' =>
    let its := match normItems shape items with
      | .ok its => its
      | .error _ => []
    let axes := match applyAxes shape its with
      | .ok a => a
      | .error _ => []
    pure <| Json.mkObj [
      ("shape", listJson natJson c'.shape),
      ("axes", listJson axisResJson axes),
      ("normItems", listJson itemJson its),
      ("pixDim", natJson c'.wcs.pixDim),
      ("worldDim", natJson c'.wcs.worldDim),
      ("corr", listJson (listJson Json.bool) c'.wcs.corr),
      ("arrayShape", optJson (listJson natJson) c'.wcs.shape),
      ("src", listJson (fun r => listJson natJson (c'.data r)) probes),
      ("world", listJson (fun r =>
          listJson symJson (c'.wcs.p2w ((r.map fun (n : Nat) => (n : Rat)).reverse))) probes),
      ("dropped", listJson (fun (p : Nat × Sym) =>
          Json.mkObj [("axis", natJson p.1), ("value", symJson p.2)]) (droppedWorld w its))]

/-! ## sequences (C11, C12) -/

def asSeq (j : Json) : R Seq := do
  let shapes ← field j "shapes" >>= asList (asList asNat)
  let ca ← match optField j "commonAxis" with
    | none => pure none
    | some c => (asNat c).map some
  pure { shapes := shapes, commonAxis := ca }

/-- `{"tuple":[...]}` or `{"single": item}` -/
def asSeqIndex (j : Json) : R SeqIndex :=
  match optField j "tuple" with
  | some t => (asList asItem t).map SeqIndex.tuple
  | none => do
    let it ← field j "single" >>= asItem
    pure (.single it)

def pieceJson (p : Nat × Option (List Item)) : Json :=
  Json.mkObj [("cube", natJson p.1), ("item", optJson (listJson itemJson) p.2)]

def seqResultJson : SeqResult → Json
  | .cube k it => Json.mkObj [("kind", .str "cube"), ("cube", natJson k), ("item", optJson (listJson itemJson) it)]
  | .seq ps ca => Json.mkObj [("kind", .str "seq"), ("pieces", listJson pieceJson ps),
      ("commonAxis", optJson natJson ca)]

def exceptJson {α} (f : α → Json) : Except Err α → Json
  | .ok a => f a
  | .error e => errJson e

def dimJson : Dim → Json
  | .int n => natJson n
  | .ragged ns => listJson natJson ns

def opSeqGetitem (j : Json) : R Json := do
  let s ← field j "seq" >>= asSeq
  let ix ← field j "index" >>= asSeqIndex
  pure (exceptJson seqResultJson (s.getitem ix))

def opSeqExplode (j : Json) : R Json := do
  let s ← field j "seq" >>= asSeq
  let ax ← field j "axis" >>= asInt
  pure (exceptJson seqResultJson (s.explode ax))

def opIac (j : Json) : R Json := do
  let s ← field j "seq" >>= asSeq
  let ix ← field j "index" >>= asSeqIndex
  pure (exceptJson seqResultJson (iacGetitem s ix))

def opSeqShape (j : Json) : R Json := do
  let s ← field j "seq" >>= asSeq
  pure <| Json.mkObj [("shape", listJson dimJson s.shape),
    ("cubeLikeShape", exceptJson (listJson natJson) s.cubeLikeShape)]

/-! ## collections (C13) -/

def asMember (j : Json) : R (Key × List Nat) := do
  let k ← field j "key" >>= asNat
  let sh ← field j "shape" >>= asList asNat
  pure (k, sh)

def asOptAxes (j : Json) (k : String) : R (Option (List (List Nat))) :=
  match optField j k with
  | none => pure none
  | some a => (asList (asList asNat) a).map some

def asColl (j : Json) : R (Except Err Coll) := do
  let ms ← field j "members" >>= asList asMember
  let ax ← asOptAxes j "axes"
  pure (Coll.init ms ax)

def asNumIndex (j : Json) : R NumIndex :=
  match optField j "tuple" with
  | some t => (asList asItem t).map NumIndex.tuple
  | none => do
    let it ← field j "single" >>= asItem
    match it with
    | .int i => pure (.int i)
    | .slice a b c => pure (.slice a b c)
    | _ => .error "numeric index must be int, slice or tuple"

def asCollOp (j : Json) : R CollOp := do
  let kind ← field j "kind" >>= asStr
  match kind with
  | "slice" => do
    let ix ← field j "index" >>= asNumIndex
    pure (.slice ix)
  | "select" => do
    let ks ← field j "keys" >>= asList asNat
    pure (.select ks)
  | "copy" => pure .copy
  | "pop" => do
    let k ← field j "key" >>= asNat
    pure (.pop k)
  | "del" => do
    let k ← field j "key" >>= asNat
    pure (.del k)
  | "update" => do
    let o ← field j "other" >>= asColl
    match o with
    | .ok o => pure (.update o)
    | .error _ => .error "update operand is itself refused by the constructor"
  | "setitem" => pure .setitem
  | "setdefault" => pure .setdefault
  | "popitem" => pure .popitem
  | "mixed" => pure .mixed
  | _ => .error s!"unknown collection op {kind}"

def collJson (c : Coll) : Json :=
  Json.mkObj [("keys", listJson natJson (c.members.map (·.1))),
    ("shapes", listJson (listJson natJson) (c.members.map (·.2))),
    ("aligned", optJson (listJson fun (p : Key × List Nat) =>
        Json.mkObj [("key", natJson p.1), ("axes", listJson natJson p.2)]) c.aligned),
    ("nAligned", natJson c.nAligned)]

def opCollection (j : Json) : R Json := do
  let c0 ← asColl j
  let ops ← field j "ops" >>= asList asCollOp
  match c0 with
  | .error e => pure (Json.mkObj [("init", errJson e), ("steps", Json.arr #[])])
  | .ok c0 =>
    let rec go (c : Coll) (ops : List CollOp) (acc : List Json) : List Json :=
      match ops with
      | [] => acc.reverse
      | op :: rest =>
        match c.step op with
        | .error e => go c rest (errJson e :: acc)
        | .ok c' =>
          let extra := match op with
            | .slice ix => match c.sliceNum ix with
              | .ok (_, its) => [("memberItems", listJson (listJson itemJson) its)]
              | .error _ => []
            | _ => []
          go c' rest ((Json.mkObj ([("state", collJson c')] ++ extra)) :: acc)
    pure (Json.mkObj [("init", collJson c0), ("steps", Json.arr (go c0 ops []).toArray)])

/-! ## rebin (C08) -/

def asVal (j : Json) : R Val :=
  match j with
  | .str "nan" => pure .nan
  | _ => (asRat j).map Val.num

def valJson : Val → Json
  | .nan => .str "nan"
  | .num q => ratJson q

def asReduction (s : String) : R Reduction :=
  match s with
  | "sum" => pure .sum | "mean" => pure .mean | "nansum" => pure .nansum | "nanmean" => pure .nanmean
  | "min" => pure .min | "max" => pure .max | "prod" => pure .prod
  | _ => .error s!"unknown reduction {s}"

def asMaskIn (j : Json) : R MaskIn :=
  match j with
  | .null => pure .absent
  | .bool b => pure (.scalar b)
  | _ => (asList asBool j).map MaskIn.array

def maskOutJson : MaskOut → Json
  | .absent => .null
  | .scalar b => .bool b
  | .array bits => listJson Json.bool bits

def asRebinIn (j : Json) : R RebinIn := do
  let shape ← field j "shape" >>= asList asNat
  let data ← field j "data" >>= asList asVal
  let mask ← match j.getObjVal? "mask" with
    | .ok m => asMaskIn m
    | .error _ => pure .absent
  let bs ← field j "binShape" >>= asList asRat
  let op ← field j "operation" >>= asStr >>= asReduction
  let ign ← field j "ignoresMask" >>= asBool
  let hm ← field j "handleMask" >>= asStr
  let hm ← match hm with
    | "all" => pure HandleMask.all | "any" => pure HandleMask.any | "none" => pure HandleMask.none
    | _ => .error "handleMask must be all/any/none"
  pure { shape := shape, data := data, mask := mask, binShape := bs, op := op, ignoresMask := ign, handleMask := hm }

def opRebin (j : Json) : R Json := do
  let x ← asRebinIn j
  match rebin x with
  | .error e => pure (errJson e)
  | .ok o => pure <| Json.mkObj [("identity", .bool o.identity), ("shape", listJson natJson o.shape),
      ("values", listJson (optJson valJson) o.values), ("mask", maskOutJson o.mask)]

/-! ## WCS wrappers (C14, C09, C06) -/

def asPerAxis (j : Json) : R PerAxis :=
  match optField j "scalar" with
  | some q => (asRat q).map PerAxis.scalar
  | none => do
    let l ← field j "list"
    (asList asRat l).map PerAxis.list

def wcsInfoJson (w : LLWcs Sym) : List (String × Json) :=
  [("pixDim", natJson w.pixDim), ("worldDim", natJson w.worldDim),
   ("corr", listJson (listJson Json.bool) w.corr), ("arrayShape", optJson (listJson natJson) w.shape)]

def opResampled (j : Json) : R Json := do
  let w ← field j "wcs" >>= asWcs
  let f ← field j "factor" >>= asPerAxis
  let o ← field j "offset" >>= asPerAxis
  let pix ← field j "pixels" >>= asList (asList asRat)
  match resampled w f o with
  | .error e => pure (errJson e)
  | .ok w' =>
    let fl := f.expand w.pixDim
    let ol := o.expand w.pixDim
    let ps := w.shape.map fun sh => resampledPixelShape sh.reverse fl
    let bounds ← match optField j "bounds" with
      | none => pure none
      | some b => do
        let bs ← asList (asList asRat) b
        pure (some (resampledBounds (bs.map fun x => (x.getD 0 0, x.getD 1 0)) fl ol))
    let under ← match optField j "underlying" with
      | none => pure []
      | some u => asList (asList asRat) u
    pure <| Json.mkObj (wcsInfoJson w' ++ [
      ("world", listJson (fun p => listJson symJson (w'.p2w p)) pix),
      ("pixelShape", optJson (listJson ratJson) ps),
      ("bounds", optJson (listJson fun (b : Rat × Rat) => Json.arr #[ratJson b.1, ratJson b.2]) bounds),
      ("top", listJson (fun u => listJson ratJson (subDiv u fl ol)) under)])

def opRebinCoords (j : Json) : R Json := do
  let w ← field j "wcs" >>= asWcs
  let bs ← field j "binShape" >>= asList asNat
  let pix ← field j "pixels" >>= asList (asList asRat)       -- array order
  let shape ← field j "shape" >>= asList asNat
  match rebinWcs w bs with
  | .error e => pure (errJson e)
  | .ok w' =>
    let grids := (shape.zip bs).map fun (d, b) => resampleGrid (((b : Rat) - 1) / 2) d (b : Rat)
    pure <| Json.mkObj [
      ("world", listJson (fun p => listJson symJson (w'.p2w p.reverse)) pix),
      ("grids", listJson (listJson ratJson) grids)]

def opReordered (j : Json) : R Json := do
  let w ← field j "wcs" >>= asWcs
  let types ← field j "types" >>= asList asStr
  let po ← field j "pixelOrder" >>= asList asNat
  let wo ← field j "worldOrder" >>= asList asNat
  let pix ← field j "pixels" >>= asList (asList asRat)
  match reordered w types po wo with
  | .error e => pure (errJson e)
  | .ok r =>
    pure <| Json.mkObj (wcsInfoJson r.wcs ++ [
      ("world", listJson (fun p => listJson symJson (r.wcs.p2w p)) pix),
      ("types", listJson Json.str r.worldTypes),
      ("pixelShape", optJson (listJson natJson) r.pixelShape)])

/-- members of a compound get distinct base ids so that terms say which member produced them -/
def asMemberWcs (k : Nat) (j : Json) : R (LLWcs (Nat × Sym)) := do
  let w ← asWcs j
  pure { pixDim := w.pixDim, worldDim := w.worldDim,
         p2w := fun q => (w.p2w q).map fun s => (k, s),
         w2p := fun _ => [], corr := w.corr, shape := w.shape }

def memberSymJson (s : Nat × Sym) : Json :=
  Json.mkObj [("member", natJson s.1), ("w", natJson s.2.1), ("at", listJson ratJson s.2.2)]

def opCompound (j : Json) : R Json := do
  let wsJ ← field j "members" >>= asArr
  let ws ← (wsJ.zipIdx).mapM fun (m, k) => asMemberWcs k m
  let mapping ← field j "mapping" >>= asList asNat
  let pix ← field j "pixels" >>= asList (asList asRat)
  -- members' pixel bounds (pixel order), when the request carries them: null or [[lo, hi], ...] per member
  let mb ← match optField j "bounds" with
    | none => pure none
    | some b => do
      let l ← asList (fun x => match x with
        | Json.null => pure none
        | y => (asList (fun pr => do
            let a ← asArr pr
            match a with
            | [lo, hi] => do pure ((← asRat lo), (← asRat hi))
            | _ => .error "expected [lo, hi]") y).map some) b
      pure (some l)
  let boundsBad := match mb with
    | some l => (match compoundBounds l (effectiveMapping ws mapping) with | .error _ => true | .ok _ => false)
    | none => false
  match compound ws mapping with
  | .error e => pure (errJson e)
  | .ok c =>
    if boundsBad then pure (errJson .valueError) else
    -- world_to_pixel assembly from the pixel values each member's inverse returned
    let memberPix ← match optField j "memberPixels" with
      | none => pure []
      | some mp => asList (asList asRat) mp
    let em := effectiveMapping ws mapping
    let back := memberPix.map fun flat =>
      if !sharedAgree em flat then errJson .valueError
      else listJson ratJson (selectIdx (mappingInverse em (nInputsOf em)) flat)
    let aapt ← match optField j "types" with
      | none => pure Json.null
      | some t => do
        let ts ← asList asStr t
        pure (listJson (listJson Json.str) (arrayAxisPhysicalTypes c.corr c.pixDim ts))
    pure <| Json.mkObj [("pixDim", natJson c.pixDim), ("worldDim", natJson c.worldDim),
      ("aapt", aapt),
      ("corr", listJson (listJson Json.bool) c.corr), ("arrayShape", optJson (listJson natJson) c.shape),
      ("world", listJson (fun p => listJson memberSymJson (c.p2w p)) pix),
      ("back", Json.arr back.toArray)]

def opTable (j : Json) : R Json := do
  let t ← field j "table" >>= asList asRat
  let xs ← field j "at" >>= asList asRat
  pure <| Json.mkObj [("values", listJson (optJson ratJson) (xs.map (interp1 t)))]

/-! ## unwrap_wcs_to_fitswcs (C15) -/

def asWrapper (j : Json) : R Wrapper :=
  match optField j "sliced" with
  | some a => (asList asItem a).map Wrapper.sliced
  | none =>
    match optField j "resampled" with
    | some r => do
      let f ← field r "factor" >>= asList asRat
      let o ← field r "offset" >>= asList asRat
      pure (.resampled f o)
    | none => pure .unknown

def opUnwrap (j : Json) : R Json := do
  -- a base that is not a FITS WCS carries no FITS description
  if (optField j "nonfits").isSome then
    let chain ← field j "chain" >>= asList asWrapper
    match unwrapAny none chain with
    | .error e => return errJson e
    | .ok _ => return Json.mkObj [("crpix", Json.null)]
  let crpix ← field j "crpix" >>= asList asRat
  let cdelt ← field j "cdelt" >>= asList asRat
  let pc ← field j "pc" >>= asList (asList asRat)
  let naxis ← field j "naxis" >>= asList asNat
  let chain ← field j "chain" >>= asList asWrapper
  let base : Fits := { crpix := crpix, cdelt := cdelt, pc := pc, naxis := naxis }
  match unwrap base chain with
  | .error e => pure (errJson e)
  | .ok (F, dropped) =>
    let m := (F.cdelt.zip F.pc).map fun (c, row) => row.map fun x => c * x
    pure <| Json.mkObj [("crpix", listJson ratJson F.crpix), ("matrix", listJson (listJson ratJson) m),
      ("naxis", listJson natJson F.naxis), ("dropped", listJson Json.bool dropped)]

/-! ## uncertainty propagation in rebin (C16) -/

def opUncert (j : Json) : R Json := do
  let shape ← field j "shape" >>= asList asNat
  let f ← field j "binShape" >>= asList asNat
  let data ← field j "data" >>= asList asVal
  let vars ← field j "variances" >>= asList asRat
  let mask ← match j.getObjVal? "mask" with
    | .ok m => asMaskIn m
    | .error _ => pure .absent
  let op ← field j "operation" >>= asStr >>= asReduction
  let ign ← field j "ignoresMask" >>= asBool
  let kindS ← field j "kind" >>= asStr
  let kind := match kindS with
    | "std" => UncertKind.std | "var" => .var | "unknown" => .unknown | _ => .absent
  let outcome := propOutcome kind mask ign
  let tag := match outcome with
    | .warnNoUncertainty => "warn-no-uncertainty" | .warnUnknown => "warn-unknown"
    | .warnAllMasked => "warn-all-masked" | .propagate => "propagate"
  let newShape := zipDiv shape f
  let flatShape := prodL f :: newShape
  let maskBit (i : Nat) : Bool := match mask with
    | .absent => false
    | .scalar b => b
    | .array bits => bits.getD i false
  let values : List (Option Rat) :=
    if outcome != .propagate || op == .prod || op == .min || op == .max then []
    else (allIndices newShape).map fun jx =>
      let ms := (List.range (prodL f)).map fun m =>
        let i := flatMember newShape f m jx
        ({ value := data.getD i .nan, variance := vars.getD i 0, masked := maskBit i } : Member)
      propagateAdd op ign ms
  pure <| Json.mkObj [("outcome", .str tag), ("flatShape", listJson natJson flatShape),
    ("variances", listJson (optJson ratJson) values)]

/-! ## axis_world_coords (C05) -/

def opWorldCoords (j : Json) : R Json := do
  let shape ← field j "shape" >>= asList asNat                 -- cube array shape
  let w ← field j "wcs" >>= asWcs
  let corners ← field j "corners" >>= asBool
  let mapping ← match optField j "mapping" with
    | none => pure none
    | some m => (asList asNat m).map some
  let probes ← field j "probes" >>= asList (asList (asList asNat))   -- per world axis: element indices
  let groups := splitMatrix w.corr w.pixDim
  let nd := shape.length
  let perWorld := (List.range w.worldDim).map fun i =>
    let axes := coordArrayAxes w.corr w.pixDim nd mapping i
    let shp := axes.map fun ax => shape.getD ax 0 + (if corners then 1 else 0)
    let elems := (probes.getD i []).map fun a =>
      symJson ((w.p2w (gridPixel w.corr w.pixDim groups corners i a)).getD i (i, []))
    Json.mkObj [("axes", listJson natJson axes), ("shape", listJson natJson shp), ("at", Json.arr elems.toArray)]
  let sel ← match optField j "axes" with
    | none => pure Json.null
    | some a => do
      let ints ← asList asInt a
      pure (exceptJson (listJson natJson) (worldIndicesInts w.corr w.pixDim w.worldDim nd mapping ints))
  pure <| Json.mkObj [("groups", listJson (fun (g : List Nat × List Nat) =>
      Json.arr #[listJson natJson g.1, listJson natJson g.2]) groups),
    ("world", Json.arr perWorld.toArray), ("selection", sel)]

/-! ## op `slice_chain` (C02, C03): extra-coords / global-coords bookkeeping over a history -/

structure ChainState where
  shape : List Nat
  w : LLWcs Sym
  names : List Nat                 -- base world axis of every current world axis
  wcsDropped : List (Nat × Sym)
  ec : ExtraCoordsM
  gc : GlobalCoordsM

def chainSlice (st : ChainState) (items : List Item) : Except Err ChainState := do
  let its ← normItems st.shape items
  let axes ← applyAxes st.shape its
  let w' ← slicedWcs st.w its
  let wk := worldKeep st.w.corr st.w.worldDim (pixelKeep its.reverse)
  let dr := (droppedWorld st.w its).map fun (p : Nat × Sym) => (st.names.getD p.1 0, p.2)
  pure { st with shape := resultShape axes, w := w', names := selectIdx wk st.names,
                 wcsDropped := st.wcsDropped ++ dr, ec := st.ec.getitem its }

def chainStep (st : ChainState) (j : Json) : R (ChainState × Json) := do
  match optField j "items" with
  | some its => do
    let items ← asList asItem its
    match chainSlice st items with
    | .ok st' => pure (st', Json.mkObj [("ok", Json.bool true)])
    | .error e => pure (st, errJson e)
  | none =>
    match optField j "add" with
    | some nm => do
      let name ← asStr nm
      let ptype ← field j "ptype" >>= asStr
      let valid ← field j "valid" >>= asBool
      match st.gc.add name ptype (fun _ => valid) with
      | .ok g => pure ({ st with gc := g }, Json.mkObj [("ok", Json.bool true)])
      | .error e => pure (st, errJson e)
    | none => do
      let name ← field j "remove" >>= asStr
      match st.gc.remove name with
      | .ok g => pure ({ st with gc := g }, Json.mkObj [("ok", Json.bool true)])
      | .error e => pure (st, errJson e)

def opSliceChain (j : Json) : R Json := do
  let shape ← field j "shape" >>= asList asNat
  let w ← field j "wcs" >>= asWcs
  let luts ← field j "luts" >>= asList fun l => do
    let axes ← field l "axes" >>= asList asNat
    let id ← field l "id" >>= asNat
    let sep ← field l "sep" >>= asBool
    pure ({ axes := axes, id := id, comps := List.range axes.length, sep := sep } : Lut)
  let steps ← field j "steps" >>= asArr
  let init : ChainState := { shape := shape, w := w, names := List.range w.worldDim, wcsDropped := [],
                             ec := { luts := luts, dropped := [] }, gc := { internal := [] } }
  let (st, outs) ← steps.foldlM (fun (acc : ChainState × List Json) s => do
      let (st', o) ← chainStep acc.1 s
      pure (st', acc.2 ++ [o])) (init, [])
  pure <| Json.mkObj [
    ("steps", Json.arr outs.toArray),
    ("shape", listJson natJson st.shape),
    ("luts", listJson (fun (l : Lut) => Json.mkObj [("axes", listJson natJson l.axes), ("id", natJson l.id),
        ("comps", listJson natJson l.comps)]) st.ec.luts),
    ("ecDropped", listJson natJson st.ec.dropped),
    ("ecDroppedComps", listJson (fun (p : Nat × Nat) => Json.arr #[natJson p.1, natJson p.2]) st.ec.droppedComps),
    ("mapping", listJson natJson (st.ec.mapping st.shape.length)),
    ("worldKeep", listJson natJson st.names),
    ("wcsDropped", listJson (fun (p : Nat × Sym) =>
        Json.mkObj [("axis", natJson p.1), ("value", symJson p.2)]) st.wcsDropped),
    ("internal", listJson (fun (p : String × String) => Json.arr #[.str p.1, .str p.2]) st.gc.internal)]

/-! ## ops `crop` / `crop_item` (C04, C18) -/

def asOptRat (j : Json) : R (Option Rat) :=
  match j with
  | .null => pure none
  | _ => (asRat j).map some

def affineWcs (A : List (List Rat)) (b : List Rat) (Ainv : List (List Rat)) (pixDim : Nat)
    (corr : List (List Bool)) : LLWcs Rat :=
  { pixDim := pixDim, worldDim := A.length
    p2w := fun q => List.zipWith (· + ·) (A.map fun row => dot row q) b
    w2p := fun wv => Ainv.map fun row => dot row (List.zipWith (· - ·) wv b)
    corr := corr, shape := none }

def opCrop (j : Json) : R Json := do
  let A ← field j "A" >>= asList (asList asRat)
  let b ← field j "b" >>= asList asRat
  let Ainv ← field j "Ainv" >>= asList (asList asRat)
  let pixDim ← field j "pixDim" >>= asNat
  let corr ← field j "corr" >>= asList (asList asBool)
  let points ← field j "points" >>= asList (asList asOptRat)
  let keepdims ← field j "keepdims" >>= asBool
  let shape ← field j "shape" >>= asList asNat
  let w := affineWcs A b Ainv pixDim corr
  pure <| Json.mkObj [("item", exceptJson (listJson itemJson) (cropPoints w shape points keepdims))]

def opCropItem (j : Json) : R Json := do
  let per ← field j "per" >>= asList (asList asInt)
  let keepdims ← field j "keepdims" >>= asBool
  let shape ← field j "shape" >>= asList asNat
  pure <| Json.mkObj [("item", exceptJson (listJson itemJson) (cropItem shape per keepdims))]

def opSeqCrop (j : Json) : R Json := do
  let ndim ← field j "ndim" >>= asNat
  let shapes ← field j "shapes" >>= asList (asList asNat)
  let items ← field j "items" >>= asList (asList asItem)
  pure <| Json.mkObj [("item", listJson itemJson (seqCropItem ndim shapes items))]

/-! ## ops `seq_coords` / `seq_axis` (C17) -/

def opSeqCoords (j : Json) : R Json := do
  let lens ← field j "lens" >>= asList asNat
  let axes ← field j "axes" >>= asList (asList asNat)
  let ca ← field j "ca" >>= asNat
  let coords : Nat → CoordArr (Nat × List Nat) := fun c =>
    { axes := axes.getD c [], val := fun ix => (c, ix) }
  -- each entry evaluated on the symbolic remaining index [1000, 1001, ...] shows where it reads from
  let ents := commonAxisCoords lens coords ca
  let probe (c : Nat) : List Nat := (List.range ((axes.getD c []).length - 1)).map (· + 1000)
  pure <| Json.mkObj [("count", natJson ents.length),
    ("entries", Json.arr ((List.range ents.length).map fun k =>
      match locate lens k, ents[k]? with
      | some (s, _), some f =>
        let r := f (probe s)
        Json.mkObj [("cube", natJson r.1), ("index", listJson natJson r.2)]
      | _, _ => Json.null).toArray)]

def opSeqAxis (j : Json) : R Json := do
  let gcs ← field j "gcs" >>= asList (asList fun p => do
    let a ← asArr p
    match a with
    | [n, v] => do pure ((← asStr n), (← asNat v))
    | _ => .error "expected [name, id]")
  pure <| Json.mkObj [("coords", listJson (fun (p : String × List (Option Nat)) =>
    Json.arr #[.str p.1, listJson (optJson natJson) p.2]) (seqAxisCoords gcs))]

/-! ## op `table_coord` (C19) -/

def opTableCoord (j : Json) : R Json := do
  let tables ← field j "tables" >>= asList (asList asRat)
  let pix ← field j "pix" >>= asList (asList asRat)
  let inv ← field j "inv" >>= asList (asList asRat)
  let slices ← field j "slices" >>= asList fun x => do
    let a ← asArr x
    match a with
    | [s, e] => do pure ((← asOptInt s), (← asOptInt e))
    | _ => .error "expected [start, stop]"
  let grids ← field j "grids" >>= asList (asList asRat)
  let sliced := List.zipWith (fun t (se : Option Int × Option Int) => sliceTable t se.1 se.2) tables slices
  -- chains of slices of meshed SkyCoord components: [{"n": length, "items": [[s, e], ...]}, ...]
  let asSE := fun (x : Json) => do
    let a ← asArr x
    match a with
    | [s, e] => do pure ((← asOptInt s), (← asOptInt e))
    | _ => .error "expected [start, stop]"
  let chains ← match optField j "meshChains" with
    | none => pure []
    | some v => asList (fun c => do
        let n ← field c "n" >>= asNat
        let items ← field c "items" >>= asList asSE
        pure (meshChain n items)) v
  pure <| Json.mkObj [
    ("values", listJson (fun p => listJson (optJson ratJson) (joinedP2W tables p)) pix),
    ("inv", Json.arr (List.zipWith (fun t ys => listJson (optJson ratJson) (ys.map (invTable t))) tables inv).toArray),
    ("sliced", listJson (listJson ratJson) sliced),
    ("meshChains", listJson (fun (p : Nat × Nat) => Json.arr #[natJson p.1, natJson p.2]) chains),
    ("interpolated", Json.arr (List.zipWith (fun t g => listJson (optJson ratJson) (interpolateTable t g)) tables grids).toArray)]

/-! ## op `arith` (C10) -/

def asUnitM (j : Json) : R UnitM := do
  let dim ← field j "dim" >>= asList asInt
  let scale ← field j "scale" >>= asRat
  pure { dim := dim, scale := scale }

def unitJson (u : UnitM) : Json := Json.mkObj [("dim", listJson intJson (trimDims u.dim)), ("scale", ratJson u.scale)]

def asOperand (j : Json) : R Operand :=
  match j with
  | .str "nddata" => pure .nddata
  | _ =>
    match optField j "num" with
    | some x => (asRat x).map Operand.num
    | none =>
      match optField j "arr" with
      | some v => (asList asRat v).map Operand.arr
      | none => do
        let v ← field j "q" >>= asList asRat
        let u ← field j "unit" >>= asUnitM
        pure (.quantity v u)

def arithStep (c : ACube) (j : Json) : R (Except Err ACube) := do
  let op ← field j "op" >>= asStr
  match op with
  | "neg" => pure (.ok c.neg)
  | "to" => do
    let u ← field j "unit" >>= asUnitM
    pure (c.to u)
  | "pow" => do
    let k ← field j "exp" >>= asInt
    pure (.ok (c.pow k))
  | _ => do
    let v ← field j "operand" >>= asOperand
    match op with
    | "add" | "radd" => pure (c.add v)
    | "sub" => pure (c.sub v)
    | "rsub" => pure (c.rsub v)
    | "mul" | "rmul" => pure (c.mul v)
    | "div" => pure (c.div v)
    | "rdiv" => pure (c.rdiv v)
    | _ => .error s!"unknown arithmetic op {op}"

def opArith (j : Json) : R Json := do
  let data ← field j "data" >>= asList asRat
  let unit ← match optField j "unit" with
    | none | some .null => pure none
    | some u => (asUnitM u).map some
  let unc ← match optField j "unc" with
    | none | some .null => pure none
    | some u => do
      let k ← field u "kind" >>= asStr
      let a ← field u "arr" >>= asList asRat
      let kind ← match k with
        | "std" => pure UncKind.std | "var" => pure UncKind.var | "ivar" => pure UncKind.ivar
        | _ => pure UncKind.unknown
      pure (some (kind, a))
  let ops ← field j "ops" >>= asArr
  let c0 : ACube := { data := data, unit := unit, unc := unc,
                      rest := { wcs := 0, extraCoords := 0, globalCoords := 0, mask := none, metaId := 0 } }
  let rec go (c : ACube) (k : Nat) : List Json → R Json
    | [] => pure <| Json.mkObj [("data", listJson ratJson c.data), ("unit", optJson unitJson c.unit),
        ("unc", optJson (fun (p : UncKind × List Rat) => listJson ratJson p.2) c.unc)]
    | o :: os => do
      match ← arithStep c o with
      | .ok c' => go c' (k + 1) os
      | .error e => pure <| Json.mkObj [("err", .str e.name), ("at", natJson k)]
  go c0 0 ops

/-! ## op `reproject` (C20) -/

def opReproject (j : Json) : R Json := do
  let algoS ← field j "algo" >>= asStr
  let algo := match algoS with
    | "interpolation" => Algo.interpolation | "adaptive" => Algo.adaptive | "exact" => Algo.exact | _ => Algo.unknown
  let srcTypes ← field j "srcTypes" >>= asList asStr
  let tgtTypes ← field j "tgtTypes" >>= asList asStr
  let pd ← field j "tgtPixDim" >>= asNat
  let wd ← field j "tgtWorldDim" >>= asNat
  let cel ← field j "tgtCelestialOnly" >>= asBool
  let optShape (k : String) : R (Option (List Nat)) := match optField j k with
    | none | some .null => pure none
    | some s => (asList asNat s).map some
  let shapeOut ← optShape "shapeOut"
  let tgtShape ← optShape "tgtArrayShape"
  let r : ReprojReq := { algo := algo, srcTypes := srcTypes, tgtTypes := tgtTypes, tgtPixDim := pd, tgtWorldDim := wd,
                         tgtCelestialOnly := cel, shapeOut := shapeOut, tgtArrayShape := tgtShape,
                         unit := 1, metaId := 2, globalCoords := 3, tgtWcs := 4 }
  let decision := match reprojectDecide r with
    | .ok res => Json.mkObj [("shape", listJson natJson res.shape), ("carries", Json.arr #[natJson res.wcs, natJson res.unit, natJson res.metaId, natJson res.globalCoords])]
    | .error e => errJson e
  -- values on a grid shifted by whole pixels (source value = row-major index)
  match optField j "shift" with
  | none | some .null => pure <| Json.mkObj [("decision", decision)]
  | some sh => do
    let s ← asList asInt sh
    let shape ← field j "srcShape" >>= asList asNat
    let probes ← field j "probes" >>= asList (asList asNat)
    let src : List Nat → Rat := fun ix => ((ravel shape ix : Nat) : Rat)
    pure <| Json.mkObj [("decision", decision),
      ("values", listJson (fun p => optJson ratJson (reprojShift shape src s p)) probes)]

/-! ## op `frame` (C07) -/

def asOpKind (s : String) : R OpKind :=
  match s with
  | "slice" => pure .slice | "arithmetic" => pure .arithmetic | "rebin" => pure .rebin
  | "reproject" => pure .reproject | "query" => pure .query
  | _ => .error s!"unknown op kind {s}"

def opFrame (j : Json) : R Json := do
  let steps ← field j "steps" >>= asList fun s =>
    match optField s "derive" with
    | some d => do
      let src ← asNat d
      let k ← field s "kind" >>= asStr >>= asOpKind
      pure (Step.derive src k)
    | none => do
      let o ← field s "write" >>= asNat
      pure (Step.write o 999983)
  let h0 := Heap.init (fun a => 100 + a)
  let (_, outs) := steps.foldl (fun (acc : Heap × List Json) st =>
      let h := acc.1
      let h' := h.step st
      let changed := (List.range h.objs.length).filter fun i => h'.observe i != h.observe i
      let sharing := match st with
        | .derive _ k => listJson Json.bool (payloads.map (shares k))
        | .write _ _ => Json.null
      (h', acc.2 ++ [Json.mkObj [("changed", listJson natJson changed), ("shares", sharing)]])) (h0, [])
  pure <| Json.mkObj [("steps", Json.arr outs.toArray)]

def dispatch (j : Json) : R Json := do
  let op ← field j "op" >>= asStr
  match op with
  | "getitem" => opGetitem j
  | "seq_getitem" => opSeqGetitem j
  | "seq_explode" => opSeqExplode j
  | "iac" => opIac j
  | "seq_shape" => opSeqShape j
  | "collection" => opCollection j
  | "rebin" => opRebin j
  | "resampled" => opResampled j
  | "rebin_coords" => opRebinCoords j
  | "reordered" => opReordered j
  | "compound" => opCompound j
  | "table" => opTable j
  | "unwrap" => opUnwrap j
  | "uncert" => opUncert j
  | "world_coords" => opWorldCoords j
  | "slice_chain" => opSliceChain j
  | "crop" => opCrop j
  | "crop_item" => opCropItem j
  | "seq_crop" => opSeqCrop j
  | "table_coord" => opTableCoord j
  | "arith" => opArith j
  | "reproject" => opReproject j
  | "frame" => opFrame j
  | "seq_coords" => opSeqCoords j
  | "seq_axis" => opSeqAxis j
  | _ => .error s!"unknown op {op}"

def handleLine (line : String) : String :=
  match Json.parse line with
  | .error e => (Json.mkObj [("driverError", .str s!"parse: {e}")]).compress
  | .ok j =>
    let idv := (j.getObjVal? "id").toOption.getD .null
    match dispatch j with
    | .ok out => (out.setObjVal! "id" idv).compress
    | .error e => (Json.mkObj [("driverError", .str e), ("id", idv)]).compress

partial def loop (h : IO.FS.Stream) (out : IO.FS.Stream) : IO Unit := do
  let line ← h.getLine
  if line.isEmpty then return ()
  let t := line.trimAscii.toString
  if t.isEmpty then loop h out else
  out.putStrLn (handleLine t)
  loop h out

def main : IO Unit := do
  let i ← IO.getStdin
  let o ← IO.getStdout
  loop i o
  o.flush

end Ndcube.Driver
