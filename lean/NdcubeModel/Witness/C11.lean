import NdcubeModel.Props.C11

/-! Non-vacuity for C11. -/
namespace Ndcube.C11.Witness
open Ndcube

def s : Seq := { shapes := [[2, 3, 4], [3, 3, 4], [1, 3, 4]], commonAxis := some 1 }

def caOf : Except Err SeqResult → Option (Option Nat)
  | .ok (.seq _ ca) => some ca
  | _ => none

def cubesOf : Except Err SeqResult → List Nat
  | .ok (.seq ps _) => ps.map (·.1)
  | .ok (.cube k _) => [k]
  | _ => []

-- `seq[:, ..., 0]`: the Ellipsis stands for two cube axes, the last axis is dropped, common axis 1 stays
example : caOf (s.getitem (.tuple [Item.all, .ellipsis, .int 0])) = some (some 1) := by decide
-- `seq[::-1, 0]`: axis 0 dropped in front of the common axis
example : caOf (s.getitem (.tuple [.slice none none (some (-1)), .int 0])) = some (some 0) := by decide
example : cubesOf (s.getitem (.tuple [.slice none none (some (-1)), .int 0])) = [2, 1, 0] := by decide
-- common axis itself dropped
example : caOf (s.getitem (.tuple [Item.all, Item.all, .int 1])) = some none := by decide
-- ragged explode along the first axis: 2 + 3 + 1 pieces
example : (cubesOf (s.explode 0)) = [0, 0, 1, 1, 1, 2] := by decide
example : countEllipsis [Item.all, .ellipsis, .int 0] = 1 := by decide

-- shape of a ragged sequence whose first and last cubes have equal lengths (seed C11-d): the tuple of all
-- lengths, and the cube-like length is their sum
example : ({ shapes := [[2, 3], [4, 3], [2, 3]], commonAxis := some 0 } : Seq).shape = [.int 3, .ragged [2, 4, 2], .int 3] ∧
    (({ shapes := [[2, 3], [4, 3], [2, 3]], commonAxis := some 0 } : Seq).cubeLikeShape).toOption = some [8, 3] ∧
    ({ shapes := [[2, 3], [2, 3]], commonAxis := some 0 } : Seq).shape = [.int 2, .int 2, .int 3] := by decide

end Ndcube.C11.Witness
