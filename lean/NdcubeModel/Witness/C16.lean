import NdcubeModel.Props.C16

/-! Non-vacuity for C16: a block of four members with a masked one and a NaN in first position. -/
namespace Ndcube.C16.Witness
open Ndcube

def ms : List Member :=
  [⟨.nan, 4, false⟩, ⟨.num 1, 9, false⟩, ⟨.num 2, 16, true⟩, ⟨.num 3, 25, false⟩]

example : ms ≠ [] := by decide
-- sums: mask honoured, the NaN counts for `sum` (variance 4 + 9 + 25) but not for `nansum` (9 + 25) …
example : propagateAdd .sum false ms = some 38 ∧ propagateAdd .nansum false ms = some 34 := by decide +kernel
-- … wherever it sits, the first position included (seed C16-e put it first with a mask array)
example : (contributing .nansum false ms).map (·.variance) = [9, 25] := by decide +kernel
-- the operation declared to ignore the mask: every member contributes
example : propagateAdd .sum true ms = some 54 := by decide +kernel
-- means: divided by the square of the number of contributing members (3 for mean, 2 for nanmean)
example : isMeanOp .mean = true ∧ (contributing .mean false ms).length = 3 ∧
    propagateAdd .mean false ms = some (38 / 9) ∧ propagateAdd .nanmean false ms = some (34 / 4) := by decide +kernel
-- nothing contributes (a block of a cube that is NaN throughout, seed C16-i): the empty combination, 0
def allNan : List Member := [⟨.nan, 4, false⟩, ⟨.nan, 9, false⟩]
example : allNan ≠ [] ∧ (∀ m ∈ allNan, excluded .nansum false m = true) ∧
    propagateAdd .nansum false allNan = some 0 ∧ propagateAdd .nanmean true allNan = some 0 := by decide +kernel
-- flattening: the six members of block (1, 0) of a (4, 6) array binned by (2, 3), in the order of the first axis
example : (List.range (prodL [2, 3])).map (fun m => flatMember (zipDiv [4, 6] [2, 3]) [2, 3] m [1, 0])
    = [12, 13, 14, 18, 19, 20] := by decide +kernel
example : nonDivisor [4, 6] [2, 3] = false ∧ [1, 0] ∈ allIndices (zipDiv [4, 6] [2, 3]) := by decide +kernel
-- warning branches
example : propOutcome .std (.scalar true) false = .warnAllMasked ∧ propOutcome .std (.scalar true) true = .propagate ∧
    propOutcome .var (.array [true, true]) false = .warnAllMasked ∧ propOutcome .var (.array [true, false]) false = .propagate := by
  decide

end Ndcube.C16.Witness
