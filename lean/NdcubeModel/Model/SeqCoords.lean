import NdcubeModel.Model.Sequence

/-!
# `NDCubeSequence.common_axis_coords` and `sequence_axis_coords`

A coordinate array of a cube is a function of the multi-index over the array axes it spans
(ascending, C05).  `common_axis_coords` finds, per cube and coordinate, the position of the
common axis among those axes (`np.where(mapping == common_axis)[0][0]`), and lists
`coord[..., i, ...]` for every `i`, cube after cube.
-/

namespace Ndcube

structure CoordArr (β : Type) where
  axes : List Nat            -- array axes the coordinate spans, ascending
  val  : List Nat → β        -- value at a multi-index over `axes`

/-- `np.where(np.array(mapping) == common_axis)[0][0]` -/
def axisPos (axes : List Nat) (ca : Nat) : Nat := axes.idxOf ca

/-- the full multi-index obtained by putting `l` at position `pos` of the remaining indices -/
def insertAt (pos l : Nat) (rest : List Nat) : List Nat := rest.take pos ++ l :: rest.drop pos

/-- `coord[item]` with `item[axis] = l` and full slices elsewhere -/
def explodeAt {β} (c : CoordArr β) (ca l : Nat) : List Nat → β :=
  fun rest => c.val (insertAt (axisPos c.axes ca) l rest)

/-- one coordinate of `common_axis_coords`: `lens` are the cubes' lengths along the common
axis, `coords j` is that coordinate of cube `j`. -/
def commonAxisCoords {β} (lens : List Nat) (coords : Nat → CoordArr β) (ca : Nat) : List (List Nat → β) :=
  (List.range lens.length).flatMap fun j => (List.range (lens.getD j 0)).map fun l => explodeAt (coords j) ca l

/-! ## `sequence_axis_coords` -/

def gcLookup {V} (g : List (String × V)) (name : String) : Option V := (g.find? (·.1 == name)).map (·.2)

/-- names present on every cube (in the order of the first cube; Python returns a dict) mapped
to the per-cube values in sequence order -/
def seqAxisCoords {V} (gcs : List (List (String × V))) : List (String × List (Option V)) :=
  match gcs with
  | [] => []
  | g :: rest =>
    ((g.map (·.1)).filter fun name => rest.all fun g' => (gcLookup g' name).isSome).map fun name =>
      (name, gcs.map fun g' => gcLookup g' name)

end Ndcube
