"""C18 — sequence crop applies one common box that contains every cube's own crop."""
import random
import numpy as np
import astropy.units as u
from astropy.wcs.wcsapi import HighLevelWCSWrapper

import common as C
import wcsfam as W
import ecs as E
from core import err_kind
from props.C04 import groups_of, nearest, item_json

ID = "C18"
MODEL_OP = "seq_crop (_get_sequence_crop_item)"
RULE = ("sequences of 1-4 cubes of 1-3 dims (lengths 5-8) whose WCS (probe separable / coupled, FITS separable / celestial / "
        "rotated, gWCS) are identical or shifted by whole pixels relative to one another, optionally with Quantity / Time "
        "extra coords (tables shifted by whole pixels between cubes when cropping by extra_coords / combined_wcs), one WCS object shared by all cubes or one each; 1-4 points given as pixel positions of the first cube (None per independent group, boxes one element "
        "wide included); both forms; wcses in {None, 'wcs', 'combined_wcs', 'extra_coords', explicit list}. "
        "Non-trivial = at least one supplied coordinate; distinct = whole case")
TRUSTED = ["each cube's own box is computed from the generating pixel positions and the known shift, never through the inverse transform",
           "numpy indexing of the cubes' data (reference for seq[:, box])"]
ASSUMPTIONS = ["points lie on every cube of the sequence (positions at least one pixel inside where cubes are shifted, shifts of at most one pixel; first / last pixel only along unshifted axes)",
               "on the exact probe family the shifted offsets are no longer exact; positions stay at least 0.025 pixel away from pixel edges",
               "positions keep 1/8 pixel away from pixel edges"]
FAMILIES = ["probe", "probe_coupled", "fits_sep", "fits_cel", "fits_rot", "gwcs"]


def corpus():
    return C.read_corpus(ID)


def generate(rng, tier):
    n = 300 if tier == "quick" else 25000
    for _ in range(n):
        nd = rng.choice([1, 2, 2, 3])
        shape = [rng.randint(5, 8) for _ in range(nd)]
        fam = rng.choice(FAMILIES)
        which = rng.choice(["wcs", "wcs", "default", "list", "extra_coords", "combined_wcs"])
        ncubes = rng.choice([1, 2, 3, 4])
        form = rng.choice(["values", "objects"])
        ec_shift = which == "extra_coords" or (which == "combined_wcs" and fam != "gwcs")
        ecs = []
        if which in ("extra_coords", "combined_wcs") or rng.random() < 0.2:
            for _ in range(rng.choice([1, 1, 2])):
                # a Time table's world *values* are seconds since its own first entry, so one value names different
                # instants in differently shifted cubes: shifted Time tables are cropped by objects only
                kinds = ["quantity"] if ec_shift and form == "values" else ["quantity", "time"]
                ecs.append({"kind": rng.choice(kinds), "axes": [rng.randrange(nd)]})
        can_shift = fam != "gwcs" and which in ("wcs", "default", "list")
        # whole-pixel and sub-pixel shifts (0.15 / 0.3 / 0.45 never put an eighth-pixel position on a pixel edge):
        # with sub-pixel shifts the cubes' own boxes differ in extent, not only in position
        shifts = [[0] * nd] + [[rng.choice([-1, 0, 0, 1, 0.3, -0.3, 0.15, 0.45, -0.45]) if can_shift else 0 for _ in range(nd)]
                                for _ in range(ncubes - 1)]
        if ec_shift:
            # whole-pixel shifts of the extra-coordinate tables (and, for the combined wcs, of the primary WCS with them)
            shifts = [[0] * nd] + [[rng.choice([-1, 0, 1]) for _ in range(nd)] for _ in range(ncubes - 1)]
        # one WCS object held by every cube (only where the primary WCS is not shifted)
        share = rng.random() < 0.4 and (which == "extra_coords" or not any(any(s) for s in shifts))
        pts = []
        for _ in range(rng.choice([1, 2, 2, 3, 4])):
            # a table gives no value beyond its first / last entry: shifted tables need one more pixel of margin
            pix = [(rng.randint(2, s - 3) if ec_shift else rng.randint(1, s - 2)) + rng.choice([0, 0.25, -0.25, 0.375, -0.375]) for s in shape]
            if rng.random() < 0.3 and pts:
                pix = [pts[0]["pix"][a] if rng.random() < 0.7 else x for a, x in enumerate(pix)]   # one-element-wide boxes
            pts.append({"pix": pix, "none_bits": rng.choice([0, 0, 0, 1, 2, 3])})
        # on axes along which no cube is shifted a point may sit in the first / last pixel: the common box then
        # starts at 0 or reaches the end of the array
        for a in range(nd):
            if all(sh[a] == 0 for sh in shifts) and rng.random() < 0.35:
                p = rng.choice(pts)
                p["pix"][a] = rng.choice([0 + rng.choice([0, 0.25]), shape[a] - 1 - rng.choice([0, 0.25])])
        if not ec_shift and ncubes >= 2 and rng.random() < 0.1:
            # targeted: identical cubes and a box that runs to the end of every axis but does not start at 0
            shifts = [[0] * nd for _ in range(ncubes)]
            if len(pts) < 2:
                pts.append({"pix": list(pts[0]["pix"]), "none_bits": pts[0]["none_bits"]})
            for a in range(nd):
                pts[0]["pix"][a] = shape[a] - 1 - rng.choice([0, 0.25])
                for p in pts[1:]:
                    p["pix"][a] = max(p["pix"][a], 1)
        yield {"shape": shape, "fam": fam, "wseed": rng.randrange(10**6), "ecs": ecs, "which": which, "shifts": shifts,
               "points": pts, "form": form, "share_wcs": share}
    # systematic: short 1-D and 2-D FITS cubes whose grids differ by one whole pixel - the world values of such
    # axes are tiny in SI units (wavelengths in metres), so "the same grid up to a default tolerance" is wrong
    for fam in ("fits_sep", "fits_cel", "fits_rot"):
        for nd in (1, 2):
            for s, ax in ((1, 0), (-1, 0), (1, nd - 1), (-1, nd - 1)):
                for which in ("wcs", "default"):
                    shape = [8] * nd
                    yield {"shape": shape, "fam": fam, "wseed": 5 * rng.randrange(10**5) + 1, "ecs": [], "which": which,
                           "shifts": [[0] * nd, [s if a == ax else 0 for a in range(nd)]],
                           "points": [{"pix": [3.25] * nd, "none_bits": 0}, {"pix": [4.625] * nd, "none_bits": 0}],
                           "form": rng.choice(["values", "objects"]), "share_wcs": False}


def build(case):
    from ndcube import NDCubeSequence
    cubes = []
    nd = len(case["shape"])
    shift_primary = case["which"] != "extra_coords"
    shift_ecs = case["which"] in ("extra_coords", "combined_wcs")
    shared = None
    for k, sh in enumerate(case["shifts"]):
        cube = E.build_cube(case["shape"], case["fam"], case["wseed"], [], with_shape={0: False, 1: "larger", 2: "smaller"}.get(case["wseed"] % 8, True))
        if case.get("share_wcs"):
            shared = shared if shared is not None else cube.wcs
            cube = type(cube)(C.payload(tuple(case["shape"]), k), wcs=shared, meta={"cube": k})
        else:
            cube = type(cube)(C.payload(tuple(case["shape"]), k), wcs=cube.wcs, meta={"cube": k})
        ll = W.low_level(cube.wcs)
        spix = np.array(sh[::-1], dtype=float)            # pixel order
        if hasattr(ll, "_wcs") and hasattr(ll, "_slices_pixel"):
            ll = ll._wcs          # (a cube reached by range slicing: move the origin of the wrapped WCS)
        if case["wseed"] % 5 == 2 and isinstance(ll, W.ProbeWCS) and not case.get("share_wcs"):
            # world values far from zero (exact in doubles): a one-pixel shift between the cubes is then a tiny
            # relative difference of their world positions, and still another grid
            ll.b = ll.b + 2.0 ** 26
        if any(sh) and shift_primary and not case.get("share_wcs"):
            if isinstance(ll, W.ProbeWCS):
                ll.b = ll.b - ll.A @ spix                    # world(p) of cube k = world0(p - s)
            else:
                ll.wcs.crpix = ll.wcs.crpix + spix
                ll.wcs.set()
        E.add_ecs(cube, case["ecs"], list(case["shape"]), ishift=[int(x) for x in sh] if shift_ecs else None)
        cubes.append(cube)
    return NDCubeSequence(cubes), cubes


def run(case):
    tags = [f"ndim={len(case['shape'])}", f"fam={case['fam']}", f"which={case['which']}", f"ncubes={len(case['shifts'])}",
            f"form={case['form']}", "shared-wcs-object" if case.get("share_wcs") else "own-wcs-objects", "shifted" if any(any(s) for s in case["shifts"]) else "aligned"] + (["sub-pixel-shift"] if any(x != int(x) for s in case["shifts"] for x in s) else [])
    res = {"tags": tags, "oracle": None, "impl": {"err": None}, "model_req": None}
    fails = []
    seq, cubes = build(case)
    nd = len(case["shape"])
    shape = tuple(case["shape"])
    which = case["which"]
    c0 = cubes[0]
    if which == "extra_coords":
        w = c0.extra_coords.wcs
        ll = w.low_level_wcs if hasattr(w, "low_level_wcs") else w
        pixmap = [int(m) for m in c0.extra_coords.mapping]
    elif which == "combined_wcs":
        ll = c0.combined_wcs.low_level_wcs
        pixmap = list(range(nd))
    else:
        ll = c0.wcs.low_level_wcs
        pixmap = list(range(nd))
    corr_ll = np.asarray(ll.axis_correlation_matrix, dtype=bool)
    corr_cube = np.zeros((ll.world_n_dim, nd), dtype=bool)
    for k in range(ll.pixel_n_dim):
        corr_cube[:, pixmap[k]] |= corr_ll[:, k]
    groups = groups_of(corr_cube)
    nw = ll.world_n_dim
    units = [str(x) for x in ll.world_axis_units]
    # per cube, per axis index lists
    per = [[[] for _ in range(nd)] for _ in cubes]
    none_world, val_points = [], []
    for p in case["points"]:
        pix_cube = p["pix"][::-1]
        world = W.p2w(ll, [pix_cube[m] for m in pixmap])
        isnone = [False] * nw
        for g, (ws, ps) in enumerate(groups):
            if (p["none_bits"] >> (g % 8)) & 1:
                for i in ws:
                    isnone[i] = True
        for g, (ws, ps) in enumerate(groups):
            if not isnone[ws[0]]:
                for k in ps:
                    a = nd - 1 - k
                    for c, sh in enumerate(case["shifts"]):
                        per[c][a].append(nearest(pix_cube[k] + sh[a]))
        none_world.append(isnone)
        val_points.append(world)
    any_input = any(not all(m) for m in none_world)
    if any_input:
        res["nontrivial"] = repr(sorted(case.items(), key=str))
    if any(len(set(per[0][a])) == 1 for a in range(nd) if per[0][a]):
        tags.append("one-element-wide")
    if any(not per[0][a] for a in range(nd)) and any_input:
        tags.append("whole-axis")
    box = []
    for a in range(nd):
        if not per[0][a]:
            box.append(slice(None))
        else:
            box.append(slice(min(min(per[c][a]) for c in range(len(cubes))), max(max(per[c][a]) + 1 for c in range(len(cubes)))))
    # ---- points in the requested form
    if case["form"] == "values":
        def as_value(v, un):
            q = v * u.Unit(un)
            if case["wseed"] % 3 == 2:
                # the classes astropy builds on Quantity are accepted like Quantities: an Angle for an angle, a
                # SpectralCoord for a wavelength - also when it is given as a frequency (FITS families: not exact anyway)
                from astropy.coordinates import Angle, SpectralCoord
                if q.unit.physical_type == "angle":
                    q = Angle(q).to(u.arcmin)
                elif q.unit.physical_type == "length" and q.value > 0:
                    q = SpectralCoord(q)
                    if case["fam"].startswith("fits") and case["which"] in ("wcs", "default", "list"):
                        # (FITS families only: a lookup-table WCS gives no value one ulp beyond its last entry, where a
                        #  wavelength can land after the round trip through a frequency)
                        q = q.to(u.THz)
            return q
        pts = [[None if m else as_value(v, un) for v, m, un in zip(world, isnone, units)] for world, isnone in zip(val_points, none_world)]
    else:
        hl = HighLevelWCSWrapper(ll)
        comps = [c[0] for c in ll.world_axis_object_components]
        keys = []
        for c in comps:
            if c not in keys:
                keys.append(c)
        pts = []
        for p, isnone in zip(case["points"], none_world):
            pix_cube = p["pix"][::-1]
            objs = hl.pixel_to_world(*[pix_cube[m] for m in pixmap])
            objs = list(objs) if isinstance(objs, (list, tuple)) else [objs]
            if len(objs) != len(keys):
                return res
            pts.append([None if all(isnone[i] for i in range(nw) if comps[i] == k) else o for k, o in zip(keys, objs)])
    kw = {}
    if which == "list":
        kw["wcses"] = [c.wcs for c in cubes]
    elif which != "default":
        # the name once for all cubes, or (every second case) spelled out as a list with one name per cube
        kw["wcses"] = which if case["wseed"] % 2 else [which] * len(cubes)
    frozen = C.freeze([kw.get("wcses") if not isinstance(kw.get("wcses"), list) else [w if isinstance(w, str) else id(w) for w in kw["wcses"]],
                       [[repr(o) for o in p_] for p_ in pts]])
    try:
        if case["form"] == "values":
            out = seq.crop_by_values(*pts, **kw)
            item = seq._get_sequence_crop_item(*pts, crop_by_values=True, **kw)
        else:
            out = seq.crop(*pts, **kw)
            item = seq._get_sequence_crop_item(*pts, crop_by_values=False, **kw)
    except Exception as e:
        res["impl"]["err"] = err_kind(e)
        res["oracle"] = f"valid points raised {type(e).__name__}: {str(e)[:140]}"
        return res
    if C.freeze([kw.get("wcses") if not isinstance(kw.get("wcses"), list) else [w if isinstance(w, str) else id(w) for w in kw["wcses"]],
                 [[repr(o) for o in p_] for p_ in pts]]) != frozen:
        fails.append("the crop edited the points / wcses the caller passed in")
    if len(out.data) != len(cubes):
        fails.append(f"the sequence axis changed: {len(out.data)} cubes of {len(cubes)}")
    else:
        shapes_out = set()
        for k, (oc, c) in enumerate(zip(out.data, cubes)):
            want = np.asarray(c.data)[tuple(box)]
            got = np.asarray(oc.data)
            shapes_out.add(got.shape)
            if got.shape != want.shape or not np.array_equal(got, want):
                fails.append(f"cube {k}: result shape {got.shape} first {got.flat[0] if got.size else None}; the common box {item_json(box)} "
                             f"gives shape {want.shape} first {want.flat[0] if want.size else None}")
                break
            # every cube keeps its own region
            _, src = C.decode(got, shape)
            for a in range(nd):
                for i in per[k][a]:
                    if got.size and i not in set(np.unique(src[a]).tolist()):
                        fails.append(f"cube {k} lost its own index {i} on axis {a}")
        if len(shapes_out) > 1:
            fails.append(f"cubes end with different shapes {shapes_out}")
        if not fails:
            # ... and every cropped cube still reports, element by element, the coordinates of its source cube
            exact = case["fam"].startswith("probe") and not any(x != int(x) for sh in case["shifts"] for x in sh)
            for oc in out.data:
                lock = C.world_lockstep(oc, cubes, random.Random(case["wseed"]), exact, limit=4)
                if lock:
                    fails.append(lock)
                    break
    res["obs"] = {"item": item_json(item)}
    own = []
    for c, cube in enumerate(cubes):
        wc = {"wcs": cube.wcs if which == "list" else (getattr(cube, which) if which not in ("default", "list") else cube.wcs)}
        try:
            it = (cube._get_crop_by_values_item(*pts, keepdims=True, **wc) if case["form"] == "values"
                  else cube._get_crop_item(*pts, keepdims=True, **wc))
            own.append(item_json(it))
        except Exception as e:
            own = None
            break
    if own is not None:
        res["model_req"] = {"op": "seq_crop", "ndim": nd, "shapes": [list(shape)] * len(cubes), "items": own}
    if fails:
        res["oracle"] = "; ".join(fails[:2])
    return res


def compare(case, r, m):
    if "obs" not in r:
        return None
    if r["obs"]["item"] != m["item"]:
        return f"sequence item: implementation {r['obs']['item']} vs model {m['item']}"
    return None


def signature(case, failure):
    return "other:" + failure[:60]


def shrink(case):
    if len(case["shifts"]) > 1:
        for i in range(1, len(case["shifts"])):
            yield {**case, "shifts": case["shifts"][:i] + case["shifts"][i + 1:]}
    pts = case["points"]
    if len(pts) > 1:
        for i in range(len(pts)):
            yield {**case, "points": pts[:i] + pts[i + 1:]}
    for i, p in enumerate(pts):
        if p["none_bits"]:
            yield {**case, "points": pts[:i] + [{**p, "none_bits": 0}] + pts[i + 1:]}
