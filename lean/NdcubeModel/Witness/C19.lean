import NdcubeModel.Props.C19

/-! Non-vacuity for C19. -/
namespace Ndcube.C19.Witness
open Ndcube

def t0 : List Rat := [1, 3, 4, 10]

example : interp1 t0 2 = some 4 ∧ interp1 t0 (5/2) = some 7 ∧ interp1 t0 3 = some 10 ∧
    interp1 t0 (13/4) = none ∧ interp1 t0 (-1/4) = none := by decide +kernel
example : t0.Pairwise (· < ·) := by decide +kernel
example : inv1 t0 4 = some 2 ∧ inv1 t0 7 = some (5/2) ∧ inv1 t0 11 = none := by decide +kernel
example : sliceTable t0 (some 1) (some (-1)) = [3, 4] ∧ (sliceBounds t0.length (some 1) (some (-1))).1 = 1 := by
  decide +kernel
example : interp1 (sliceTable t0 (some 1) (some (-1))) (1/2) = interp1 t0 (3/2) := by decide +kernel
example : interp1 [5] 0 = some 5 ∧ interp1 [5] 1 = none ∧ interp1 [5] (-1) = none := by decide +kernel
example : resampleGrid (1/2) 6 2 = [1/2, 5/2, 9/2] := by decide +kernel
example : joinedP2W [t0, [0, 10]] [1, 1/2] = [some 3, some 5] := by decide +kernel
-- the lazily composed slice of a meshed table: coord[-3:][-2:] on 8 entries keeps [6, 8)
example : meshChain 8 [(some (-3), none), (some (-2), none)] = (6, 8) ∧
    lazyComponent [0, 1, 3, 6, 10, 15, 21, (28 : Rat)] (meshChain 8 [(some 1, some 7), (some 1, some 3)]) = [3, 6] ∧
    meshChain 8 [(some 2, some 5), (none, some (-1))] = (2, 4) := by decide +kernel

end Ndcube.C19.Witness
