import NdcubeModel.Model.Wcs

/-!
# NDCube and `NDCube.__getitem__`

An N-d array is a function from multi-indices to values together with its shape, so a
result of indexing is *defined* by the element map `srcIndex`; the agreement of that map
with Python's list slicing is proved separately (`Props/C01.lean`).
-/

namespace Ndcube

/-- The mask of an `NDData`: absent, a scalar boolean, or an array. -/
inductive Mask where
  | absent
  | scalar (b : Bool)
  | array (m : List Nat → Bool)

structure Cube (α ω : Type) where
  shape : List Nat
  data  : List Nat → α
  mask  : Mask
  /-- uncertainty array (if any) -/
  uncert : Option (List Nat → α)
  wcs   : LLWcs ω
  /-- slices array (array order) when `wcs` is already a `SlicedLowLevelWCS` of `wcsBase` -/
  metaId : Nat

/-- `cube[item]` for a cube whose WCS is not itself a sliced WCS. -/
def Cube.getitem {α ω} (c : Cube α ω) (items : List Item) : Except Err (Cube α ω) := do
  let its ← normItems c.shape items
  let axes ← applyAxes c.shape its
  let w ← slicedWcs c.wcs its
  pure { shape := resultShape axes
         data := fun r => c.data (srcIndex axes r)
         mask := match c.mask with
           | .absent => .absent
           | .scalar b => .scalar b
           | .array m => .array fun r => m (srcIndex axes r)
         uncert := c.uncert.map fun u => fun r => u (srcIndex axes r)
         wcs := w
         metaId := c.metaId }

end Ndcube
