from common import *
from ndcube.extra_coords.table_coord import *
q = QuantityTableCoordinate([1,3,7,8]*u.m, names="d", physical_types="pos.distance")
w = q.wcs
tryit("p2w ints", lambda: w.pixel_to_world_values(np.arange(4)))
tryit("p2w frac", lambda: w.pixel_to_world_values(np.array([0.5,1.25,2.5])))
tryit("p2w outside", lambda: w.pixel_to_world_values(np.array([-0.2,-1,3.2,4])))
tryit("w2p", lambda: w.world_to_pixel_values(np.array([1,3,7,8,5])))
tryit("meta", lambda: (w.world_axis_names, w.world_axis_physical_types, w.world_axis_units))
q1 = QuantityTableCoordinate([5]*u.m)
tryit("len1 p2w", lambda: q1.wcs.pixel_to_world_values(np.array([0, 0.4, 0.5,-0.5, 1])))
tryit("len1 w2p", lambda: q1.wcs.world_to_pixel_values(np.array([5.,4.])))
qp = QuantityTableCoordinate([1,3,7,8]*u.pix)
tryit("pix unit wcs", lambda: qp.wcs.pixel_to_world_values(1))
t = TimeTableCoordinate(Time("2000-01-01")+[0,2,3]*u.s)
tryit("time p2w", lambda: t.wcs.pixel_to_world_values(np.array([0,1,1.5,2])))
sc = SkyCoordTableCoordinate(SkyCoord([0,1,3]*u.deg,[10,11,13]*u.deg), mesh=True)
tryit("sc mesh p2w", lambda: sc.wcs.pixel_to_world_values(np.array([0,1,2]),np.array([2,1,0])))
sc2 = SkyCoordTableCoordinate(SkyCoord([0,1,3]*u.deg,[10,11,13]*u.deg), mesh=False)
tryit("sc nomesh p2w", lambda: sc2.wcs.pixel_to_world_values(np.array([0,1,1.5])))
m = q & t
tryit("join p2w", lambda: m.wcs.pixel_to_world_values(np.array([0,1]),np.array([1,2])))
tryit("join interpolate", lambda: m.interpolate(np.array([0,1.5])))
tryit("q interp", lambda: q.interpolate(np.array([0,1.5,3])).table)
tryit("q slice", lambda: q[1:3].table)
tryit("sc mesh slice", lambda: sc[1:, 0:2].wcs.pixel_to_world_values(0,0))
tryit("sc orig after slice", lambda: sc.wcs.pixel_to_world_values(0,0))
import gwcs.coordinate_frames as cf
f = t.frame
print([a for a in dir(f) if 'world' in a or 'axis' in a or 'axes' in a])
tryit("frame woc", lambda: (f.world_axis_object_components, f.world_axis_object_classes))
tryit("ctoq", lambda: [a for a in dir(f) if 'quantity' in a or 'to_' in a or 'from_' in a])
