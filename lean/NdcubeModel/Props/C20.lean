import NdcubeModel.Model.Reproject

/-!
# C20 — reprojection regrids values onto the target WCS and refuses ill-posed requests
-/

namespace Ndcube.C20
open Ndcube

/-- **Refusals**: an unknown algorithm, adaptive / exact with a target that is not 2-D or not
celestial-only, different physical types (or a different order), and no available output shape. -/
theorem refusals (r : ReprojReq) :
    (r.algo = .unknown → reprojectDecide r = .error .valueError) ∧
    ((r.algo = .adaptive ∨ r.algo = .exact) → (r.tgtPixDim ≠ 2 ∨ r.tgtWorldDim ≠ 2 ∨ r.tgtCelestialOnly = false) →
      reprojectDecide r = .error .valueError) ∧
    (r.srcTypes ≠ r.tgtTypes → reprojectDecide r = .error .valueError) ∧
    ((r.shapeOut = none ∨ r.shapeOut = some []) → r.tgtArrayShape = none → reprojectDecide r = .error .valueError) := by
  refine ⟨?_, ?_, ?_, ?_⟩
  · intro h; simp [reprojectDecide, h]
  · intro ha hb
    simp only [reprojectDecide]
    by_cases hu : r.algo = .unknown
    · simp [hu]
    · rw [if_neg hu]
      by_cases hd : r.tgtPixDim ≠ 2 ∨ r.tgtWorldDim ≠ 2
      · rw [if_pos ⟨ha, hd⟩]
      · rw [if_neg (fun h => hd h.2)]
        have hc : r.tgtCelestialOnly = false := by
          rcases hb with h | h | h
          · exact absurd (Or.inl h) hd
          · exact absurd (Or.inr h) hd
          · exact h
        rw [if_pos ⟨ha, hc⟩]
  · intro h
    simp only [reprojectDecide]
    split
    · rfl
    · split
      · rfl
      · split
        · rfl
        · simp [h]
  · intro hs ht
    simp only [reprojectDecide]
    split
    · rfl
    · split
      · rfl
      · split
        · rfl
        · split
          · rfl
          · rcases hs with h | h <;> simp [h, ht]

/-- **What an accepted request returns**: the target WCS, the requested output shape (numpy
order, exactly as given) or else the target's own array shape, and the source's unit, meta and
global coords. -/
theorem accepted (r : ReprojReq) (res : ReprojRes) (h : reprojectDecide r = .ok res) :
    res.wcs = r.tgtWcs ∧ res.unit = r.unit ∧ res.metaId = r.metaId ∧ res.globalCoords = r.globalCoords ∧
    (∀ s, r.shapeOut = some s → s ≠ [] → res.shape = s) ∧
    ((r.shapeOut = none ∨ r.shapeOut = some []) → r.tgtArrayShape = some res.shape) ∧
    r.srcTypes = r.tgtTypes := by
  simp only [reprojectDecide] at h
  split at h
  · cases h
  · split at h
    · cases h
    · split at h
      · cases h
      · split at h
        · cases h
        · next hty =>
          have hty' : r.srcTypes = r.tgtTypes := by
            by_cases hq : r.srcTypes = r.tgtTypes
            · exact hq
            · exact absurd hq hty
          split at h
          · cases h
          · next s hs =>
            cases h
            refine ⟨rfl, rfl, rfl, rfl, ?_, ?_, hty'⟩
            · intro s' hs' hne
              simp only [hs', hne, if_false, Option.some.injEq] at hs
              exact hs.symm
            · intro hno
              rcases hno with h | h <;> simp only [h, if_true] at hs <;> exact hs

/-- **Exact at whole-pixel positions**: order-1 interpolation at an integer position inside the
array is the sample there — any dimensionality, any shape. -/
theorem interp_at_integer (shape : List Nat) (f : List Nat → Rat) (idx : List Nat)
    (hl : idx.length = shape.length) (hin : ∀ k, k < shape.length → idx.getD k 0 < shape.getD k 0) :
    interpND shape f (idx.map fun (i : Nat) => (i : Rat)) = some (f idx) := by
  induction shape generalizing f idx with
  | nil =>
    cases idx with
    | nil => rfl
    | cons a as => simp at hl
  | cons n ns ih =>
    cases idx with
    | nil => simp at hl
    | cons i is =>
      have hi : i < n := by simpa using hin 0 (by simp)
      have h0 : ¬ ((i : Rat) < 0 ∨ (n : Rat) - 1 < (i : Rat)) := by
        have h1 : (0 : Rat) ≤ (i : Rat) := by exact_mod_cast Nat.zero_le i
        have h2 : ((i + 1 : Nat) : Rat) ≤ (n : Rat) := by exact_mod_cast hi
        push_cast at h2
        intro h; rcases h with h | h <;> grind
      have hfl : ((i : Rat)).floor.toNat = i := by
        have h : ((i : Nat) : Rat) = (((i : Int)) : Rat) := by norm_cast
        rw [h, Rat.floor_intCast]; simp
      simp only [List.map_cons, interpND, h0, if_false, hfl, if_true]
      exact ih (fun r => f (i :: r)) is (by simpa using hl) (by
        intro k hk
        have := hin (k + 1) (by simpa using hk)
        simpa using this)

/-- **No value without coverage**: if any coordinate lies before pixel 0 or beyond the last
pixel of its axis, there is no value (and the footprint is 0). -/
theorem interp_outside (shape : List Nat) (f : List Nat → Rat) (x : List Rat) (hl : x.length = shape.length)
    (k : Nat) (hk : k < shape.length) (hout : x.getD k 0 < 0 ∨ ((shape.getD k 0 : Nat) : Rat) - 1 < x.getD k 0) :
    interpND shape f x = none := by
  induction shape generalizing f x k with
  | nil => simp at hk
  | cons n ns ih =>
    cases x with
    | nil => simp at hl
    | cons a as =>
      cases k with
      | zero =>
        have : a < 0 ∨ (n : Rat) - 1 < a := by simpa using hout
        simp [interpND, this]
      | succ k =>
        have hk' : k < ns.length := by simpa using hk
        have hout' : as.getD k 0 < 0 ∨ ((ns.getD k 0 : Nat) : Rat) - 1 < as.getD k 0 := by simpa using hout
        have hl' : as.length = ns.length := by simpa using hl
        simp only [interpND]
        split
        · rfl
        · split
          · exact ih _ as hl' k hk' hout'
          · rw [ih _ as hl' k hk' hout']

/-- **A target shifted by whole pixels**: target pixel `j` holds the source's value at `j + s`
exactly when that pixel exists, and nothing otherwise. -/
theorem shifted_grid (shape : List Nat) (src : List Nat → Rat) (s : List Int) (j idx : List Nat)
    (hj : j.length = shape.length) (hs : s.length = shape.length) (hidx : idx.length = shape.length)
    (hsum : ∀ k, k < shape.length → ((idx.getD k 0 : Nat) : Int) = (j.getD k 0 : Int) + s.getD k 0)
    (hin : ∀ k, k < shape.length → idx.getD k 0 < shape.getD k 0) :
    reprojShift shape src s j = some (src idx) := by
  have hmap : (List.zipWith (fun (a : Nat) (b : Int) => ((a : Int) + b : Int)) j s |>.map fun (z : Int) => (z : Rat))
      = idx.map fun (i : Nat) => (i : Rat) := by
    apply List.ext_getElem?
    intro k
    simp only [List.getElem?_map, List.getElem?_zipWith]
    by_cases hk : k < shape.length
    · have h1 : k < j.length := by omega
      have h2 : k < s.length := by omega
      have h3 : k < idx.length := by omega
      have := hsum k hk
      simp only [List.getD, List.getElem?_eq_getElem h1, List.getElem?_eq_getElem h2, List.getElem?_eq_getElem h3,
        Option.getD_some] at this
      simp only [List.getElem?_eq_getElem h1, List.getElem?_eq_getElem h2, List.getElem?_eq_getElem h3,
        Option.map_some, Option.bind_some, Option.some.injEq]
      rw [← this]; norm_cast
    · have h1 : j[k]? = none := List.getElem?_eq_none (by omega)
      have h3 : idx[k]? = none := List.getElem?_eq_none (by omega)
      simp [h1, h3]
  simp only [reprojShift, hmap]
  exact interp_at_integer shape src idx hidx hin

end Ndcube.C20
