import NdcubeModel.Model.Py

/-!
# NDCube arithmetic and unit conversion

Mirrors `NDCube.__add__ / __radd__ / __sub__ / __rsub__ / __mul__ / __rmul__ / __truediv__ /
__neg__ / __pow__ (integer exponents) / to` (ndcube/ndcube.py, after the `fix:` commit on
uncertainty scaling).  A unit is a dimension vector with a positive scale to the base units;
data are exact rationals, a flat row-major list; array operands broadcast along trailing axes.
-/

namespace Ndcube

structure UnitM where
  dim : List Int
  scale : Rat
deriving Repr, DecidableEq

def UnitM.one : UnitM := { dim := [], scale := 1 }

def addDims : List Int → List Int → List Int
  | [], b => b
  | a, [] => a
  | a :: as, b :: bs => (a + b) :: addDims as bs

def trimDims (d : List Int) : List Int := (d.reverse.dropWhile (· == 0)).reverse

def UnitM.mul (a b : UnitM) : UnitM := { dim := trimDims (addDims a.dim b.dim), scale := a.scale * b.scale }
def UnitM.sameDim (a b : UnitM) : Bool := trimDims a.dim == trimDims b.dim
def UnitM.dimensionless (a : UnitM) : Bool := trimDims a.dim == []

inductive UncKind where | std | var | ivar | unknown
deriving Repr, DecidableEq

/-- everything of a cube that is not its data, unit or uncertainty: carried over untouched -/
structure Carried where
  wcs : Nat
  extraCoords : Nat
  globalCoords : Nat
  mask : Option (List Bool)
  metaId : Nat
deriving Repr, DecidableEq

structure ACube where
  data : List Rat
  unit : Option UnitM
  unc : Option (UncKind × List Rat)
  rest : Carried
deriving Repr, DecidableEq

inductive Operand where
  | num (x : Rat)                          -- a bare Python number
  | arr (v : List Rat)                     -- a bare array, broadcast along trailing axes
  | quantity (v : List Rat) (unit : UnitM) -- a Quantity (scalar = one entry)
  | nddata                                 -- another cube / NDData
deriving Repr

/-- broadcasting a trailing-axes operand against `n` row-major elements -/
def bcast (v : List Rat) (n : Nat) : List Rat := (List.range n).map fun i => v.getD (i % v.length) 0

def zipOp (f : Rat → Rat → Rat) (a b : List Rat) : List Rat := List.zipWith f a b

def cubeUnit (c : ACube) : UnitM := c.unit.getD UnitM.one

/-- a bare number can be added only to a cube without unit or with the dimensionless unit -/
def unitlessOK (c : ACube) : Bool :=
  match c.unit with
  | none => true
  | some u => u.dimensionless && u.scale == 1

def ACube.neg (c : ACube) : ACube := { c with data := c.data.map (- ·) }

/-- `cube + value` (also `value + cube`) -/
def ACube.add (c : ACube) : Operand → Except Err ACube
  | .quantity v uq =>
    if uq.sameDim (cubeUnit c) then
      -- value.to_value(cube_unit)
      .ok { c with data := zipOp (· + ·) c.data (bcast (v.map (· * (uq.scale / (cubeUnit c).scale))) c.data.length) }
    else .error .unitsError
  | .nddata => .error .typeError
  | .num x =>
    if unitlessOK c then
      .ok { c with data := c.data.map (· + x) }
    else .error .typeError
  | .arr v =>
    if unitlessOK c then
      .ok { c with data := zipOp (· + ·) c.data (bcast v c.data.length) }
    else .error .typeError

def Operand.neg : Operand → Operand
  | .num x => .num (-x)
  | .arr v => .arr (v.map (- ·))
  | .quantity v u => .quantity (v.map (- ·)) u
  | .nddata => .nddata

def ACube.sub (c : ACube) (v : Operand) : Except Err ACube := c.add v.neg
def ACube.rsub (c : ACube) (v : Operand) : Except Err ACube := c.neg.add v

def uncFactor (k : UncKind) (x : Rat) : Rat :=
  match k with
  | .std => if x < 0 then -x else x
  | .var => x * x
  | .ivar => 1 / (x * x)
  | .unknown => x

def scaleUnc (unc : Option (UncKind × List Rat)) (f : List Rat) : Option (UncKind × List Rat) :=
  unc.map fun (k, a) => (k, zipOp (· * ·) a (f.map (uncFactor k)))

/-- `cube * value` (also `value * cube`) -/
def ACube.mul (c : ACube) : Operand → Except Err ACube
  | .quantity v uq =>
    let f := bcast v c.data.length
    .ok { c with data := zipOp (· * ·) c.data f, unit := some ((cubeUnit c).mul uq), unc := scaleUnc c.unc f }
  | .nddata => .error .typeError
  | .num x =>
    let f := List.replicate c.data.length x
    .ok { c with data := c.data.map (· * x), unc := scaleUnc c.unc f }
  | .arr v =>
    let f := bcast v c.data.length
    .ok { c with data := zipOp (· * ·) c.data f, unc := scaleUnc c.unc f }

def UnitM.inv (u : UnitM) : UnitM := { dim := u.dim.map (- ·), scale := 1 / u.scale }

def Operand.recip : Operand → Operand
  | .num x => .num (1 / x)
  | .arr v => .arr (v.map (1 / ·))
  | .quantity v u => .quantity (v.map (1 / ·)) u.inv
  | .nddata => .nddata

/-- `cube / value` = `cube * (1 / value)` -/
def ACube.div (c : ACube) (v : Operand) : Except Err ACube := c.mul v.recip

/-- `cube.to(new_unit)`: `self * (self.unit.to(new_unit) * new_unit / self.unit)` -/
def ACube.to (c : ACube) (new : UnitM) : Except Err ACube :=
  match c.unit with
  | none => .error .attributeError
  | some u =>
    if u.sameDim new then
      let factor := u.scale / new.scale
      .ok { c with data := c.data.map (· * factor), unit := some new,
                   unc := scaleUnc c.unc (List.replicate c.data.length factor) }
    else .error .unitsError

/-- `unit ** k` for an integer `k`: every exponent times `k`, the scale to the power `k` -/
def UnitM.pow (u : UnitM) (k : Int) : UnitM := { dim := trimDims (u.dim.map (· * k)), scale := u.scale ^ k }

/-- `cube ** k` for an integer `k`: `data ** k`, `unit ** k` (a cube without unit stays without).  The
uncertainty of a power is astropy's `propagate(np.power, …)`: not modelled, so the model carries none on. -/
def ACube.pow (c : ACube) (k : Int) : ACube :=
  { c with data := c.data.map (· ^ k), unit := c.unit.map (·.pow k), unc := none }

/-- `value / cube` = `(cube ** -1) * value` -/
def ACube.rdiv (c : ACube) (v : Operand) : Except Err ACube := (c.pow (-1)).mul v

/-- physical values in base units -/
def ACube.phys (c : ACube) : List Rat := c.data.map (· * (cubeUnit c).scale)

end Ndcube
