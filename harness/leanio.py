"""Lean side of a check run: build, forbidden-token grep, axiom audit, model driver."""
import fcntl, json, os, re, subprocess, time

ROOT = os.path.dirname(os.path.dirname(os.path.abspath(__file__)))
LEAN = os.path.join(ROOT, "lean")
ALLOWED_AXIOMS = {"propext", "Classical.choice", "Quot.sound"}
FORBIDDEN = re.compile(r"\b(sorry|admit|native_decide|bv_decide|implemented_by|unsafe)\b|^\s*axiom\s|maxHeartbeats\s+0\b")


def _strip_comments(src):
    """Remove /- ... -/ (nested) and -- comments from Lean source."""
    out, i, depth = [], 0, 0
    while i < len(src):
        if src.startswith("/-", i):
            depth += 1; i += 2; continue
        if depth and src.startswith("-/", i):
            depth -= 1; i += 2; continue
        if depth:
            if src[i] == "\n":
                out.append("\n")
            i += 1; continue
        if src.startswith("--", i):
            j = src.find("\n", i)
            i = len(src) if j < 0 else j
            continue
        out.append(src[i]); i += 1
    return "".join(out)


def lean_sources():
    res = []
    for d, _, fs in os.walk(LEAN):
        if ".lake" in d:
            continue
        for f in fs:
            if f.endswith(".lean"):
                res.append(os.path.join(d, f))
    return sorted(res)


def grep_forbidden():
    hits = []
    for p in lean_sources():
        for n, line in enumerate(_strip_comments(open(p).read()).splitlines(), 1):
            if FORBIDDEN.search(line):
                hits.append(f"{os.path.relpath(p, ROOT)}:{n}: {line.strip()}")
    return hits


class _Lock:
    def __enter__(self):
        self.f = open(os.path.join(LEAN, ".build.lock"), "w")
        fcntl.flock(self.f, fcntl.LOCK_EX)
    def __exit__(self, *a):
        fcntl.flock(self.f, fcntl.LOCK_UN); self.f.close()


def build(timeout=1500):
    """`lake build` of the whole library (kernel re-checks every theorem unless nothing changed).
    Returns (ok, log)."""
    with _Lock():
        p = subprocess.run(["lake", "build"], cwd=LEAN, capture_output=True, text=True, timeout=timeout)
    return p.returncode == 0, (p.stdout + p.stderr)[-6000:]


def theorems_of(prop_id):
    """Names of the theorems in Props/<id>.lean (fully qualified) and the number of witness
    examples in Witness/<id>.lean."""
    names = []
    p = os.path.join(LEAN, "NdcubeModel", "Props", f"{prop_id}.lean")
    if os.path.exists(p):
        src = _strip_comments(open(p).read())
        ns = re.search(r"^namespace\s+(\S+)", src, re.M)
        prefix = ns.group(1) + "." if ns else ""
        names = [prefix + m for m in re.findall(r"^(?:private\s+)?theorem\s+([^\s:({\[]+)", src, re.M)]
    wit = 0
    p = os.path.join(LEAN, "NdcubeModel", "Witness", f"{prop_id}.lean")
    if os.path.exists(p):
        wit = len(re.findall(r"^(?:example|theorem)\b", _strip_comments(open(p).read()), re.M))
    return names, wit


def audit(prop_id, timeout=600):
    """`#print axioms` for every theorem of Props/<id>.lean.  Returns dict name -> list of axioms
    (or None when the theorem could not be found / elaborated)."""
    names, wit = theorems_of(prop_id)
    if not names:
        return {}, wit, "no theorems"
    path = os.path.join(LEAN, f".audit-{prop_id}-{os.getpid()}.lean")
    mods = [f"NdcubeModel.Props.{prop_id}"]
    if os.path.exists(os.path.join(LEAN, "NdcubeModel", "Witness", f"{prop_id}.lean")):
        mods.append(f"NdcubeModel.Witness.{prop_id}")
    with open(path, "w") as f:
        for m in mods:
            f.write(f"import {m}\n")
        for n in names:
            f.write(f"#print axioms {n}\n")
    try:
        p = subprocess.run(["lake", "env", "lean", path], cwd=LEAN, capture_output=True, text=True, timeout=timeout)
    finally:
        os.unlink(path)
    out = p.stdout + p.stderr
    res = {n: None for n in names}
    for m in re.finditer(r"'([^']+)' depends on axioms: \[([^\]]*)\]", out):
        res[m.group(1)] = [a.strip() for a in m.group(2).replace("\n", " ").split(",") if a.strip()]
    for m in re.finditer(r"'([^']+)' does not depend on any axioms", out):
        res[m.group(1)] = []
    return res, wit, out[-3000:]


def leanchecker(prop_id, timeout=1500):
    mods = [f"NdcubeModel.Props.{prop_id}"]
    p = subprocess.run(["lake", "env", "leanchecker"] + mods, cwd=LEAN, capture_output=True, text=True, timeout=timeout)
    return p.returncode == 0, (p.stdout + p.stderr)[-2000:]


def driver(requests, timeout=1200):
    """Run the model's executable definitions on the given requests (list of dicts); returns the
    list of response dicts in order."""
    if not requests:
        return []
    inp = "\n".join(json.dumps(r, separators=(",", ":")) for r in requests) + "\n"
    p = subprocess.run(["lake", "env", "lean", "--run", "Main.lean"], cwd=LEAN, input=inp,
                       capture_output=True, text=True, timeout=timeout)
    if p.returncode != 0:
        raise RuntimeError("model driver failed: " + (p.stderr or p.stdout)[-2000:])
    lines = [l for l in p.stdout.splitlines() if l.strip()]
    if len(lines) != len(requests):
        raise RuntimeError(f"model driver returned {len(lines)} lines for {len(requests)} requests: {p.stderr[-1000:]}")
    return [json.loads(l) for l in lines]
