"""C07 — deriving a new object never changes the one it was derived from."""
import json, random
import numpy as np
import astropy.units as u
from astropy.nddata import StdDevUncertainty, VarianceUncertainty, UnknownUncertainty

import common as C
import wcsfam as W
import ecs as E
from core import err_kind

ID = "C07"
MODEL_OP = "frame (which payloads a result shares with its source; which objects a step may change)"
RULE = ("roots: a cube (1-4 dims; probe / FITS separable, celestial, rotated / RA-DEC / gWCS; mask absent / array / array that masks nothing; uncertainty "
        "absent / StdDev / Variance / Unknown; unit; Quantity, Time, 1-D / meshed / 2-D SkyCoord extra coords; optionally already "
        "sliced or rebinned), a sequence of 2-3 cubes with a common axis, or a collection of 2 aligned cubes; histories of up to 6 "
        "operations, each applied to any object made so far: slice, crop, rebin (with uncertainty propagation), + - * / ** unary -, "
        "to, squeeze, explode, reproject, unwrap_wcs_to_fitswcs, sequence slicing / index_as_cube / explode, collection slicing / key "
        "selection / copy, and read-only queries asked twice; after an arithmetic step the result's data are overwritten. Every "
        "object made so far is re-observed after every step. Non-trivial = at least 2 steps; distinct = whole case")
TRUSTED = ["the snapshot (bytes of data / mask / uncertainty, unit, meta, world coordinates of sampled elements under wcs and extra "
           "coords, global coords, keys / mapping, common axis, aligned axes) is what 'observable' means"]
ASSUMPTIONS = ["writes by the user are made only into the data of arithmetic results (numpy views returned by slicing share memory by design)",
               "operations that a given object cannot perform (e.g. crop on a WCS without inverse) are skipped, not counted"]
FAMILIES = ["probe", "probe_coupled", "fits_sep", "fits_cel", "fits_rot", "fits_cd", "fits_cd", "radec", "gwcs"]


def corpus():
    return C.read_corpus(ID)


def generate(rng, tier):
    n = 700 if tier == "quick" else 12000
    for _ in range(n):
        root = rng.choice(["cube", "cube", "cube", "seq", "coll"])
        nd = rng.choice([1, 2, 2, 3, 3, 4]) if root == "cube" else rng.choice([2, 3])
        shape = [rng.choice([1, 2, 3, 4, 4]) for _ in range(nd)]
        if all(s == 1 for s in shape):
            shape[0] = 3
        fam = rng.choice(FAMILIES)
        if fam == "radec" and nd < 2:
            fam = "fits_sep"
        ecs, shape = E.gen_layout(rng, nd, shape, n_ecs=rng.choice([0, 1, 1, 2]), allow_wcs=False)
        yield {"root": root, "shape": shape, "fam": fam, "wseed": rng.randrange(10**6), "ecs": ecs,
               "mask": rng.choice([False, False, True, True, "allfalse"]), "unc": rng.choice([None, "std", "std", "var", "unknown"]),
               "unit": rng.choice([None, "ct", "ct"]), "pre": rng.choice([None, None, "slice", "rebin"]),
               "nsteps": rng.choice([2, 3, 4, 5, 6, 6]), "seed": rng.randrange(10**6), "nans": rng.random() < 0.3}
    # systematic: cubes whose mask is an array without a single True, with NaNs in the data and an uncertainty -
    # the combination in which an operation that fills in a mask of its own is tempted to write into the caller's
    for i in range(40 if tier == "quick" else 600):
        nd = rng.choice([1, 2, 2, 3])
        shape = [rng.choice([2, 3, 4, 4]) for _ in range(nd)]
        yield {"root": "cube", "shape": shape, "fam": rng.choice([f for f in FAMILIES if f != "radec"]), "wseed": rng.randrange(10**6),
               "ecs": [], "mask": "allfalse", "unc": ["std", "var"][i % 2], "unit": rng.choice([None, "ct"]), "pre": None,
               "nsteps": 6, "seed": rng.randrange(10**6), "nans": True}


# ------------------------------------------------------------------ construction
def make_cube(case, k=0, shape=None):
    from ndcube import NDCube
    shape = list(shape or case["shape"])
    rng = random.Random(case["wseed"])
    if case["fam"] == "radec":
        from props.C20 import make_wcs
        order = ["RA", "DEC"] + ["WAVE", "TIME"][:len(shape) - 2]
        wcs = make_wcs(order, shape, case["wseed"] % 1000)
    else:
        wcs = W.make_wcs(rng, tuple(shape), case["fam"], True)
    n = int(np.prod(shape))
    unc = {None: None, "std": StdDevUncertainty, "var": VarianceUncertainty, "unknown": UnknownUncertainty}[case["unc"]]
    payload = C.payload(tuple(shape), k) + 1.0
    if case.get("nans") and n > 2:
        payload.flat[1::5] = np.nan          # not the first element of the array, several blocks
    cube = NDCube(payload, wcs=wcs, unit=case["unit"],
                  mask=np.zeros(shape, dtype=bool) if case["mask"] == "allfalse" else ((np.arange(n).reshape(shape) % 3 == 0) if case["mask"] else None),
                  uncertainty=None if unc is None else unc((np.arange(n, dtype=float).reshape(shape) % 4 + 1) * 0.5),
                  meta={"cube": k, "nested": {"a": [1, 2]}})
    E.add_ecs(cube, case["ecs"], shape, voff=50.0 * k)
    cube.global_coords.add("user", "custom:user", (k + 1) * u.kg)
    return cube


def make_root(case):
    from ndcube import NDCubeSequence, NDCollection
    if case["root"] == "cube":
        cube = make_cube(case)
        if case["pre"] == "slice" and cube.data.shape[0] > 1:
            cube = cube[1:]
        elif case["pre"] == "rebin":
            bins = [2 if s % 2 == 0 else 1 for s in cube.data.shape]
            if any(b > 1 for b in bins) and not any(e["kind"] in ("quantity2", "quantity3", "sky2mesh", "sky2d") for e in case["ecs"]):
                cube = cube.rebin(bins)
        return cube
    if case["root"] == "seq":
        cubes = [make_cube(case, k) for k in range(2 + case["seed"] % 2)]
        return NDCubeSequence(cubes, common_axis=0, meta={"seq": 1})
    a, b = make_cube(case, 0), make_cube(case, 1)
    return NDCollection([("a", a), ("b", b)], aligned_axes=(0,), meta={"coll": 1})


# ------------------------------------------------------------------ snapshots
def fl(x):
    return [repr(float(v)) for v in np.asarray(x, dtype=float).ravel()]


def snap_cube(c):
    data = np.asarray(C.materialize(c.data))
    s = {"shape": list(data.shape), "data": data.tobytes().hex(), "unit": str(c.unit),
         "mask": None if c.mask is None else np.asarray(c.mask).tobytes().hex(),
         "unc": None if c.uncertainty is None else [type(c.uncertainty).__name__, np.asarray(c.uncertainty.array).tobytes().hex()],
         "meta": json.dumps(c.meta, sort_keys=True, default=repr)}
    # the coordinate holders must stay attached to this very cube (a derived cube that takes them
    # over silently changes what later calls on the source do)
    s["links"] = [getattr(c.extra_coords, "_ndcube", c) is c, getattr(c.global_coords, "_ndcube", c) is c]
    els = C.all_indices(data.shape, 6, random.Random(0)) if data.size else []
    ll = c.wcs.low_level_wcs
    try:
        s["world"] = [fl(W.p2w(ll, e[::-1])) for e in els]
    except Exception as e:
        s["world"] = f"{type(e).__name__}"
    try:
        vals, names = E.ec_values(c, els) if els else ({}, [])
        s["ec"] = {"names": list(names), "mapping": [int(m) for m in c.extra_coords.mapping],
                   "values": {k: fl(v) for k, v in vals.items()}}
    except Exception as e:
        s["ec"] = f"{type(e).__name__}: {str(e)[:60]}"
    try:
        gc = c.global_coords
        s["gc"] = sorted((str(k), str(gc.physical_types[k]), repr(gc[k])) for k in gc)
    except Exception as e:
        s["gc"] = f"{type(e).__name__}: {str(e)[:60]}"
    return s


def snapshot(obj):
    from ndcube import NDCube, NDCubeSequence, NDCollection
    if isinstance(obj, NDCollection):
        return {"keys": list(obj.keys()), "aligned": repr(obj.aligned_axes), "meta": repr(obj.meta),
                "members": {k: snapshot(v) for k, v in obj.items()}}
    if isinstance(obj, NDCubeSequence):
        return {"common_axis": obj._common_axis, "meta": repr(obj.meta), "cubes": [snap_cube(c) for c in obj.data]}
    if isinstance(obj, NDCube):
        return snap_cube(obj)
    return repr(obj)


def canon(x):
    """Canonical form of the answer to a read-only question."""
    from astropy.coordinates import SkyCoord
    from astropy.time import Time
    if isinstance(x, (list, tuple)):
        return [canon(v) for v in x]
    if isinstance(x, dict):
        return {str(k): canon(v) for k, v in x.items()}
    if isinstance(x, SkyCoord):
        return ["SkyCoord", fl(x.spherical.lon.deg), fl(x.spherical.lat.deg)]
    if isinstance(x, Time):
        return ["Time", fl(x.mjd)]
    if isinstance(x, u.Quantity):
        return ["Q", str(x.unit), fl(x.value)]
    if isinstance(x, np.ndarray):
        return fl(x) if x.dtype.kind in "fiub" else [canon(v) for v in x.tolist()]
    if hasattr(x, "axis_correlation_matrix"):
        return ["wcs", [str(t) for t in x.low_level_wcs.world_axis_physical_types] if hasattr(x, "low_level_wcs") else []]
    return repr(x)


# ------------------------------------------------------------------ operations
def cube_ops(c, rng, case):
    """(name, model kind, thunk) choices valid for this cube."""
    from ndcube.wcs.tools import unwrap_wcs_to_fitswcs
    shape = c.data.shape
    nd = len(shape)
    ops = []
    if nd >= 1 and all(s > 0 for s in shape):
        chain = E.gen_chain(rng, shape, 1)
        ops.append(("slice", "slice", lambda: c[C.to_py_index(chain[0], npint=C.npint_of(case))]))
    divs = [[d for d in (1, 2, 3, 4) if s % d == 0] for s in shape]
    bins = [rng.choice(d) for d in divs]
    multi = any(len(t[0]) > 1 if isinstance(t[0], tuple) else False for t in getattr(c.extra_coords, "_lookup_tables", []))
    if any(b > 1 for b in bins) and not multi:
        prop = isinstance(c.uncertainty, StdDevUncertainty)
        has_nan = bool(np.isnan(np.asarray(C.materialize(c.data), dtype=float)).any())
        oper = rng.choice([np.nansum, np.nanmean] if has_nan else [np.mean, np.sum, np.nansum, np.nanmean])
        # the propagation operation left to be inferred, or named explicitly (documented keyword, forwarded by rebin)
        pkw = {"propagation_operation": np.add} if (prop and rng.random() < 0.4) else {}
        # ... and the default propagation asked for as True or by naming the default function itself (documented)
        from ndcube.utils.cube import propagate_rebin_uncertainties
        prop_arg = propagate_rebin_uncertainties if (prop and rng.random() < 0.35) else prop
        rebin_op = ("rebin", "rebin", lambda: c.rebin(bins, operation=oper, propagate_uncertainties=prop_arg, **pkw))
        # in-place bookkeeping of the uncertainty propagation is where rebin could reach its source:
        # give that combination more weight
        nothing_masked = c.mask is not None and not isinstance(c.mask, bool) and not np.asarray(c.mask).any()
        ops += [rebin_op] * (4 if (prop and (has_nan or nothing_masked)) else 1)
    k = rng.choice([2, -3, 0.5])
    ar = rng.choice(["mul", "neg", "div", "addq", "pow", "to"])
    if ar == "mul":
        ops.append(("arith*", "arithmetic", lambda: c * k))
    elif ar == "neg":
        ops.append(("arith-neg", "arithmetic", lambda: -c))
    elif ar == "div":
        ops.append(("arith/", "arithmetic", lambda: c / k))
    elif ar == "addq":
        ops.append(("arith+", "arithmetic", lambda: c + k * (u.Unit("") if c.unit is None else c.unit)))
    elif ar == "pow" and not isinstance(c.uncertainty, UnknownUncertainty):
        ops.append(("arith**", "arithmetic", lambda: c ** 2))
    elif ar == "to" and c.unit is not None:
        ops.append(("to", "arithmetic", lambda: c.to(1000 * c.unit)))
    if any(s == 1 for s in shape) and not all(s == 1 for s in shape):
        ops.append(("squeeze", "slice", lambda: c.squeeze()))
    if nd >= 2:
        ax = rng.randrange(nd)
        ops.append(("explode", "slice", lambda: c.explode_along_axis(ax)))
    ll = c.wcs.low_level_wcs
    base = ll
    while hasattr(base, "_wcs"):
        base = base._wcs
        base = base.low_level_wcs if hasattr(base, "low_level_wcs") and base.low_level_wcs is not base else base
    from astropy.wcs import WCS as FWCS
    if isinstance(base, FWCS):
        ops.append(("unwrap", "query", lambda: ("Q", unwrap_wcs_to_fitswcs(ll))))
        if case["fam"] == "radec" and isinstance(ll, FWCS):
            ops.append(("reproject", "reproject", lambda: c.reproject_to(ll.deepcopy(), shape_out=shape)))
    # crop by values between two on-array elements, when the wcs has an inverse
    probe = W.low_level(base)
    if (not isinstance(probe, W.ProbeWCS) or probe.Ainv is not None) and case["fam"] != "gwcs" and all(s > 1 for s in shape):
        e1 = [rng.randrange(s) for s in shape]
        e2 = [rng.randrange(s) for s in shape]
        if e1 != e2:
            un = [u.Unit(x) for x in ll.world_axis_units]
            p1 = [v * q for v, q in zip(W.p2w(ll, e1[::-1]), un)]
            p2 = [v * q for v, q in zip(W.p2w(ll, e2[::-1]), un)]
            ops.append(("crop", "slice", lambda: c.crop_by_values(p1, p2, keepdims=True)))
    # read-only questions
    q = rng.choice(["awcv", "awc", "combined", "aapt", "gc", "ec", "str", "awcv_ec"])
    if q == "awcv":
        ops.append(("q:axis_world_coords_values", "query", lambda: ("Q", c.axis_world_coords_values())))
    elif q == "awc":
        ops.append(("q:axis_world_coords", "query", lambda: ("Q", c.axis_world_coords())))
    elif q == "combined":
        ops.append(("q:combined_wcs", "query", lambda: ("Q", [str(t) for t in c.combined_wcs.low_level_wcs.world_axis_physical_types])))
    elif q == "aapt":
        ops.append(("q:array_axis_physical_types", "query", lambda: ("Q", c.array_axis_physical_types)))
    elif q == "gc":
        ops.append(("q:global_coords", "query", lambda: ("Q", {str(k): c.global_coords[k] for k in c.global_coords})))
    elif q == "ec":
        ops.append(("q:extra_coords", "query", lambda: ("Q", [list(c.extra_coords.keys() or []), [int(m) for m in c.extra_coords.mapping]])))
    elif q == "awcv_ec" and not c.extra_coords.is_empty:
        ops.append(("q:axis_world_coords_values(ec)", "query", lambda: ("Q", c.axis_world_coords_values(wcs=c.extra_coords))))
    else:
        ops.append(("q:str", "query", lambda: ("Q", str(c))))
    return ops


def seq_ops(s, rng, case):
    ops = []
    n = len(s.data)
    shape = s.data[0].data.shape
    it = [rng.choice([slice(None), slice(0, max(1, n - 1)), rng.randrange(n)])] + \
         [rng.choice([slice(None), slice(0, max(1, d - 1))]) for d in shape]
    ops.append(("seq-slice", "slice", lambda: s[tuple(it)]))
    if s._common_axis is not None:
        total = sum(c.data.shape[s._common_axis] for c in s.data)
        a = rng.randrange(total)
        b = rng.randint(a + 1, total)
        ops.append(("index_as_cube", "slice", lambda: s.index_as_cube[a:b]))
        ops.append(("q:common_axis_coords", "query", lambda: ("Q", s.common_axis_coords)))
    if len(shape) >= 2:
        ax = rng.randrange(len(shape))
        ops.append(("seq-explode", "slice", lambda: s.explode_along_axis(ax)))
    ops.append(("q:sequence_axis_coords", "query", lambda: ("Q", s.sequence_axis_coords)))
    ops.append(("q:seq-shape", "query", lambda: ("Q", [repr(s.shape), repr(s.cube_like_shape) if s._common_axis is not None else None,
                                                        repr(s.array_axis_physical_types)])))
    return ops


def coll_ops(co, rng, case):
    ops = []
    if co.aligned_axes is not None:
        d = co.aligned_dimensions[0]
        d = int(getattr(d, "value", d))
        it = rng.choice([slice(0, max(1, d - 1)), slice(1, None) if d > 1 else slice(None)])
        ops.append(("coll-slice", "slice", lambda: co[it]))
    ops.append(("coll-keys", "slice", lambda: co[("a",)] if "a" in co else co))
    ops.append(("coll-copy", "slice", lambda: co.copy()))
    ops.append(("q:aligned", "query", lambda: ("Q", [repr(co.aligned_dimensions), repr(co.aligned_axis_physical_types), list(co.keys())])))
    if co.aligned_axes is not None and len(co) >= 1:
        def refused_update():
            # an update that must be refused (the new member's aligned axis is one element shorter): ValueError, and the
            # collection - which every later step re-observes - is left exactly as it was
            key0 = list(co.keys())[0]
            member, axes = co[key0], tuple(co.aligned_axes[key0])
            if not hasattr(member, "data") or member.data.shape[axes[0]] < 2:
                return ("Q", ["refused-update", "skipped"])
            item = [slice(None)] * member.data.ndim
            item[axes[0]] = slice(1, None)
            try:
                co.update([(key0, member[tuple(item)]), ("zz_refused", member[tuple(item)])], (axes, axes))
                return ("Q", ["refused-update", "accepted"])
            except ValueError:
                return ("Q", ["refused-update", "ValueError"])
        ops.append(("q:refused-update", "query", refused_update))
    return ops


def sharing(result, source):
    """[data, mask, uncertainty, meta, coords] shared between a result cube and its source cube."""
    from ndcube import NDCube
    if not (isinstance(result, NDCube) and isinstance(source, NDCube)):
        return None
    if not (isinstance(result.data, np.ndarray) and isinstance(source.data, np.ndarray)):
        return None
    sm = lambda a, b: bool(isinstance(a, np.ndarray) and isinstance(b, np.ndarray) and a.size and b.size and np.shares_memory(a, b))
    return [sm(result.data, source.data),
            None if result.mask is None or source.mask is None else sm(np.asarray(result.mask), np.asarray(source.mask)),
            None if result.uncertainty is None or source.uncertainty is None else sm(result.uncertainty.array, source.uncertainty.array),
            result.meta is source.meta, result.wcs is source.wcs]


def run(case):
    from ndcube import NDCube, NDCubeSequence, NDCollection
    rng = random.Random(case["seed"])
    tags = [f"root={case['root']}", f"fam={case['fam']}", f"pre={case['pre']}", f"unc={case['unc']}"] + [f"ec={e['kind']}" for e in case["ecs"]]
    res = {"tags": tags, "oracle": None, "impl": {"err": None}, "model_req": None}
    fails = []
    try:
        root = make_root(case)
    except Exception as e:
        return res     # a root that cannot be built is another property's concern
    pool = [root]
    pool_kind = ["rebin"]
    snaps = [snapshot(root)]
    steps_model, observed = [], []
    done = 0
    for stepno in range(case["nsteps"]):
        si = rng.randrange(len(pool))
        src = pool[si]
        if isinstance(src, NDCollection):
            ops = coll_ops(src, rng, case)
        elif isinstance(src, NDCubeSequence):
            ops = seq_ops(src, rng, case) if len(src.data) else []
        elif isinstance(src, NDCube):
            ops = cube_ops(src, rng, case) if src.data.size else []
        else:
            ops = []
        if not ops:
            continue
        name, kind, thunk = rng.choice(ops)
        try:
            out = thunk()
        except Exception as e:
            tags.append(f"skipped:{name}")
            # an operation may refuse; it still must not have changed anything
            out = None
        tags.append(f"op={name}")
        done += 1
        if name.startswith("q:") or name == "unwrap":
            if out is not None:
                try:
                    again = thunk()
                    if name != "unwrap" and json.dumps(canon(out[1]), sort_keys=True) != json.dumps(canon(again[1]), sort_keys=True):
                        fails.append(f"step {stepno}: asking {name} twice gives different answers")
                except Exception as e:
                    fails.append(f"step {stepno}: asking {name} a second time raised {type(e).__name__}: {str(e)[:80]}")
            out = None
        # everything made so far must be what it was
        for k, (obj, old) in enumerate(zip(pool, snaps)):
            new = snapshot(obj)
            if new != old:
                diff = [key for key in (old if isinstance(old, dict) else {}) if old.get(key) != (new.get(key) if isinstance(new, dict) else None)]
                fails.append(f"step {stepno} ({name} on object {si}, a {type(src).__name__}) changed object {k} ({type(obj).__name__}): {diff[:4]}")
                snaps[k] = new
                break
        if fails:
            break
        steps_model.append({"derive": si, "kind": kind if out is not None else "query"})
        if out is not None:
            observed.append({"step": len(steps_model) - 1, "name": name, "shares": sharing(out, src)})
            pool.append(out)
            pool_kind.append(kind)
            snaps.append(snapshot(out))
            # writing into the data of an arithmetic result must not reach anything older
            if kind == "arithmetic" and isinstance(out, NDCube) and isinstance(out.data, np.ndarray) and out.data.size and out.data.flags.writeable:
                out.data[...] = 12345.0
                tags.append("write-into-result")
                snaps[-1] = snapshot(out)
                for k, (obj, old) in enumerate(zip(pool[:-1], snaps[:-1])):
                    if snapshot(obj) != old:
                        fails.append(f"step {stepno}: writing into the data of the result of {name} changed object {k} ({type(obj).__name__})")
                        break
                steps_model.append({"write": len(pool) - 1})
            # editing a derived collection in place (pop / del / update of *its own* members) must not reach the
            # collection it was derived from either
            if isinstance(out, NDCollection) and len(out) >= 1 and rng.random() < 0.7:
                how = rng.choice(["pop", "del", "update"]) if len(out) >= 2 else "update"
                try:
                    key0 = list(out.keys())[-1]
                    if how == "pop":
                        out.pop(key0)
                    elif how == "del":
                        del out[key0]
                    else:
                        member = out[key0]
                        out.update([("zz", member)], None if out.aligned_axes is None else (tuple(out.aligned_axes[key0]),))
                    tags.append(f"edit-derived-collection={how}")
                except Exception:
                    tags.append("edit-derived-collection=refused")
                snaps[-1] = snapshot(out)
                for k, (obj, old) in enumerate(zip(pool[:-1], snaps[:-1])):
                    try:
                        changed = snapshot(obj) != old
                    except Exception as e:
                        changed = True
                    if changed:
                        fails.append(f"step {stepno}: editing the collection made by {name} in place ({how}) changed object {k} ({type(obj).__name__})")
                        break
                steps_model.append({"write": len(pool) - 1})
        else:
            pool.append(src)          # keep indices aligned with the model: a query 'derives' nothing new
            pool_kind.append("query")
            snaps.append(snapshot(src))
        if fails:
            break
    if done >= 2:
        res["nontrivial"] = repr(sorted(case.items(), key=str))
    res["observed"] = observed
    res["model_req"] = {"op": "frame", "steps": steps_model}
    if fails:
        res["oracle"] = "; ".join(fails[:2])
    return res


def compare(case, r, m):
    names = ["data", "mask", "uncertainty", "meta", "wcs object"]
    for ob in r.get("observed", []):
        ms = m["steps"][ob["step"]]
        if ms["changed"]:
            return f"model: step {ob['step']} changes older objects {ms['changed']}"
        if ob["shares"] is None or ms["shares"] is None:
            continue
        for k, (a, b) in enumerate(zip(ob["shares"], ms["shares"])):
            if a is None:
                continue
            if k == 4:
                continue      # (the model's 'coords' cell stands for coordinate content, not object identity)
            if a != b:
                return f"step {ob['step']} ({ob['name']}): result {'shares' if a else 'does not share'} its {names[k]} with the source, model says {'shared' if b else 'fresh'}"
    for k, ms in enumerate(m["steps"]):
        if ms["shares"] is not None and ms["changed"]:
            return f"model: deriving step {k} changes {ms['changed']}"
    return None


def signature(case, failure):
    return "other:" + failure[:60]


def shrink(case):
    for n in range(1, case["nsteps"]):
        yield {**case, "nsteps": n}
    for i in range(len(case["ecs"])):
        yield {**case, "ecs": case["ecs"][:i] + case["ecs"][i + 1:]}
    if case["pre"]:
        yield {**case, "pre": None}
    if case["unc"]:
        yield {**case, "unc": None}
    if case["mask"]:
        yield {**case, "mask": False}
