import NdcubeModel.Props.C14

/-! Non-vacuity for C14. -/
namespace Ndcube.C14.Witness
open Ndcube

def idw (n : Nat) : LLWcs Rat :=
  { pixDim := n, worldDim := n, p2w := fun q => q, w2p := fun v => v,
    corr := (List.range n).map fun i => (List.range n).map fun j => i == j, shape := some (List.replicate n 4) }

example : Invertible (idw 3) := fun _ _ => rfl
example : isPermOfRange [2, 0, 1] 3 = true := by decide
example : argsortPerm [2, 0, 1] = [1, 2, 0] := by decide           -- asymmetric: the inverse is not the order itself
example : isPermOfRange [0, 0, 1] 3 = false := by decide
example : ((resampled (idw 2) (.scalar 2) (.list [1/2, 0])).toOption.map fun w => w.p2w [1, 3]) = some [5/2, 6] := by
  decide +kernel
example : ((compound [idw 2, idw 1] [0, 1, 0]).toOption.map fun c => (c.pixDim, c.p2w [7, 8])) = some (2, [7, 8, 7]) := by
  decide +kernel
example : (compoundW2P [idw 2, idw 1] [0, 1, 0] [7, 8, 9]).toOption = none := by decide +kernel
example : (compoundW2P [idw 2, idw 1] [0, 1, 0] [7, 8, 7]).toOption = some [7, 8] := by decide +kernel
example : ∀ i, i < nInputsOf [0, 1, 0] → i ∈ [0, 1, 0] := by decide
-- a resampling of a resampling: factors (2, 1) then (3, 2), offsets (1/2, 0) then (1, 1/2)
example : ((resampled (idw 2) (.list [2, 1]) (.list [1/2, 0])).toOption.bind fun w1 =>
      (resampled w1 (.list [3, 2]) (.list [1, 1/2])).toOption.map fun w2 => w2.p2w [1, 1])
    = some (mulAdd [1, 1] [6, 2] [5/2, 1/2]) := by decide +kernel
-- a reordering of a reordering: orders that do not commute; the fold is inner[outer[i]]
def w3 : LLWcs Rat :=
  { pixDim := 3, worldDim := 3, p2w := fun q => [q.getD 0 0, q.getD 1 0 * 2, q.getD 2 0 + 1], w2p := fun v => v,
    corr := (List.range 3).map fun i => (List.range 3).map fun j => i == j, shape := some [4, 5, 6] }
example : WellFormed w3 := by intro q; rfl
example : selectIdx [1, 0, 2] [2, 0, 1] = [0, 2, 1] ∧ selectIdx [2, 0, 1] [1, 0, 2] = [2, 1, 0] := by decide
example : ((reordered w3 ["a", "b", "c"] [2, 0, 1] [1, 2, 0]).toOption.bind fun r1 =>
      (reordered r1.wcs r1.worldTypes [1, 0, 2] [0, 2, 1]).toOption.map fun r2 =>
        (r2.wcs.p2w (selectIdx (selectIdx [1, 0, 2] [2, 0, 1]) [10, 20, 30]), r2.worldTypes))
    = some (selectIdx (selectIdx [0, 2, 1] [1, 2, 0]) (w3.p2w [10, 20, 30]), ["b", "a", "c"]) := by decide +kernel
-- bounds of a compound WCS: two members share input 0; equal bounds are kept, a difference at one end only is refused
example : (compoundBounds [some [(-1/2, 19/2), (0, 3)], some [(-1/2, 19/2)]] [0, 1, 0]).toOption
      = some (some [(-1/2, 19/2), (0, 3)]) ∧
    (compoundBounds [some [(-1/2, 19/2), (0, 3)], some [(-1/2, 15/2)]] [0, 1, 0]).toOption = none ∧
    (compoundBounds [some [(-1/2, 19/2), (0, 3)], none] [0, 1, 0]).toOption = some none := by decide +kernel

end Ndcube.C14.Witness
