import NdcubeModel.Props.C10

/-! Non-vacuity for C10. -/
namespace Ndcube.C10.Witness
open Ndcube

def ct : UnitM := { dim := [1], scale := 1 }
def kct : UnitM := { dim := [1], scale := 1000 }
def sec : UnitM := { dim := [0, 1], scale := 1 }
def c0 : ACube := { data := [1, 2, 3, 4], unit := some ct, unc := some (.std, [1/2, 1, 3/2, 2]),
                    rest := { wcs := 1, extraCoords := 2, globalCoords := 3, mask := some [true, false, true, false], metaId := 4 } }

example : ((c0.add (.quantity [1/500] kct)).toOption.map (·.data)) = some [3, 4, 5, 6] := by decide +kernel
example : (c0.add (.quantity [2] sec)).toOption = none ∧ (c0.add (.num 2)).toOption = none ∧ (c0.add .nddata).toOption = none := by
  decide +kernel
example : ((c0.mul (.num (-3))).toOption.map fun c => (c.data, c.unc)) =
    some ([-3, -6, -9, -12], some (.std, [3/2, 3, 9/2, 6])) := by decide +kernel
example : ((c0.mul (.quantity [2, -1] sec)).toOption.map fun c => (c.data, c.unit)) =
    some ([2, -2, 6, -4], some { dim := [1, 1], scale := 1 }) := by decide +kernel
example : ((c0.to kct).toOption.map fun c => (c.data, c.phys)) = some ([1/1000, 1/500, 3/1000, 1/250], c0.phys) := by
  decide +kernel
example : ∀ kind a, c0.unc = some (kind, a) → a.length = c0.data.length := by
  intro kind a h; simp only [c0, Option.some.injEq, Prod.mk.injEq] at h; obtain ⟨_, rfl⟩ := h; rfl

-- powers and `value / cube`: no zero in the data, so the guards of `pow_phys` / `rdiv_num_phys` are met
example : (∀ d ∈ c0.data, d ≠ 0) ∧ ((c0.pow (-2)).data, (c0.pow (-2)).unit.map (·.dim)) = ([1, 1/4, 1/9, 1/16], some [-2]) ∧
    (c0.pow 3).phys = c0.phys.map (· ^ (3 : Int)) := by decide +kernel
example : ((c0.rdiv (.num 6)).toOption.map fun c => (c.data, c.unit.map (·.dim))) = some ([6, 3, 2, 3/2], some [-1]) := by
  decide +kernel
example : ((c0.rdiv (.quantity [2, 4] sec)).toOption.map fun c => (c.data, c.unit.map (·.dim))) =
    some ([2, 2, 2/3, 1], some [-1, 1]) := by decide +kernel

end Ndcube.C10.Witness
