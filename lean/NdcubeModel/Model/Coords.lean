import NdcubeModel.Model.Wcs

/-!
# `axis_world_coords(_values)`: coordinate grids

Mirrors `NDCubeBase._generate_world_coords`, `axis_world_coords_values`,
`utils.wcs.calculate_world_indices_from_axes` and astropy's `_split_matrix`.
For world axis `i` the code returns an array with one axis per pixel axis correlated with `i`
(transposed into array order); element `a` of it is the WCS evaluated at the pixel vector
`gridPixel …` defined below.
-/

namespace Ndcube

/-- one closure step of `_split_matrix`: worlds touching the pixel set, then pixels touching those worlds -/
def closeStep (corr : List (List Bool)) (pixDim : Nat) (pix : List Bool) : List Bool × List Bool :=
  let world := corr.map fun row => (List.range pixDim).any fun k => row.getD k false && pix.getD k false
  let pix' := (List.range pixDim).map fun k => (corr.zip world).any fun (row, w) => w && row.getD k false
  (pix', world)

/-- iterate to the fixed point (`fuel` ≥ number of pixel axes suffices) -/
def closure (corr : List (List Bool)) (pixDim : Nat) : Nat → List Bool → List Bool × List Bool
  | 0, pix => closeStep corr pixDim pix
  | fuel + 1, pix =>
    let (pix', world) := closeStep corr pixDim pix
    if pix' = pix then (pix', world) else closure corr pixDim fuel pix'

def trueIdx (l : List Bool) : List Nat := (List.range l.length).filter fun i => l.getD i false

/-- astropy's `_split_matrix`: groups `(pixel axes, world axes)` of mutually correlated axes. -/
def splitMatrix (corr : List (List Bool)) (pixDim : Nat) : List (List Nat × List Nat) :=
  let rec go (fuel : Nat) (ipix : Nat) (used : List Nat) (acc : List (List Nat × List Nat)) :=
    match fuel with
    | 0 => acc.reverse
    | fuel + 1 =>
      if ipix ≥ pixDim then acc.reverse
      else if used.contains ipix then go fuel (ipix + 1) used acc
      else
        let start := (List.range pixDim).map fun k => k == ipix
        let (pix, world) := closure corr pixDim pixDim start
        go fuel (ipix + 1) (used ++ trueIdx pix) ((trueIdx pix, trueIdx world) :: acc)
  go (pixDim + 1) 0 [] []

/-- pixel coordinate of index `x` along an axis: centre `x`, or corner `x − 1/2` -/
def rangeAt (corners : Bool) (x : Nat) : Rat := if corners then (x : Rat) - 1/2 else (x : Rat)

/-- the pixel group (from `splitMatrix`) that contains world axis `i` -/
def groupOf (groups : List (List Nat × List Nat)) (i : Nat) : List Nat :=
  match groups.find? fun g => g.2.contains i with
  | some g => g.1
  | none => []

/-- pixel axes (WCS order) correlated with world axis `i` -/
def corrPixels (corr : List (List Bool)) (pixDim i : Nat) : List Nat :=
  (List.range pixDim).filter fun k => corrAt corr i k

/-- The pixel vector at which the WCS is evaluated for element `a` of the coordinate array of
world axis `i`.  `a` is indexed by the correlated axes in **array order** (the code transposes),
i.e. by the correlated pixel axes in descending pixel order.  Correlated axes take the
element's (centre or corner) position, other axes of the same group the first grid position,
axes outside the group 0. -/
def gridPixel (corr : List (List Bool)) (pixDim : Nat) (groups : List (List Nat × List Nat))
    (corners : Bool) (i : Nat) (a : List Nat) : List Rat :=
  let cp := corrPixels corr pixDim i          -- ascending pixel order
  let grp := groupOf groups i
  (List.range pixDim).map fun k =>
    match cp.idxOf? k with
    | some pos => rangeAt corners (a.getD (cp.length - 1 - pos) 0)
    | none => if grp.contains k then rangeAt corners 0 else 0

/-- array axes spanned by the coordinate array of world axis `i`, ascending (`cubeNdim` array
axes in total; with extra coords the WCS's pixel axis `k` is cube pixel axis `mapping[k]`) -/
def coordArrayAxes (corr : List (List Bool)) (pixDim cubeNdim : Nat) (mapping : Option (List Nat)) (i : Nat) : List Nat :=
  ((corrPixels corr pixDim i).map fun k =>
    let kc := match mapping with
      | none => k
      | some m => m.getD k 0
    cubeNdim - 1 - kc).reverse

/-- an integer array axis (negative allowed) as a pixel axis: `naxes − 1 − axis` -/
def axisToPixel (pixDim : Nat) (a : Int) : Except Err Nat :=
  let a' : Int := if a < 0 then a + (pixDim : Int) else a
  if a' < 0 ∨ a' > (pixDim : Int) - 1 then .error .indexError else .ok (pixDim - 1 - a'.toNat)

/-- WCS pixel axes that describe cube pixel axis `p` (`mapping = none`: the WCS spans the cube) -/
def pixelsOfCubeAxis (pixDim : Nat) (mapping : Option (List Nat)) (p : Nat) : List Nat :=
  (List.range pixDim).filter fun k =>
    (match mapping with
      | none => k
      | some m => m.getD k pixDim) == p

/-- `calculate_world_indices_from_axes` for integer array axes of the cube (negative allowed),
through the extra-coords mapping when there is one: `np.unique` of the world axes correlated
with each requested axis. -/
def worldIndicesInts (corr : List (List Bool)) (pixDim worldDim cubeNdim : Nat) (mapping : Option (List Nat))
    (axes : List Int) : Except Err (List Nat) := do
  let pix ← axes.mapM (axisToPixel cubeNdim)
  let ks := pix.flatMap (pixelsOfCubeAxis pixDim mapping)
  pure ((List.range worldDim).filter fun i => ks.any fun k => corrAt corr i k)

end Ndcube
