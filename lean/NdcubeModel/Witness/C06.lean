import NdcubeModel.Props.C06

/-! Non-vacuity for C06: a 3-pixel primary WCS with a 1-pixel extra-coords WCS on pixel axis 1. -/
namespace Ndcube.C06.Witness
open Ndcube

def w : LLWcs Rat :=
  { pixDim := 3, worldDim := 3, p2w := fun q => q, w2p := fun v => v,
    corr := [[true, false, false], [false, true, true], [false, true, true]], shape := some [2, 3, 4] }
def e : LLWcs Rat :=
  { pixDim := 1, worldDim := 1, p2w := fun q => q.map (· * 10), w2p := fun v => v.map (· / 10),
    corr := [[true]], shape := some [3] }

example : ((combinedWcs w (some (e, [1]))).toOption.map fun c => (c.pixDim, c.worldDim, c.p2w [5, 6, 7], c.corr)) =
    some (3, 4, [5, 6, 7, 60], [[true, false, false], [false, true, true], [false, true, true], [false, true, false]]) := by
  decide +kernel
example : ((combinedWcs w (some (e, [1]))).toOption.map fun c => c.w2p (c.p2w [5, 6, 7])) = some [5, 6, 7] := by
  decide +kernel
example : arrayAxisPhysicalTypes w.corr 3 ["a", "b", "c"] = [["b", "c"], ["b", "c"], ["a"]] := by decide

end Ndcube.C06.Witness
