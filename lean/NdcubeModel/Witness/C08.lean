import NdcubeModel.Props.C08

/-! Non-vacuity for C08: a (4,6) array rebinned by (2,3) with a mask. -/
namespace Ndcube.C08.Witness
open Ndcube

def x : RebinIn :=
  { shape := [4, 6], data := (List.range 24).map fun (n : Nat) => Val.num (n : Rat),
    mask := .array ((List.range 24).map fun n => n % 5 == 0),
    binShape := [2, 3], op := .sum, ignoresMask := false, handleMask := .all }

def vals (r : Except Err RebinOut) : List (Option Val) :=
  match r with
  | .ok o => o.values
  | .error _ => []

example : vals (rebin x) = [some (.num 24), some (.num 27), some (.num 76), some (.num 99)] := by decide +kernel
example : blockMembers [4, 6] [2, 3] [1, 0] = [12, 13, 14, 18, 19, 20] := by decide
example : (match rebin { x with binShape := [2, 4] } with | .error .valueError => true | _ => false) = true := by decide +kernel
-- np.rint rounds half to even: 2.5 -> 2, 3.5 -> 4, 2.4 -> 2, 2.6 -> 3
example : [rintHalfEven (5/2), rintHalfEven (7/2), rintHalfEven (12/5), rintHalfEven (13/5)] = [2, 4, 2, 3] := by decide +kernel

end Ndcube.C08.Witness
