import NdcubeModel.Model.Frame

/-!
# C07 — deriving a new object never changes the one it was derived from
-/

namespace Ndcube.C07
open Ndcube

/-- Well-formedness of a heap reached by a history: every cell of every object was allocated
(`< next`), every cell of an older object lies below the birth counter of a younger one, and an
arithmetic result's data cell is the fresh cell allocated at its birth. -/
structure WF (h : Heap) : Prop where
  alloc : ∀ (i : Nat) (o : Obj), h.objs[i]? = some o → ∀ p, o.cell p < h.next
  born_le : ∀ (i : Nat) (o : Obj), h.objs[i]? = some o → o.born ≤ h.next
  older : ∀ (i j : Nat) (oi oj : Obj), i < j → h.objs[i]? = some oi → h.objs[j]? = some oj → ∀ p, oi.cell p < oj.born
  arith : ∀ (j : Nat) (oj : Obj), h.objs[j]? = some oj → oj.kind = OpKind.arithmetic → oj.cell Payload.data = oj.born

theorem idx_lt (p : Payload) : idxOfPayload p < 5 := by cases p <;> decide

theorem wf_init (vals : Nat → Nat) : WF (Heap.init vals) := by
  constructor
  · intro i o h p
    cases i with
    | zero => simp [Heap.init] at h; subst h; exact idx_lt p
    | succ i => simp [Heap.init] at h
  · intro i o h
    cases i with
    | zero => simp [Heap.init] at h; subst h; simp [Heap.init]
    | succ i => simp [Heap.init] at h
  · intro i j oi oj hij hi hj
    have : j < 1 := by
      have := (List.getElem?_eq_some_iff.mp hj).1; simpa [Heap.init] using this
    omega
  · intro j oj hj hk
    cases j with
    | zero => simp [Heap.init] at hj; subst hj; cases hk
    | succ j => simp [Heap.init] at hj

theorem wf_derive (h : Heap) (hw : WF h) (s : Nat) (src : Obj) (hs : h.objs[s]? = some src) (op : OpKind) :
    WF (deriveObj h src op) := by
  have hsrc := hw.alloc s src hs
  constructor
  · intro i o hi p
    simp only [deriveObj] at hi ⊢
    rw [List.getElem?_append] at hi
    split at hi
    · have := hw.alloc i o hi p; omega
    · have hi' : i - h.objs.length = 0 := by
        cases hx : i - h.objs.length with
        | zero => rfl
        | succ k => rw [hx] at hi; simp at hi
      rw [hi'] at hi
      simp only [List.getElem?_cons_zero, Option.some.injEq] at hi
      subst hi
      simp only
      split
      · have := hsrc p; omega
      · have := idx_lt p; omega
  · intro i o hi
    simp only [deriveObj] at hi ⊢
    rw [List.getElem?_append] at hi
    split at hi
    · have := hw.born_le i o hi; omega
    · have hi' : i - h.objs.length = 0 := by
        cases hx : i - h.objs.length with
        | zero => rfl
        | succ k => rw [hx] at hi; simp at hi
      rw [hi'] at hi
      simp only [List.getElem?_cons_zero, Option.some.injEq] at hi
      subst hi; simp
  · intro i j oi oj hij hi hj p
    simp only [deriveObj] at hi hj
    rw [List.getElem?_append] at hi hj
    split at hj
    · next hjl =>
      have hil : i < h.objs.length := by omega
      rw [if_pos hil] at hi
      exact hw.older i j oi oj hij hi hj p
    · next hjl =>
      have hj' : j - h.objs.length = 0 := by
        cases hx : j - h.objs.length with
        | zero => rfl
        | succ k => rw [hx] at hj; simp at hj
      rw [hj'] at hj
      simp only [List.getElem?_cons_zero, Option.some.injEq] at hj
      subst hj
      have hjeq : j = h.objs.length := by omega
      have hil : i < h.objs.length := by omega
      rw [if_pos hil] at hi
      simp only
      exact hw.alloc i oi hi p
  · intro j oj hj hk
    simp only [deriveObj] at hj
    rw [List.getElem?_append] at hj
    split at hj
    · exact hw.arith j oj hj hk
    · have hj' : j - h.objs.length = 0 := by
        cases hx : j - h.objs.length with
        | zero => rfl
        | succ k => rw [hx] at hj; simp at hj
      rw [hj'] at hj
      simp only [List.getElem?_cons_zero, Option.some.injEq] at hj
      subst hj
      simp only at hk ⊢
      subst hk
      simp [shares, idxOfPayload]

/-- the invariant holds after every step, hence in every state reached by any history -/
theorem wf_step (h : Heap) (hw : WF h) (st : Step) : WF (h.step st) := by
  cases st with
  | derive s op =>
    simp only [Heap.step]
    cases hs : h.objs[s]? with
    | none => exact hw
    | some src => exact wf_derive h hw s src hs op
  | write o v =>
    simp only [Heap.step]
    cases ho : h.objs[o]? with
    | none => exact hw
    | some ob =>
      simp only
      split
      · exact ⟨hw.alloc, hw.born_le, hw.older, hw.arith⟩
      · exact hw

theorem wf_run (vals : Nat → Nat) (steps : List Step) : WF ((Heap.init vals).run steps) := by
  have gen : ∀ (h : Heap), WF h → WF (h.run steps) := by
    induction steps with
    | nil => intro h hw; exact hw
    | cons st rest ih => intro h hw; exact ih _ (wf_step h hw st)
  exact gen _ (wf_init vals)

/-- **Deriving never changes an existing object**: after slicing, cropping, arithmetic, rebinning,
reprojecting or a query — from any source, in any reachable state — every observable of every
object that existed before is what it was. -/
theorem derive_frame (h : Heap) (hw : WF h) (s : Nat) (op : OpKind) (i : Nat) (hi : i < h.objs.length) :
    (h.step (.derive s op)).observe i = h.observe i := by
  simp only [Heap.step]
  cases hs : h.objs[s]? with
  | none => rfl
  | some src =>
    simp only [Heap.observe, deriveObj]
    rw [List.getElem?_append_left hi]
    cases ho : h.objs[i]? with
    | none => rfl
    | some o =>
      simp only [Option.map_some]
      congr 1
      apply List.map_congr_left
      intro p _
      have := hw.alloc i o ho p
      have hn : ¬ (h.next ≤ o.cell p ∧ o.cell p < h.next + 5) := by omega
      rw [if_neg hn]

/-- **Writing into the data of an arithmetic result never writes into its source** — nor into
anything that existed before the result was made. -/
theorem write_frame (h : Heap) (hw : WF h) (o v i : Nat) (hio : i < o) :
    (h.step (.write o v)).observe i = h.observe i := by
  simp only [Heap.step]
  cases ho : h.objs[o]? with
  | none => rfl
  | some ob =>
    simp only
    split
    · next hk =>
      simp only [Heap.observe]
      cases hoi : h.objs[i]? with
      | none => rfl
      | some oi =>
        simp only [Option.map_some]
        congr 1
        apply List.map_congr_left
        intro p _
        have h1 := hw.older i o oi ob hio hoi ho p
        have h2 := hw.arith o ob ho hk
        have : oi.cell p ≠ ob.cell .data := by omega
        rw [if_neg this]
    · rfl

/-- a write into anything but an arithmetic result is not part of the model's histories; it is a no-op -/
theorem write_non_arith (h : Heap) (o v : Nat) (ob : Obj) (ho : h.objs[o]? = some ob) (hk : ob.kind ≠ .arithmetic) :
    h.step (.write o v) = h := by
  simp [Heap.step, ho, hk]

/-- **Histories**: in every state reached by any history of derivations and writes (any length),
the next step leaves all older objects' observables unchanged. -/
theorem history_frame (vals : Nat → Nat) (steps : List Step) (st : Step) (i : Nat) :
    let h := (Heap.init vals).run steps
    (match st with
     | .derive _ _ => i < h.objs.length
     | .write o _ => i < o) →
    (h.step st).observe i = h.observe i := by
  intro h hcond
  have hw := wf_run vals steps
  cases st with
  | derive s op => exact derive_frame h hw s op i hcond
  | write o v => exact write_frame h hw o v i hcond

end Ndcube.C07
