import NdcubeModel.Model.Wrappers

/-! Lemmas behind C14 / C09 / C06: element-wise affine maps, index selections, permutations. -/

namespace Ndcube

theorem subDiv_mulAdd (p f o : List Rat) (h1 : f.length = p.length) (h2 : o.length = p.length)
    (hf : ∀ q ∈ f, q ≠ 0) : subDiv (mulAdd p f o) f o = p := by
  induction p generalizing f o with
  | nil => cases f <;> cases o <;> simp [mulAdd, subDiv]
  | cons x xs ih =>
    cases f with
    | nil => simp at h1
    | cons a as =>
      cases o with
      | nil => simp at h2
      | cons b bs =>
        have ha : a ≠ 0 := hf a (List.mem_cons_self ..)
        simp only [mulAdd, subDiv]
        rw [ih as bs (by simpa using h1) (by simpa using h2) (fun q hq => hf q (List.mem_cons_of_mem _ hq))]
        congr 1
        grind

theorem mulAdd_length (p f o : List Rat) (h1 : f.length = p.length) (h2 : o.length = p.length) :
    (mulAdd p f o).length = p.length := by
  induction p generalizing f o with
  | nil => cases f <;> cases o <;> simp [mulAdd]
  | cons x xs ih =>
    cases f with
    | nil => simp at h1
    | cons a as =>
      cases o with
      | nil => simp at h2
      | cons b bs => simp [mulAdd, ih as bs (by simpa using h1) (by simpa using h2)]

/-! ### `selectIdx` -/

theorem selectIdx_length_of_lt {α} (idx : List Nat) (l : List α) (h : ∀ i ∈ idx, i < l.length) :
    (selectIdx idx l).length = idx.length := by
  induction idx with
  | nil => rfl
  | cons i is ih =>
    have hi := h i (List.mem_cons_self ..)
    simp only [selectIdx, List.filterMap_cons, List.getElem?_eq_getElem hi]
    simp only [selectIdx] at ih
    simp [ih (fun j hj => h j (List.mem_cons_of_mem _ hj))]

theorem selectIdx_getElem? {α} (idx : List Nat) (l : List α) (h : ∀ i ∈ idx, i < l.length) (k : Nat) :
    (selectIdx idx l)[k]? = (idx[k]?).bind fun i => l[i]? := by
  induction idx generalizing k with
  | nil => simp [selectIdx]
  | cons i is ih =>
    have hi := h i (List.mem_cons_self ..)
    have ih' := ih (fun j hj => h j (List.mem_cons_of_mem _ hj))
    simp only [selectIdx, List.filterMap_cons, List.getElem?_eq_getElem hi]
    cases k with
    | zero => simp [List.getElem?_eq_getElem hi]
    | succ k => simpa [selectIdx] using ih' k

/-- If `ord[inv[i]] = i` for every position of `p`, selecting by `ord` then by `inv` gives `p` back. -/
theorem selectIdx_inverse {α} (ord inv : List Nat) (p : List α)
    (hlen : inv.length = p.length) (hord : ∀ i ∈ ord, i < p.length)
    (hinv : ∀ i, i < p.length → ∃ j, inv[i]? = some j ∧ ord[j]? = some i) :
    selectIdx inv (selectIdx ord p) = p := by
  apply List.ext_getElem?
  intro k
  have hsl := selectIdx_length_of_lt ord p hord
  by_cases hk : k < p.length
  · obtain ⟨j, hj1, hj2⟩ := hinv k hk
    have hjlt : j < ord.length := by
      cases h : ord[j]? with
      | none => rw [h] at hj2; cases hj2
      | some _ => exact (List.getElem?_eq_some_iff.mp h).1
    have hall : ∀ i ∈ inv, i < (selectIdx ord p).length := by
      intro i hi
      obtain ⟨m, hm⟩ := List.mem_iff_getElem?.mp hi
      have hmlt : m < p.length := by
        rw [← hlen]
        cases h : inv[m]? with
        | none => rw [h] at hm; cases hm
        | some _ => exact (List.getElem?_eq_some_iff.mp h).1
      obtain ⟨j', hj1', hj2'⟩ := hinv m hmlt
      rw [hm] at hj1'
      cases hj1'
      rw [hsl]
      cases h : ord[i]? with
      | none => rw [h] at hj2'; cases hj2'
      | some _ => exact (List.getElem?_eq_some_iff.mp h).1
    rw [selectIdx_getElem? inv _ hall k, hj1]
    simp only [Option.bind_some]
    rw [selectIdx_getElem? ord p hord j, hj2]
    simp
  · have h1 : p[k]? = none := List.getElem?_eq_none (by omega)
    rw [h1]
    apply List.getElem?_eq_none
    have : (selectIdx inv (selectIdx ord p)).length ≤ inv.length := by
      simp only [selectIdx]; exact List.length_filterMap_le _ _
    omega

end Ndcube

namespace Ndcube

theorem isPerm_facts (ord : List Nat) (n : Nat) (h : isPermOfRange ord n = true) :
    ord.length = n ∧ (∀ i, i < n → i ∈ ord) ∧ ord.Nodup ∧ (∀ i ∈ ord, i < n) := by
  simp only [isPermOfRange, Bool.and_eq_true, decide_eq_true_eq, List.all_eq_true, List.mem_range,
    List.contains_iff_mem] at h
  exact ⟨h.1.1.1, h.1.1.2, h.1.2, h.2⟩

theorem argsortPerm_length (ord : List Nat) : (argsortPerm ord).length = ord.length := by
  simp [argsortPerm]

/-- `argsort` of a permutation is its inverse: `ord[argsort[i]] = i`. -/
theorem argsort_inverse (ord : List Nat) (n : Nat) (h : isPermOfRange ord n = true) (i : Nat) (hi : i < n) :
    ∃ j, (argsortPerm ord)[i]? = some j ∧ ord[j]? = some i := by
  obtain ⟨hl, hc, _, _⟩ := isPerm_facts ord n h
  refine ⟨ord.idxOf i, ?_, ?_⟩
  · simp [argsortPerm, List.getElem?_map, List.getElem?_range (by omega : i < ord.length)]
  · have hm := hc i hi
    have hlt : ord.idxOf i < ord.length := List.idxOf_lt_length_of_mem hm
    rw [List.getElem?_eq_getElem hlt]
    simp

/-- ... and `argsort[ord[k]] = k` (asymmetric permutations are inverted, not transposed). -/
theorem argsort_inverse' (ord : List Nat) (n : Nat) (h : isPermOfRange ord n = true) (k : Nat) (hk : k < n) :
    ∃ j, ord[k]? = some j ∧ (argsortPerm ord)[j]? = some k := by
  obtain ⟨hl, _, hnd, hlt⟩ := isPerm_facts ord n h
  have hk' : k < ord.length := by omega
  refine ⟨ord[k], List.getElem?_eq_getElem hk', ?_⟩
  have hj : ord[k] < n := hlt _ (List.getElem_mem hk')
  simp only [argsortPerm, List.getElem?_map, List.getElem?_range (by omega : ord[k] < ord.length),
    Option.map_some]
  congr 1
  exact hnd.idxOf_getElem k hk'

end Ndcube

namespace Ndcube

/-- Core of the compound round trip: evaluating every member on its chunk of pixel values,
concatenating the worlds, splitting them again by the members' world dimensions and inverting
each member returns the pixel values. -/
theorem compound_chunks_roundtrip {ω} (ws : List (LLWcs ω))
    (hinv : ∀ w ∈ ws, (∀ q : List Rat, q.length = w.pixDim → w.w2p (w.p2w q) = q) ∧
                      (∀ q : List Rat, (w.p2w q).length = w.worldDim))
    (l : List Rat) (hl : l.length = (ws.map (·.pixDim)).sum) :
    ((ws.zip (splitBy (ws.map (·.worldDim))
        ((ws.zip (splitBy (ws.map (·.pixDim)) l)).flatMap fun (w, q) => w.p2w q))).flatMap
      fun (w, x) => w.w2p x) = l := by
  induction ws generalizing l with
  | nil => simp at hl; simp [hl]
  | cons w rest ih =>
    obtain ⟨hi, hwf⟩ := hinv w (List.mem_cons_self ..)
    have hrest : ∀ w' ∈ rest, _ := fun w' hw' => hinv w' (List.mem_cons_of_mem _ hw')
    simp only [List.map_cons, List.sum_cons] at hl
    simp only [List.map_cons, splitBy, List.zip_cons_cons, List.flatMap_cons]
    have htl : (l.take w.pixDim).length = w.pixDim := by simp; omega
    rw [List.take_append_of_le_length (by rw [hwf]; exact Nat.le_refl _),
      List.drop_append_of_le_length (by rw [hwf]; exact Nat.le_refl _)]
    have h1 : (w.p2w (l.take w.pixDim)).take w.worldDim = w.p2w (l.take w.pixDim) :=
      List.take_of_length_le (by rw [hwf]; exact Nat.le_refl _)
    have h2 : (w.p2w (l.take w.pixDim)).drop w.worldDim = [] :=
      List.drop_eq_nil_of_le (by rw [hwf]; exact Nat.le_refl _)
    rw [h1, h2, List.nil_append, hi _ htl, ih hrest (l.drop w.pixDim) (by simp; omega)]
    exact List.take_append_drop _ _

end Ndcube

namespace Ndcube

theorem resampled_p2w {ω} (w w' : LLWcs ω) (factor offset : PerAxis)
    (h : resampled w factor offset = .ok w') (p : List Rat) :
    w'.p2w p = w.p2w (mulAdd p (factor.expand w.pixDim) (offset.expand w.pixDim)) := by
  simp only [resampled] at h
  split at h
  · cases h
  · split at h
    · cases h
    · cases h; rfl

end Ndcube
