import NdcubeModel.Model.Py

/-!
# Lookup tables: linear interpolation and the resampling grid

`interp1 t x` is the specification of a 1-D lookup-table coordinate (gwcs `Tabular1D` with
`points = arange(n)`, linear method, no extrapolation; `numpy.interp` inside the range).
`resampleGrid` mirrors the grid of `ExtraCoords.resample`.
-/

namespace Ndcube

/-- Linear interpolation of table `t` (entries at integer pixels) at position `x`; `none`
outside `[0, n-1]`. -/
def interp1 (t : List Rat) (x : Rat) : Option Rat :=
  if x < 0 then none else
  let i := x.floor.toNat
  if (i : Rat) = x then t[i]?          -- exactly on a table entry (includes the last one)
  else
    match t[i]?, t[i + 1]? with
    | some a, some b => some (a + (x - (i : Rat)) * (b - a))
    | _, _ => none

/-- The new grid of `ExtraCoords.resample` along one axis of length `d`:
`x = arange(c, d + f, f); x = x[x <= d - 1]` (for `f ≥ 1`, `c ≥ 0` every candidate `c + k f`
with `k ≤ d` is enumerated). -/
def resampleGrid (c : Rat) (d : Nat) (f : Rat) : List Rat :=
  ((List.range (d + 1)).map fun (k : Nat) => c + (k : Rat) * f).filter fun x => x ≤ (d : Rat) - 1

/-- `table.interpolate(grid)`: the table of the resampled coordinate. -/
def interpolateTable (t : List Rat) (grid : List Rat) : List (Option Rat) := grid.map (interp1 t)

end Ndcube

namespace Ndcube

/-- inverse of a strictly increasing table (gwcs `Tabular1D.inverse`: the table as points, the
pixels as values): the position between the two entries that bracket `y`. -/
def inv1 : List Rat → Rat → Option Rat
  | [], _ => none
  | [a], y => if y = a then some 0 else none
  | a :: b :: rest, y =>
    if y < a then none
    else if y ≤ b ∧ a < b then some ((y - a) / (b - a))
    else (inv1 (b :: rest) y).map (· + 1)

/-- pixel-to-world of tables joined with `&` (or a meshed multi-component coordinate): table
`k` is read at pixel input `k`, outputs in order. -/
def joinedP2W (tables : List (List Rat)) (pix : List Rat) : List (Option Rat) :=
  List.zipWith interp1 tables pix

/-- `coord[item]` for one table: Python slicing of the table -/
def sliceTable (t : List Rat) (s e : Option Int) : List Rat := pySlice t s e

end Ndcube

namespace Ndcube

/-- inverse of a strictly decreasing table (gwcs reverses points and values) -/
def inv1Desc (t : List Rat) (y : Rat) : Option Rat :=
  (inv1 t.reverse y).map fun x => ((t.length : Rat) - 1) - x

def isIncreasing : List Rat → Bool
  | a :: b :: rest => decide (a < b) && isIncreasing (b :: rest)
  | _ => true

/-- `world_to_pixel` of a 1-D table: increasing or decreasing tables only -/
def invTable (t : List Rat) (y : Rat) : Option Rat :=
  if isIncreasing t then inv1 t y
  else if isIncreasing t.reverse then inv1Desc t y
  else none

end Ndcube

namespace Ndcube

/-! ## The lazily kept slice of a meshed SkyCoord table

`SkyCoordTableCoordinate(mesh=True)` never slices its SkyCoord: it keeps, per component, the slice of
the *full* table that is currently in force (`_slice`), reads the component through it
(`_sliced_components`) and, on `__getitem__`, resolves the new item against the component's current
length (`slice.indices`) and folds it into the kept slice with astropy's `combine_slices`. -/

/-- astropy's `combine_slices(slice1, slice2)` on step-1 slices with explicit non-negative bounds
(`combine_bounds_agrees` in Props/C19 ties it to the Item-level model `combineSlices`) -/
def combineBounds (s1 s2 : Nat × Nat) : Nat × Nat :=
  (s1.1 + s2.1, min s1.2 (s2.2 + s1.1))

/-- one `__getitem__` on one component: `cur` is the kept `[lo, hi)` of the full table -/
def meshGetitem (cur : Nat × Nat) (se : Option Int × Option Int) : Nat × Nat :=
  combineBounds cur (sliceBounds (cur.2 - cur.1) se.1 se.2)

/-- `_sliced_components`: the component read through the kept slice -/
def lazyComponent {α} (t : List α) (cur : Nat × Nat) : List α := (t.drop cur.1).take (cur.2 - cur.1)

/-- a chain of `__getitem__` calls on a fresh coordinate (kept slice = the whole table) -/
def meshChain (n : Nat) (items : List (Option Int × Option Int)) : Nat × Nat :=
  items.foldl meshGetitem (0, n)

end Ndcube
