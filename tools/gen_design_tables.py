#!/usr/bin/env python3
"""Rewrite the generated tables of DESIGN.md section 0 (inventory, fixes, known findings) from
evidence/*.json and known_findings.json.  Tables sit between <!-- BEGIN x --> / <!-- END x --> markers."""
import json, glob, os, re, collections
ROOT = os.path.dirname(os.path.dirname(os.path.abspath(__file__)))
k = json.load(open(os.path.join(ROOT, "known_findings.json")))["findings"]
ev = {}
for f in sorted(glob.glob(os.path.join(ROOT, "evidence", "C*.json"))):
    e = json.load(open(f)); ev[e["property_id"]] = e
inv = ["| property | theorems audited | witness examples | cases (last run, tier) | distinct non-trivial | wall s |", "|---|---|---|---|---|---|"]
for pid in sorted(ev):
    c = ev[pid]["coverage"]
    inv.append(f"| {pid} | {len(c['theorems'])} | {c['witness_examples']} | {c['evaluations']} ({ev[pid]['tier']}) | {c['distinct_nontrivial']} | {ev[pid]['wall_s']} |")
fx = ["| property | commit | what failed |", "|---|---|---|"]
for f in sorted((f for f in k if f["status"] == "fixed"), key=lambda f: f["property"]):
    w = f["what"]
    w = re.sub(r"^fixed: property=\S+ (\S+ )?", "", w) if w.startswith("fixed:") else w
    if w.startswith(f.get("commit", "~") + " "):
        w = w[len(f["commit"]) + 1:]
    fx.append(f"| {f['property']} | `{f.get('commit', '')}` | {w} |")
kn = ["| property | signature | what fails |", "|---|---|---|"]
for f in k:
    if f["status"] == "known":
        kn.append(f"| {f['property']} | `{f['signature']}` | {f['what']} |")
tables = {"inventory": "\n".join(inv), "fixed": "\n".join(fx), "known": "\n".join(kn),
          "counts": f"{sum(1 for f in k if f['status'] == 'fixed')} repaired, {sum(1 for f in k if f['status'] == 'known')} known findings"}
p = os.path.join(ROOT, "DESIGN.md")
s = open(p).read()
for name, body in tables.items():
    pat = re.compile(rf"(<!-- BEGIN {name} -->\n).*?(\n<!-- END {name} -->)", re.S)
    if not pat.search(s):
        raise SystemExit(f"marker {name} missing")
    s = pat.sub(lambda m: m.group(1) + body + m.group(2), s)
open(p, "w").write(s)
print(tables["counts"])
