"""C08 — rebin computes each output element from exactly its block of inputs."""
import itertools, random
from fractions import Fraction
import numpy as np
import astropy.units as u

import common as C
import wcsfam as W
from core import err_kind

ID = "C08"
MODEL_OP = "rebin"
RULE = ("cubes of 1-4 dims with divisor-rich shapes; bin shapes: every divisor combination (ints), floats that round "
        "(incl. x.5 half-even cases), pixel Quantities, plus refused ones (wrong length, non-divisor, non-pixel unit); "
        "7 operations x mask {None, scalar False/True, all-false, all-true, random} x operation_ignores_mask x "
        "handle_mask {all, any, None}; numpy and dask payloads; small integer data (exact sums/products), NaNs for "
        "the nan-operations. Non-trivial = bin shape not all ones and accepted; distinct = the whole case")
TRUSTED = ["numpy reductions on explicit member lists as the reference (no reshape involved)", "numpy masked-array semantics"]
ASSUMPTIONS = ["blocks with no contributing element (all masked, or all NaN under nanmean) are excluded from the value comparison (numpy leaves a fill value / NaN, dask a masked element)",
               "means are compared at rtol 1e-12 against the exact rational"]
OPS = {"sum": np.sum, "mean": np.mean, "nansum": np.nansum, "nanmean": np.nanmean, "min": np.min, "max": np.max, "prod": np.prod}
SHAPES = [[4], [6], [8], [4, 6], [6, 4], [2, 6], [3, 4], [2, 6, 4], [4, 2, 3], [2, 2, 2], [2, 3, 4, 2], [2, 2, 3, 2]]


def corpus():
    return C.read_corpus(ID)


def divisors(n):
    return [d for d in range(1, n + 1) if n % d == 0]


def generate(rng, tier):
    n = 900 if tier == "quick" else 100000
    for _ in range(n):
        shape = rng.choice(SHAPES)
        size = int(np.prod(shape))
        r = rng.random()
        bins = [rng.choice(divisors(s)) for s in shape]
        form = "int"
        if r < 0.08:
            bins = bins[:-1] if rng.random() < 0.5 or len(bins) == 1 else bins + [1]
            if not bins:
                bins = [1, 1]
            form = "wronglen"
        elif r < 0.16:
            ax = rng.randrange(len(shape))
            nd = [d for d in range(2, shape[ax] + 2) if shape[ax] % d != 0]
            if nd:
                bins[ax] = rng.choice(nd); form = "nondivisor"
        elif r < 0.3:
            # floats that round to the divisor (np.rint, half to even)
            fb = []
            for b in bins:
                opts = [b + 0.4, b - 0.4, float(b)]
                if b % 2 == 0:
                    opts += [b + 0.5, b - 0.5]
                fb.append(rng.choice(opts))
            bins = fb; form = "float"
        elif r < 0.38:
            form = "quantity"
        elif r < 0.41:
            form = "badunit"
        elif r < 0.45:
            bins = [1] * len(shape); form = "ones"
        op = rng.choice(list(OPS))
        mk = rng.choice(["none", "none", "false", "true", "allfalse", "alltrue", "random", "random"])
        bits = None
        if mk == "random":
            bits = [rng.random() < 0.35 for _ in range(size)]
        data = [rng.randint(0, 4) for _ in range(size)]
        nans = []
        if op in ("nansum", "nanmean") or rng.random() < 0.1:
            nans = [i for i in range(size) if rng.random() < 0.2]
        yield {"shape": shape, "bins": bins, "form": form, "op": op, "mask": mk, "bits": bits, "data": data, "nans": nans,
               "ignores": rng.random() < 0.4, "handle": rng.choice(["all", "all", "any", "none"]),
               "payload": "dask" if rng.random() < 0.15 else "numpy", "new_unit": rng.random() < 0.2,
               "wseed": rng.randrange(10**6)}

    # chains: lazy payloads (with a numpy or a lazy mask) and numpy payloads, binned by the smallest divisor so
    # that the result can be rebinned again (the second step is checked in run)
    for k in range(60 if tier == "quick" else 3000):
        shape = rng.choice([[8], [4, 6], [4, 4], [2, 4, 6], [12], [6, 4]])
        size = int(np.prod(shape))
        bins = [min(q for q in divisors(n) if q > 1) if n > 2 else 1 for n in shape]
        yield {"shape": shape, "bins": bins, "form": "int", "op": rng.choice(["sum", "mean", "sum", "nansum"]),
               "mask": rng.choice(["random", "random", "allfalse", "none"]), "bits": [rng.random() < 0.15 for _ in range(size)],
               "data": [rng.randint(0, 4) for _ in range(size)], "nans": [], "ignores": rng.random() < 0.25,
               "handle": rng.choice(["all", "all", "any"]), "payload": "dask" if k % 3 else "numpy", "new_unit": False,
               "wseed": rng.randrange(10**6) * 6 + rng.choice([1, 2, 4, 5])}


class HeaderLikeMeta(dict):
    """keys are case-insensitive, as in a FITS header"""
    def __getitem__(self, key):
        return super().__getitem__(key.lower() if isinstance(key, str) else key)


def build(case):
    from ndcube import NDCube
    shape = tuple(case["shape"])
    d = np.array(case["data"], dtype=float)
    for i in case["nans"]:
        d[i] = np.nan
    d = d.reshape(shape)
    if not case["nans"] and case["wseed"] % 8 == 4:
        d = (d * 60).astype(np.uint8)           # detector counts in a narrow dtype: a block's sum does not fit in it
    elif not case["nans"] and case["wseed"] % 4 == 0:
        d = d.astype(np.int64)                  # integer data (the values are small integers anyway)
    mk = case["mask"]
    mask = {"none": None, "false": False, "true": True}.get(mk, "arr")
    if isinstance(mask, bool) and case["wseed"] % 2 == 0:
        mask = np.bool_(mask)          # numpy's own boolean scalar (numpy.ma.nomask is numpy.False_)
    if mask == "arr":
        if mk == "allfalse":
            mask = np.zeros(shape, dtype=bool)
        elif mk == "alltrue":
            mask = np.ones(shape, dtype=bool)
        else:
            mask = np.array(case["bits"], dtype=bool).reshape(shape)
    data = d
    if case["payload"] == "dask":
        import dask.array as da
        data = da.from_array(d, chunks=tuple(max(1, s // 2) for s in shape))
        if isinstance(mask, np.ndarray) and case["wseed"] % 2:
            # (a lazy payload with a lazy mask, or - every second case - with a plain numpy mask)
            mask = da.from_array(mask, chunks=tuple(max(1, s // 2) for s in shape))
    wcs = W.make_wcs(random.Random(case["wseed"]), shape, "probe")
    meta = {"m": 1}
    if case["wseed"] % 3 == 2:
        meta = HeaderLikeMeta(m=1)             # a mapping subclass with behaviour and an attribute of its own
        meta.source = "level-1 file"
    return NDCube(data, wcs=wcs, mask=mask, unit=u.ct, meta=meta), d, mask


def run(case):
    cube, d, mask = build(case)
    shape = tuple(case["shape"])
    bins = case["bins"]
    form = case["form"]
    # the bin shape as a tuple, a list, an ndarray, or a tuple of numpy integers (when all entries are integers)
    arg = [tuple, list, np.array, lambda b: tuple(np.int64(x) if float(x).is_integer() else x for x in b)][case["wseed"] % 4](bins)
    if case["wseed"] % 4 == 2 and form == "float":
        arg = np.array(bins, dtype=float)           # (a float64 array: what an in-place rounding would write into)
    if form == "quantity":
        arg = np.array(bins) * u.pix
        if case["wseed"] % 3 == 1:
            # the same number of pixels in another unit that converts to pixels (2-pixel "superpixels", decapixels)
            big = u.def_unit("superpix", 2 * u.pix) if case["wseed"] % 2 else u.dapix
            arg = arg.to(big)
    elif form == "badunit":
        arg = np.array(bins) * u.m
    hm = {"all": np.all, "any": np.any, "none": None}[case["handle"]]
    kwargs = {"operation": OPS[case["op"]], "operation_ignores_mask": case["ignores"], "handle_mask": hm}
    if case["new_unit"]:
        kwargs["new_unit"] = u.m
    tags = [f"ndim={len(shape)}", f"form={form}", f"op={case['op']}", f"mask={case['mask']}", f"ignores={case['ignores']}",
            f"handle={case['handle']}", f"payload={case['payload']}"]
    res = {"tags": tags, "oracle": None}
    mjson = None if case["mask"] == "none" else (False if case["mask"] == "false" else True if case["mask"] == "true" else
             [bool(x) for x in np.asarray(C.materialize(mask)).ravel()])
    if form != "badunit":
        res["model_req"] = {"op": "rebin", "shape": list(shape),
                            "data": ["nan" if i in set(case["nans"]) else case["data"][i] for i in range(len(case["data"]))],
                            "mask": mjson, "binShape": [frac(b) for b in bins], "operation": case["op"],
                            "ignoresMask": case["ignores"], "handleMask": case["handle"]}
    else:
        res["model_req"] = None
    narrow = np.asarray(d).dtype == np.uint8
    if narrow:
        res["model_req"] = None      # (the uint8 variant holds other values than the case's small integers: oracle only)
    frozen_arg = C.freeze(arg)
    try:
        out, err = cube.rebin(arg, **kwargs), None
    except Exception as e:
        out, err = None, err_kind(e)
    arg_edited = C.freeze(arg) != frozen_arg      # (successful or refused: the caller's bin shape is not to be edited)
    res["impl"] = {"err": err}
    tags.append("outcome=" + (err or "ok"))
    if arg_edited:
        res["oracle"] = f"rebin edited the bin shape the caller passed in (now {arg!r})"
        return res
    ib = [int(np.rint(b)) for b in bins]
    if form == "badunit":
        if err != "UnitsError":
            res["oracle"] = f"non-pixel Quantity bin shape gave {err or 'a result'} (expected a units error)"
        return res
    if all(b == 1 for b in ib):
        if err or C.materialize(out.data).shape != shape or not np.array_equal(C.materialize(out.data), d, equal_nan=True):
            res["oracle"] = "all-ones bin shape did not return an equal cube"
        res["impl"]["identity"] = out is cube
        return res
    if len(ib) != len(shape) or any(s % b for s, b in zip(shape, ib)):
        if err != "ValueError":
            res["oracle"] = f"bin shape {bins} for shape {shape} gave {err or 'a result'} (expected ValueError)"
        return res
    if err:
        res["oracle"] = f"valid bin shape {bins} refused with {err}"
        return res
    res["nontrivial"] = repr(sorted(case.items(), key=str))
    try:
        fails = []
        got = np.asarray(np.ma.getdata(C.materialize(out.data)), dtype=float)
        if case["payload"] == "dask" and not hasattr(out.data, "compute"):
            fails.append("dask payload computed eagerly by rebin")
        new_shape = tuple(s // b for s, b in zip(shape, ib))
        if got.shape != new_shape:
            fails.append(f"shape {got.shape} != quotient {new_shape}")
        marr = None
        if isinstance(mjson, list):
            marr = np.array(mjson).reshape(shape)
        elif mjson is True:
            marr = np.ones(shape, dtype=bool)
        use_mask = marr is not None and not case["ignores"]
        op = OPS[case["op"]]
        values = []
        if not fails:
            for j in np.ndindex(*new_shape):
                sl = tuple(slice(jj * b, (jj + 1) * b) for jj, b in zip(j, ib))
                blk = d[sl].ravel()
                if use_mask:
                    blk = blk[~marr[sl].ravel()]
                if blk.size == 0 or (case["op"] == "nanmean" and np.isnan(blk).all()):
                    values.append(None); continue     # nothing contributes: numpy / dask leave fill values or NaN
                with np.errstate(all="ignore"):
                    exp = float(op(blk))
                values.append(float(got[j]))
                if not np.isclose(got[j], exp, rtol=1e-12, atol=0, equal_nan=True):
                    fails.append(f"output element {list(j)} = {got[j]}, {case['op']} over its block"
                                 f"{' (unmasked members)' if use_mask else ''} = {exp}")
                    break
        # mask
        om = out.mask
        if case["handle"] == "none":
            if om is not None:
                fails.append("handle_mask=None but a mask is present")
            mobs = None
        elif mjson is None or isinstance(mjson, bool):
            if (om is None) != (mjson is None) or (mjson is not None and om is not mask):
                fails.append(f"scalar/absent mask not kept: {om!r}")
            mobs = mjson
        else:
            omv = np.asarray(C.materialize(om))
            expm = np.zeros(new_shape, dtype=bool)
            for j in np.ndindex(*new_shape):
                sl = tuple(slice(jj * b, (jj + 1) * b) for jj, b in zip(j, ib))
                expm[j] = hm(marr[sl])
            if omv.shape != expm.shape or not np.array_equal(omv, expm):
                fails.append("output mask is not handle_mask applied per block")
            mobs = [bool(x) for x in omv.ravel()]
        if out.unit != (u.m if case["new_unit"] else u.ct):
            fails.append(f"unit {out.unit}")
        if out.meta is not cube.meta and out.meta != cube.meta:
            fails.append("meta not carried over")
        if type(out.meta) is not type(cube.meta) or getattr(out.meta, "source", None) != getattr(cube.meta, "source", None):
            fails.append(f"meta carried over as a {type(out.meta).__name__} (source attribute {getattr(out.meta, 'source', None)!r}), "
                         f"the cube holds a {type(cube.meta).__name__}")
        res["obs"] = {"shape": list(got.shape), "values": [None if np.isnan(v) else v for v in got.ravel().tolist()],
                      "isnan": [bool(np.isnan(v)) for v in got.ravel().tolist()], "mask": mobs}
        # the result is a cube like any other: rebinning IT (same options) must again give the operation over the
        # blocks of its values, honouring its mask - the second step meets whatever the first left behind (lazy
        # graphs, masked-array views).  Only where every first-step value is defined.
        if not fails and case["wseed"] % 3 != 0 and all(v is not None for v in values) and np.all(np.isfinite(got)) \
                and not (narrow and case["op"] == "prod"):      # (a product of promoted integers overflows uint64 in numpy itself)
            ib2 = [max([q for q in divisors(n) if q < n] or [1]) if n > 1 else 1 for n in new_shape]
            if any(b > 1 for b in ib2):
                m2 = None
                if case["handle"] != "none" and isinstance(mjson, list):
                    m2 = np.asarray(C.materialize(out.mask)).astype(bool)
                use2 = m2 is not None and not case["ignores"]
                try:
                    out2 = out.rebin(tuple(ib2), **{k: v for k, v in kwargs.items() if k != "new_unit"})
                    got2 = np.asarray(np.ma.getdata(C.materialize(out2.data)), dtype=float)
                    shape2 = tuple(n // b for n, b in zip(new_shape, ib2))
                    if got2.shape != shape2:
                        fails.append(f"second rebin by {ib2}: shape {got2.shape} != {shape2}")
                    else:
                        for j in np.ndindex(*shape2):
                            sl = tuple(slice(jj * b, (jj + 1) * b) for jj, b in zip(j, ib2))
                            blk = got[sl].ravel()
                            if use2:
                                blk = blk[~m2[sl].ravel()]
                            if blk.size == 0:
                                continue
                            with np.errstate(all="ignore"):
                                exp2 = float(op(blk))
                            if not np.isclose(got2[j], exp2, rtol=1e-12, atol=0, equal_nan=True):
                                fails.append(f"second rebin by {ib2} of the result: element {list(j)} = {got2[j]}, "
                                             f"{case['op']} over its block of the first result = {exp2}")
                                break
                    tags.append("second-rebin")
                except Exception as e:
                    fails.append(f"second rebin by {ib2} of the result raised {type(e).__name__}: {str(e)[:120]}")
        if fails:
            res["oracle"] = "; ".join(fails[:2])
    except Exception as e:
        import traceback
        res["oracle"] = f"observing the rebinned cube raised {type(e).__name__}: {str(e)[:200]}"
        res["trace"] = traceback.format_exc()[-600:]
    return res


def frac(b):
    f = Fraction(b).limit_denominator(1000)
    return int(f) if f.denominator == 1 else [f.numerator, f.denominator]


def compare(case, r, m):
    err = r["impl"]["err"]
    if err:
        if "err" not in m:
            return f"implementation raised {err}, model returns a result"
        return None if m["err"] == err else f"implementation raised {err}, model says {m['err']}"
    if "err" in m:
        return f"implementation returned a result, model says {m['err']}"
    if m.get("identity"):
        return None if r["impl"].get("identity", True) else "model returns the cube itself, implementation a new object"
    if "obs" not in r:
        return None
    o = r["obs"]
    if o["shape"] != m["shape"]:
        return f"shape: implementation {o['shape']} vs model {m['shape']}"
    for k, (v, nanflag, mv) in enumerate(zip(o["values"], o["isnan"], m["values"])):
        if mv is None:
            continue
        if mv == "nan":
            if case["op"] == "nanmean":
                continue                              # mean of an all-NaN block: no defined value
            if not nanflag:
                return f"value {k}: implementation {v}, model NaN"
            continue
        q = mv[0] / mv[1] if isinstance(mv, list) else mv
        if nanflag or not np.isclose(v, q, rtol=1e-12, atol=0):
            return f"value {k}: implementation {'nan' if nanflag else v} vs model {q}"
    if o["mask"] != m["mask"]:
        return f"mask: implementation {o['mask']} vs model {m['mask']}"
    return None


def signature(case, failure):
    return "other:" + failure[:60]


def shrink(case):
    for simple in ({"payload": "numpy"}, {"new_unit": False}, {"nans": []}, {"form": "int"} if case["form"] in ("float", "quantity") else {}):
        if simple and any(case.get(k) != v for k, v in simple.items()):
            c = {**case, **simple}
            if "form" in simple:
                c["bins"] = [int(np.rint(b)) for b in case["bins"]]
            yield c
    if case["mask"] not in ("none",):
        yield {**case, "mask": "none", "bits": None}
