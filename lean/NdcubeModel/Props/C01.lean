import NdcubeModel.Lemmas.Index

/-!
# C01 — index slicing keeps data and primary-WCS coordinates in lock-step

Property theorems only.  `∀ w : LLWcs ω` quantifies over every WCS (its coordinate functions
are parameters), shapes / dimensionalities / items are unbounded.
-/

namespace Ndcube.C01

open Ndcube

/-- Per-axis agreement with Python: a (possibly negative / over-long / open) slice item, after
ndcube's negative normalisation, keeps exactly the elements `l[start:stop]` and element `x` of
the result is source element `start + x`. -/
theorem axis_slice_spec {α} (l : List α) (s e : Option Int) :
    ∃ it start len, normalizeNegative l.length (.slice s e none) = .ok it ∧
      applyAxis l.length it = .ok (.kept start len) ∧
      (pySlice l s e).length = len ∧
      ∀ x, x < len → (pySlice l s e)[x]? = l[start + x]? := by
  refine ⟨_, _, _, rfl, rfl, ?_, ?_⟩
  · have hlo := clampBound_le l.length s 0 (Nat.zero_le _)
    have hhi := clampBound_le l.length e l.length (Nat.le_refl _)
    simp only [clampBound_normBound, pySlice, sliceBounds, List.length_take, List.length_drop]
    omega
  · intro x hx
    simp only [clampBound_normBound] at hx
    have hhi := clampBound_le l.length e l.length (Nat.le_refl _)
    rw [start_eq_lo l.length s _ hhi (by omega)]
    simp only [pySlice, sliceBounds]
    rw [List.getElem?_take, if_pos hx, List.getElem?_drop]

/-- Per-axis agreement with Python for an integer item: in range `[-n, n)` it selects
`l[i mod n]` and the axis is dropped; otherwise `IndexError`. -/
theorem axis_int_spec (n : Nat) (i : Int) :
    (normalizeNegative n (.int i) >>= applyAxis n) = (normIndex n i).map AxisRes.dropped := by
  simp only [normalizeNegative, normIndex, bind, Except.bind, Except.map]
  by_cases h0 : i < 0
  · by_cases h1 : i < -(n : Int)
    · have : ¬ (0 ≤ i) := by omega
      have h2 : ¬ (-(n:Int) ≤ i) := by omega
      simp [h0, h1, this, h2]
    · have : ¬ (0 ≤ i) := by omega
      have h2 : (-(n:Int) ≤ i) := by omega
      have h3 : 0 ≤ i + n ∧ i + n < n := by omega
      simp [h0, h1, this, h2, applyAxis, h3]
  · have : 0 ≤ i := by omega
    by_cases h1 : i < n
    · simp [h0, this, h1, applyAxis]
    · simp [h0, this, h1, applyAxis]

/-- `None` anywhere in the index is refused with `IndexError`. -/
theorem getitem_none {α ω} (c : Cube α ω) (items : List Item)
    (h : items.any (· == .none) = true) : c.getitem items = .error .indexError := by
  have h' := stripEmptyEllipsis_any_none c.shape.length items
  rw [h] at h'
  simp only [Cube.getitem, normItems, sanitize, h', bind, Except.bind, if_true]

/-- **Data, mask and uncertainty**: the result holds, at every multi-index `r`, the source's
value at `srcIndex axes r`, where `axes` is the per-axis effect of the item; a scalar mask is
kept as it is. -/
theorem getitem_data {α ω} (c c' : Cube α ω) (items : List Item) (h : c.getitem items = .ok c') :
    ∃ its axes, normItems c.shape items = .ok its ∧ applyAxes c.shape its = .ok axes ∧
      c'.shape = resultShape axes ∧
      (∀ r, c'.data r = c.data (srcIndex axes r)) ∧
      (∀ m, c.mask = .array m → ∃ m', c'.mask = .array m' ∧ ∀ r, m' r = m (srcIndex axes r)) ∧
      (∀ b, c.mask = .scalar b → c'.mask = .scalar b) ∧
      (c.mask = .absent → c'.mask = .absent) ∧
      (∀ u, c.uncert = some u → ∃ u', c'.uncert = some u' ∧ ∀ r, u' r = u (srcIndex axes r)) ∧
      c'.metaId = c.metaId := by
  simp only [Cube.getitem, bind, Except.bind] at h
  split at h
  · cases h
  · rename_i its hits
    split at h
    · cases h
    · rename_i axes haxes
      split at h
      · cases h
      · rename_i w hw
        simp only [pure, Except.pure] at h
        cases h
        refine ⟨its, axes, hits, haxes, rfl, fun _ => rfl, ?_, ?_, ?_, ?_, rfl⟩
        · intro m hm; simp [hm]
        · intro b hb; simp [hb]
        · intro hb; simp [hb]
        · intro u hu; simp [hu]

/-- **Lock-step of the WCS**: for every base WCS `w`, every shape and every index, every
surviving element `r` reports through the sliced WCS exactly the world values of the kept
world axes that `w` gives for the source element `srcIndex axes r`. -/
theorem getitem_wcs_lockstep {α ω} (c c' : Cube α ω) (items : List Item)
    (h : c.getitem items = .ok c') :
    ∃ its axes, normItems c.shape items = .ok its ∧ applyAxes c.shape its = .ok axes ∧
      ∀ r, inShape c'.shape r →
        inShape c.shape (srcIndex axes r) ∧
        c'.wcs.p2w (castN r).reverse =
          selectIdx (worldKeep c.wcs.corr c.wcs.worldDim (pixelKeep its.reverse))
            (c.wcs.p2w (castN (srcIndex axes r)).reverse) := by
  simp only [Cube.getitem, bind, Except.bind] at h
  split at h
  · cases h
  · rename_i its hits
    split at h
    · cases h
    · rename_i axes haxes
      split at h
      · cases h
      · rename_i w hw
        simp only [pure, Except.pure] at h
        cases h
        refine ⟨its, axes, hits, haxes, ?_⟩
        intro r hr
        have hnn := normItems_nonneg hits
        refine ⟨srcIndex_inShape haxes hnn r hr, ?_⟩
        simp only [slicedWcs] at hw
        split at hw
        · cases hw
        · cases hw
          have hlen : (castN r).length = nonIntCount its := by
            simp [castN, inShape_length hr, resultShape_length haxes]
          simp only
          rw [underPix_reverse its (castN r) hlen,
            underPix_srcIndex haxes hnn r (by simpa [castN] using hlen)]

/-- The sliced WCS has one pixel axis per remaining array axis, and, when the WCS records the
array shape of the data, its array shape is the sliced data's shape. -/
theorem getitem_wcs_dims {α ω} (c c' : Cube α ω) (items : List Item)
    (h : c.getitem items = .ok c') :
    c'.wcs.pixDim = c'.shape.length ∧
    (c.wcs.shape = some c.shape → c'.wcs.shape = some c'.shape) ∧
    (c.wcs.shape = none → c'.wcs.shape = none) := by
  simp only [Cube.getitem, bind, Except.bind] at h
  split at h
  · cases h
  · rename_i its hits
    split at h
    · cases h
    · rename_i axes haxes
      split at h
      · cases h
      · rename_i w hw
        simp only [pure, Except.pure] at h
        cases h
        simp only [slicedWcs] at hw
        split at hw
        · cases hw
        · cases hw
          refine ⟨?_, ?_, ?_⟩
          · simp [pixelKeep_reverse_length, resultShape_length haxes]
          · intro hs; simp [hs, slicedShape_eq haxes]
          · intro hs; simp [hs]

/-- An index that puts an integer on every axis is refused (`ValueError` from the WCS slicing:
scalar cubes are not supported, or `IndexError` when an integer is out of range). -/
theorem getitem_scalar_refused {α ω} (c : Cube α ω) (items : List Item)
    (hlen : items.length = c.shape.length) (hall : ∀ it ∈ items, it.isInt = true) :
    c.getitem items = .error .valueError ∨ c.getitem items = .error .indexError := by
  simp only [Cube.getitem, normItems, stripEmptyEllipsis_of_ne _ _ (Or.inl (by omega : items.length ≠ c.shape.length + 1)),
    sanitize_all_int_ok hlen hall, bind, Except.bind]
  split
  · rename_i e he
    right; rw [normAxes_error he]
  · rename_i its hits
    split
    · rename_i e he
      right; rw [applyAxes_error he]
    · left
      rw [slicedWcs_all_int c.wcs its (normAxes_all_int hits hall)]

/-- **An Ellipsis that stands for no axis** (one entry per axis plus a single Ellipsis, valid for
numpy) is simply ignored: the index behaves exactly like the same entries without it. -/
theorem getitem_empty_ellipsis {α ω} (c : Cube α ω) (items : List Item)
    (hlen : items.length = c.shape.length + 1) (hone : countEllipsis items = 1) :
    c.getitem items = c.getitem (items.filter (· != .ellipsis)) := by
  have hfl : ∀ l : List Item, (l.filter (· != .ellipsis)).length + countEllipsis l = l.length := by
    intro l
    induction l with
    | nil => rfl
    | cons it its ih =>
      simp only [countEllipsis] at ih ⊢
      cases it <;> simp [List.filter_cons] at ih ⊢ <;> omega
  have hfl := hfl items
  have h1 : stripEmptyEllipsis c.shape.length items = items.filter (· != .ellipsis) := by
    simp [stripEmptyEllipsis, hlen, hone]
  have h2 : stripEmptyEllipsis c.shape.length (items.filter (· != .ellipsis)) = items.filter (· != .ellipsis) :=
    stripEmptyEllipsis_of_ne _ _ (Or.inl (by omega))
  simp only [Cube.getitem, normItems, h1, h2]

end Ndcube.C01
