import NdcubeModel.Model.Cube

/-!
# NDCollection: aligned-axis bookkeeping as a state machine

Members are `(key, shape)` pairs in dict order; the aligned axes are a second ordered dict
`key ↦ tuple of axes` (or absent).  Mirrors `ndcube/ndcollection.py` and
`ndcube/utils/collection.py` (after the `fix:` commits recorded in known_findings.json).
-/

namespace Ndcube

abbrev Key := Nat

/-! ## ordered-dict helpers (insertion order, last write wins in place) -/

def dlookup {β} (k : Key) : List (Key × β) → Option β
  | [] => none
  | (k', v) :: rest => if k' = k then some v else dlookup k rest

def derase {β} (k : Key) : List (Key × β) → List (Key × β)
  | [] => []
  | (k', v) :: rest => if k' = k then rest else (k', v) :: derase k rest

/-- `dict[k] = v`: replace in place when present, else append. -/
def dupsert {β} (k : Key) (v : β) : List (Key × β) → List (Key × β)
  | [] => [(k, v)]
  | (k', v') :: rest => if k' = k then (k, v) :: rest else (k', v') :: dupsert k v rest

/-- `dict.update(pairs)` / `dict(pairs)` -/
def dupdate {β} (d : List (Key × β)) (pairs : List (Key × β)) : List (Key × β) :=
  pairs.foldl (fun acc p => dupsert p.1 p.2 acc) d

structure Coll where
  members  : List (Key × List Nat)
  aligned  : Option (List (Key × List Nat))
  nAligned : Nat
deriving Repr

/-! ## `_update_aligned_axes` -/

/-- Remove the entry at position `d` and renumber the axes above the removed one. -/
def drop1 (d : Nat) (axes : List Nat) : List Nat :=
  let m := axes.getD d 0
  (axes.eraseIdx d).map fun a => if a > m then a - 1 else a

/-- The per-member loop of `_update_aligned_axes`: each dropped index (renumbered as entries
are removed) removes one aligned axis.  `fuel` is the number of iterations left (the loop runs
once per drop index). -/
def dropLoopF : Nat → List Nat → List Nat → List Nat
  | 0, _, axes => axes
  | _, [], axes => axes
  | fuel + 1, d :: ds, axes => dropLoopF fuel (ds.map fun x => if x > d then x - 1 else x) (drop1 d axes)

def dropLoop (drops axes : List Nat) : List Nat := dropLoopF drops.length drops axes

/-- `_update_aligned_axes(drop_indices, aligned_axes, first_key)`: `none` = no aligned axes left. -/
def updateAlignedAxes (drops : List Nat) (aligned : List (Key × List Nat)) : Option (List (List Nat)) :=
  if drops.length = 0 then some (aligned.map (·.2))
  else if drops.length = ((aligned.headD (0, [])).2).length then none
  else some (aligned.map fun p => dropLoop drops p.2)

/-! ## numeric slicing -/

/-- `[slice(None)] * ndim` with `item_i` written at the member's `i`-th aligned axis. -/
def memberItems (ndim : Nat) (axes : List Nat) (its : List Item) : List Item :=
  (its.zip axes).foldl (fun acc p => acc.set p.2 p.1) (List.replicate ndim Item.all)

/-- positions of the integer entries of the index -/
def intPositions (its : List Item) : List Nat :=
  (List.range its.length).filter fun i => (its.getD i Item.all).isInt

/-- Does slicing a member of this shape with these items succeed? -/
def memberCheck (shape : List Nat) (items : List Item) : Except Err (List Nat) := do
  let its ← normItems shape items
  let axes ← applyAxes shape its
  if its.all Item.isInt then .error .valueError else pure (resultShape axes)

/-- The index of `NDCollection.__getitem__` when it is not a key. -/
inductive NumIndex where
  | int (i : Int)
  | slice (a b st : Option Int)
  | tuple (its : List Item)
deriving Repr

def NumIndex.items : NumIndex → List Item
  | .int i => [.int i]
  | .slice a b st => [.slice a b st]
  | .tuple its => its

/-- `collection[item]` for a numeric item: the new collection and the item applied to each member. -/
def Coll.sliceNum (c : Coll) (ix : NumIndex) : Except Err (Coll × List (List Item)) :=
  match c.aligned with
  | none => .error .indexError
  | some al =>
    let its := ix.items
    if its.length > c.nAligned then .error .indexError else
    let drops := match ix with
      | .int _ => [0]
      | .slice _ _ _ => []
      | .tuple its => intPositions its
    let memberIts := c.members.map fun (k, sh) => memberItems sh.length ((dlookup k al).getD []) its
    let newAl := updateAlignedAxes drops al
    do
      let newShapes ← (c.members.zip memberIts).mapM fun ((_, sh), it) => memberCheck sh it
      let keys := c.members.map (·.1)
      let newAlD := newAl.map fun l => keys.zip l
      pure ({ members := keys.zip newShapes, aligned := newAlD,
              nAligned := match newAlD with
                | none => 0
                | some l => ((l.headD (0, [])).2).length },
            memberIts)

/-! ## selection by keys, copy, pop, del, update -/

/-- `collection[(k1, k2, ...)]` -/
def Coll.select (c : Coll) (ks : List Key) : Except Err Coll :=
  match ks.mapM fun k => (dlookup k c.members).map fun sh => (k, sh) with
  | none => .error .keyError
  | some ms =>
    if ks = [] then .error .valueError else
    let al := c.aligned.map fun al => dupdate [] (ks.map fun k => (k, (dlookup k al).getD []))
    .ok { members := dupdate [] ms, aligned := al,
          nAligned := match al with
            | none => 0
            | some l => ((l.headD (0, [])).2).length }

def Coll.copy (c : Coll) : Coll := c

def Coll.pop (c : Coll) (k : Key) : Except Err Coll :=
  match dlookup k c.members with
  | none => .error .keyError
  | some _ => .ok { c with members := derase k c.members, aligned := c.aligned.map (derase k) }

/-- `assert_aligned_axes_compatible` on the first members. -/
def axesCompatible (sh1 sh2 : List Nat) (ax1 ax2 : Option (List Nat)) : Bool :=
  match ax1, ax2 with
  | none, none => true
  | some a1, some a2 =>
    decide (a1.length = a2.length) && decide ((a1.map fun a => sh1.getD a 0) = (a2.map fun a => sh2.getD a 0))
  | _, _ => false

/-- `collection.update(other)` with another (already sanitised) collection. -/
def Coll.update (c other : Coll) : Except Err Coll :=
  match c.members, other.members with
  | (k1, sh1) :: _, (k2, sh2) :: _ =>
    let ax1 := c.aligned.map fun al => (dlookup k1 al).getD []
    let ax2 := other.aligned.map fun al => (dlookup k2 al).getD []
    if axesCompatible sh1 sh2 ax1 ax2 then
      .ok { c with members := dupdate c.members other.members,
                   aligned := match c.aligned, other.aligned with
                     | some a, some b => some (dupdate a b)
                     | a, _ => a }
    else .error .valueError
  | _, _ => .error .indexError

/-! ## `_sanitize_user_aligned_axes` (constructor / two-argument update) -/

/-- Are the aligned axes well formed for these member shapes: one tuple per member, all of the
same length, every axis present on its member, `i`-th axes of equal length? -/
def axesValid (shapes : List (List Nat)) (axes : List (List Nat)) : Bool :=
  decide (axes.length = shapes.length) &&
  (match axes with
   | [] => true
   | a0 :: _ =>
     axes.all (fun a => decide (a.length = a0.length)) &&
     (shapes.zip axes).all (fun (sh, ax) => ax.all fun a => decide (a < sh.length)) &&
     (List.range a0.length).all fun j =>
       (shapes.zip axes).all fun (sh, ax) =>
         decide (sh.getD (ax.getD j 0) 0 = (shapes.headD []).getD (a0.getD j 0) 0))

/-- `NDCollection(pairs, aligned_axes=tuples)`; any refusal is reported as `ValueError` (the
property only says *refused*). -/
def Coll.init (members : List (Key × List Nat)) (axes : Option (List (List Nat))) : Except Err Coll :=
  if members = [] then .error .valueError else
  match axes with
  | none => .ok { members := dupdate [] members, aligned := none, nAligned := 0 }
  | some ax =>
    if ax.headD [] = [] then .error .valueError else
    if axesValid (members.map (·.2)) ax then
      .ok { members := dupdate [] members,
            aligned := some (dupdate [] ((members.map (·.1)).zip ax)),
            nAligned := (ax.headD []).length }
    else .error .valueError

/-! ## the state machine -/

inductive CollOp where
  | slice (ix : NumIndex)
  | select (ks : List Key)
  | copy
  | pop (k : Key)
  | del (k : Key)
  | update (other : Coll)
  | setitem
  | setdefault
  | popitem
  | mixed            -- keys mixed with indices
deriving Repr

/-- One edit.  Derivations (`slice`, `select`, `copy`) continue with the derived collection;
a refused edit is an `Err` and the state is the old one. -/
def Coll.step (c : Coll) : CollOp → Except Err Coll
  | .slice ix => (c.sliceNum ix).map (·.1)
  | .select ks => c.select ks
  | .copy => .ok c.copy
  | .pop k => c.pop k
  | .del k => c.pop k
  | .update o => c.update o
  | .setitem => .error .notImplemented
  | .setdefault => .error .notImplemented
  | .popitem => .error .notImplemented
  | .mixed => .error .typeError

/-- Run a history; a refused edit leaves the collection as it was. -/
def Coll.run (c : Coll) : List CollOp → Coll
  | [] => c
  | op :: ops =>
    match c.step op with
    | .ok c' => c'.run ops
    | .error _ => c.run ops

end Ndcube
