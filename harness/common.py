"""Shared helpers for property modules: item encoding, cube construction, payload decoding."""
import itertools, json, os, warnings
import numpy as np
import astropy.units as u
from astropy.nddata import StdDevUncertainty

warnings.filterwarnings("ignore")
ROOT = os.path.dirname(os.path.dirname(os.path.abspath(__file__)))


def to_py_item(j, npint=False):
    """JSON item -> Python index entry (with `npint`: numpy integers instead of Python ints)."""
    if j is None:
        return None
    if j == "...":
        return Ellipsis
    step1 = npint == 2          # spelling 2: every slice without a step is written with the explicit step 1
    unsigned = npint == 3       # spelling 3: non-negative integers as unsigned numpy integers (negative ones as int64)
    npint = npint is True or npint == 1 or unsigned
    def _np(x):
        if abs(x) >= 2 ** 62:
            return int(x)                  # (beyond int64: stays a Python integer)
        return np.uint16(x) if (unsigned and 0 <= x < 60000) else np.int64(x)
    cv = (lambda x: None if x is None else _np(x)) if npint else (lambda x: x)
    if isinstance(j, dict):
        a, b, c = j["s"]
        if step1 and c is None:
            c = 1
        return slice(cv(a), cv(b), cv(c))
    return _np(j) if npint else int(j)


def npint_of(case):
    """The spelling of a case's index entries, derived from the case: 1 = numpy integers instead of Python ints
    (about one case in six), 2 = slices written with the explicit default step 1 (another sixth), 3 = unsigned
    numpy integers (another sixth), 0 = plain."""
    return {0: 1, 3: 2, 5: 3}.get(case.get("wseed", 1) % 6, 0)


def to_py_index(items, bare=False, npint=False):
    t = tuple(to_py_item(i, npint) for i in items)
    if bare and len(t) == 1:
        return t[0]
    return t


def freeze(x):
    """A comparable snapshot of an argument handed to the library (nested lists / tuples / dicts / arrays / Quantities /
    headers / strings / numbers): `freeze(arg)` before a call and after it must be equal - a call, successful or
    refused, does not edit what the caller passed in."""
    import astropy.units as u
    if isinstance(x, u.Quantity):
        return ("Q", type(x).__name__, np.asarray(x.value).shape, np.asarray(x.value, dtype=float).tobytes(), str(x.unit))
    if isinstance(x, np.ndarray):
        return ("A", x.shape, str(x.dtype), x.tobytes() if x.dtype != object else repr(x.tolist()))
    if isinstance(x, dict) or hasattr(x, "cards"):
        return ("D", type(x).__name__, tuple((str(k), freeze(v)) for k, v in dict(x).items()))
    if isinstance(x, (list, tuple)):
        return ("L", type(x).__name__, tuple(freeze(v) for v in x))
    if isinstance(x, (str, int, float, bool, type(None), np.generic)):
        return ("S", type(x).__name__, repr(x))
    return ("O", type(x).__name__, id(x))


def sl(a=None, b=None, c=None):
    return {"s": [a, b, c]}


def item_kind(j, n=None):
    if j is None:
        return "None"
    if j == "...":
        return "ellipsis"
    if isinstance(j, dict):
        a, b, c = j["s"]
        k = "slice"
        if a is None and b is None:
            k += ":all"
        if (a is not None and a < 0) or (b is not None and b < 0):
            k += ":neg"
        if n is not None and ((a is not None and abs(a) > n) or (b is not None and abs(b) > n)):
            k += ":overlong"
        if c is not None:
            k += ":step"
        return k
    return "int:neg" if j < 0 else "int"


def payload(shape, cube_id=0, kind="numpy"):
    """Self-identifying payload: value = cube_id * 10**6 + flat row-major index."""
    n = int(np.prod(shape))
    a = (cube_id * 10**6 + np.arange(n, dtype=float)).reshape(shape)
    if kind == "dask":
        import dask.array as da
        return da.from_array(a, chunks=tuple(max(1, s // 2) for s in shape))
    return a


def decode(values, shape):
    """Payload values -> (cube_id array, tuple of source index arrays)."""
    v = np.asarray(values).astype(np.int64)
    cid = v // 10**6
    flat = v % 10**6
    return cid, np.unravel_index(flat, shape) if len(shape) else ()


def materialize(x):
    return x.compute() if hasattr(x, "compute") else np.asarray(x)


def all_indices(shape, limit, rng):
    """All multi-indices of `shape` if there are at most `limit`, else corners + a random sample."""
    n = int(np.prod(shape)) if len(shape) else 1
    if n == 0:
        return []
    if n <= limit:
        return [list(map(int, ix)) for ix in np.ndindex(*shape)]
    out = set()
    for corner in itertools.product(*[(0, s - 1) for s in shape]):
        out.add(tuple(corner))
    while len(out) < limit:
        out.add(tuple(rng.randrange(s) for s in shape))
    return [list(t) for t in sorted(out)]


def read_corpus(prop_id):
    p = os.path.join(ROOT, "harness", "corpus", f"{prop_id}.jsonl")
    if not os.path.exists(p):
        return []
    return [json.loads(l) for l in open(p) if l.strip() and not l.startswith("#")]


# ---------------------------------------------------------------- sequences
def via_slicing(data, wcs, wseed, **kw):
    """The same cube - same data, same coordinates at every element - reached by slicing a larger cube by ranges
    with other starts on every axis: what the library is handed when its input is itself a result (a slicing
    wrapper around the WCS, data that do not own their memory).  None when the WCS family is not one whose origin
    can be moved (then the caller builds the cube directly)."""
    import random
    from astropy.wcs import WCS
    from ndcube import NDCube
    import wcsfam as W
    if not isinstance(data, np.ndarray) or data.ndim == 0:
        return None
    shape = tuple(data.shape)
    rng = random.Random(wseed * 31 + 7)
    starts = [rng.randint(0, 2) for _ in shape]
    if not any(starts):
        starts[-1] = 1
    ends = [rng.randint(0, 1) for _ in shape]
    big_shape = tuple(a + n + e for a, n, e in zip(starts, shape, ends))
    spix = np.array(starts[::-1], dtype=float)
    if isinstance(wcs, W.ProbeWCS):
        if wcs._bounds is not None or (wcs._shape is not None and tuple(wcs._shape) != shape):
            return None
        big_wcs = W.ProbeWCS(wcs.A, wcs.b - wcs.A @ spix, shape=None if wcs._shape is None else big_shape,
                             units=wcs._un, names=wcs._names, ptypes=wcs._pt)
    elif isinstance(wcs, WCS):
        if wcs.array_shape is not None and tuple(wcs.array_shape) != shape:
            return None
        had_shape = wcs.array_shape is not None
        big_wcs = wcs.deepcopy()
        big_wcs.wcs.crpix = big_wcs.wcs.crpix + spix
        big_wcs.wcs.set()
        big_wcs.array_shape = big_shape if had_shape else None
    else:
        return None
    big = np.full(big_shape, -7, dtype=data.dtype)
    box = tuple(slice(a, a + n) for a, n in zip(starts, shape))
    big[box] = data
    return NDCube(big, wcs=big_wcs, **kw)[box]


def build_cube(shape, cube_id, fam, wseed, with_shape=True, kind="numpy", shift=0):
    """A cube with a self-identifying payload and a WCS of the given family."""
    import random
    from ndcube import NDCube
    import wcsfam as W
    rng = random.Random(wseed)
    wcs = W.make_wcs(rng, tuple(shape), fam, with_shape)
    if shift and isinstance(wcs, W.ProbeWCS):
        wcs.b = wcs.b + shift
    if wseed % 7 == 3 and kind == "numpy":
        cube = via_slicing(payload(tuple(shape), cube_id, kind), wcs, wseed, meta={"cube": cube_id})
        if cube is not None:
            return cube
    return NDCube(payload(tuple(shape), cube_id, kind), wcs=wcs, meta={"cube": cube_id})


def build_sequence(shapes, common_axis, fam="probe", wseed=0):
    from ndcube import NDCubeSequence
    cubes = [build_cube(sh, k, fam, wseed, shift=16 * k) for k, sh in enumerate(shapes)]
    cls = NDCubeSequence
    if wseed % 4 == 2:
        # a subclass (as instrument packages define): what the library derives from it is again of the subclass
        class RasterLikeSequence(NDCubeSequence):
            @property
            def n_rasters(self):
                return len(self.data)
        cls = RasterLikeSequence
    return cls(cubes, meta={"seq": 1}, common_axis=common_axis), cubes


def world_lockstep(result_cube, sources, rng, exact, limit=24):
    """Every sampled element of `result_cube` must report, through its own WCS, the world values
    that the source cube it came from (identified by the payload) reports for the source element.
    Returns None or a failure description."""
    import wcsfam as W
    data = materialize(result_cube.data)
    if data.size == 0:
        return None
    sll = result_cube.wcs.low_level_wcs
    if sll.pixel_n_dim != data.ndim:
        return f"pixel_n_dim {sll.pixel_n_dim} != data.ndim {data.ndim}"
    cids = np.unique(np.asarray(data).astype(np.int64) // 10**6)
    if len(cids) != 1:
        return f"result cube mixes elements of source cubes {cids.tolist()}"
    src_cube = sources[int(cids[0])]
    bll = src_cube.wcs.low_level_wcs
    names, snames = list(bll.world_axis_names), list(sll.world_axis_names)
    if not (len(set(names)) == len(names) and all(nm in names for nm in snames)):
        return f"world axis names {snames} are not a selection of {names}"
    keep = [names.index(nm) for nm in snames]
    _, src_all = decode(data, src_cube.data.shape)
    for r in all_indices(data.shape, limit, rng):
        src = [int(a[tuple(r)]) for a in src_all]
        wv = W.p2w(sll, r[::-1])
        bv = W.p2w(bll, src[::-1])
        want = [bv[i] for i in keep]
        if not W.close(wv, want, exact):
            return f"element {r} of a piece from cube {int(cids[0])} (source {src}) reports world {wv}, its source cube says {want}"
    return None


def gen_bound(rng, n, extra=2):
    return None if rng.random() < 0.25 else rng.randint(-n - extra, n + extra)
