import NdcubeModel.Lemmas.Wrap
import NdcubeModel.Lemmas.Table
import NdcubeModel.Lemmas.Index

/-!
# C09 — rebin keeps the coordinate frame registered to the data
-/

namespace Ndcube.C09
open Ndcube

/-- centre of the block that output element `j` aggregates: `j*f + (f-1)/2` (array order) -/
def blockCentre : List Rat → List Nat → List Rat
  | j :: js, f :: fs => (j * (f : Rat) + ((f : Rat) - 1) / 2) :: blockCentre js fs
  | _, _ => []

theorem mulAdd_reverse (p f o : List Rat) (h1 : f.length = p.length) (h2 : o.length = p.length) :
    mulAdd p.reverse f.reverse o.reverse = (mulAdd p f o).reverse := by
  induction p generalizing f o with
  | nil => cases f <;> cases o <;> simp [mulAdd]
  | cons x xs ih =>
    cases f with
    | nil => simp at h1
    | cons a as =>
      cases o with
      | nil => simp at h2
      | cons b bs =>
        have hl1 : as.length = xs.length := by simpa using h1
        have hl2 : bs.length = xs.length := by simpa using h2
        simp only [List.reverse_cons, mulAdd]
        have hgen : ∀ (p f o : List Rat) (x a b : Rat), f.length = p.length → o.length = p.length →
            mulAdd (p ++ [x]) (f ++ [a]) (o ++ [b]) = mulAdd p f o ++ [x * a + b] := by
          intro p
          induction p with
          | nil => intro f o x a b hf ho; cases f <;> cases o <;> simp_all [mulAdd]
          | cons y ys ihp =>
            intro f o x a b hf ho
            cases f with
            | nil => simp at hf
            | cons c cs =>
              cases o with
              | nil => simp at ho
              | cons d ds =>
                simp only [List.cons_append, mulAdd]
                rw [ihp cs ds x a b (by simpa using hf) (by simpa using ho)]
        rw [hgen xs.reverse as.reverse bs.reverse x a b (by simp [hl1]) (by simp [hl2]), ih as bs hl1 hl2]

theorem mulAdd_centre (j : List Rat) (f : List Nat) (h : f.length = j.length) :
    mulAdd j (f.map fun (b : Nat) => (b : Rat)) (f.map fun (b : Nat) => ((b : Rat) - 1) / 2) = blockCentre j f := by
  induction j generalizing f with
  | nil => cases f <;> simp [mulAdd, blockCentre]
  | cons x xs ih =>
    cases f with
    | nil => simp at h
    | cons b bs => simp [mulAdd, blockCentre, ih bs (by simpa using h)]

/-- **Centres** (WCS): the world coordinates that the rebinned cube reports for the centre of
output element `j` (any real-valued position `j`, in array order) are the source WCS's
coordinates at `j*f + (f-1)/2`; for every base WCS and every dimensionality. -/
theorem rebin_wcs_centre {ω} (w w' : LLWcs ω) (binShape : List Nat) (h : rebinWcs w binShape = .ok w')
    (j : List Rat) (hj : j.length = binShape.length) :
    w'.p2w j.reverse = w.p2w (blockCentre j binShape).reverse := by
  simp only [rebinWcs] at h
  rw [resampled_p2w w w' _ _ h]
  simp only [PerAxis.expand]
  rw [mulAdd_reverse j _ _ (by simp [hj]) (by simp [hj]), mulAdd_centre j binShape hj.symm]

/-- **Edges**: pixel edge `j - 1/2` of the result is original pixel edge `j*f - 1/2`, so the output
edges are every `f`-th input edge and the world footprint is unchanged. -/
theorem rebin_wcs_edges (j : Rat) (f : Nat) :
    blockCentre [j - 1/2] [f] = [j * (f : Rat) - 1/2] := by
  simp only [blockCentre]
  congr 1
  grind

/-- **Axes with `f = 1` keep their coordinates.** -/
theorem rebin_unit_axes (j : Rat) : blockCentre [j] [1] = [j] := by
  simp only [blockCentre]
  congr 1
  have : ((1 : Nat) : Rat) = 1 := by exact_mod_cast rfl
  rw [this]
  grind

/-- **Composition** (already rebinned / resampled WCS): resampling a resampled WCS by
`(f₂, o₂)` over `(f₁, o₁)` addresses the base at `p*(f₁f₂) + (o₁ + f₁ o₂)`. -/
theorem resample_compose (p f1 o1 f2 o2 : Rat) :
    mulAdd (mulAdd [p] [f2] [o2]) [f1] [o1] = mulAdd [p] [f1 * f2] [o1 + f1 * o2] := by
  simp only [mulAdd]
  congr 1
  grind

/-- **Extra-coordinate grid**: with the offset `(f-1)/2` that `rebin` passes, the positions at
which every lookup table is re-sampled along an axis of length `f*m` are exactly the block
centres `k*f + (f-1)/2`, `k < m` — one per output element. -/
theorem rebin_ec_grid (b m : Nat) (hb : 1 ≤ b) :
    resampleGrid (((b : Rat) - 1) / 2) (b * m) (b : Rat)
      = (List.range m).map fun (k : Nat) => (k : Rat) * (b : Rat) + ((b : Rat) - 1) / 2 := by
  simp only [resampleGrid, List.filter_map]
  have hpred : ∀ k : Nat, (decide ((((b : Rat) - 1) / 2 + (k : Rat) * (b : Rat)) ≤ ((b * m : Nat) : Rat) - 1))
      = decide (k < m) := by
    intro k
    have h3 : (1 : Rat) ≤ (b : Rat) := by exact_mod_cast hb
    by_cases hk : k < m
    · have h1 : (k + 1) * b ≤ m * b := Nat.mul_le_mul_right b hk
      have h2 : (((k + 1) * b : Nat) : Rat) ≤ ((m * b : Nat) : Rat) := by exact_mod_cast h1
      push_cast at h2 ⊢
      have : ((b : Rat) - 1) / 2 + (k : Rat) * b ≤ (b : Rat) * m - 1 := by grind
      simp [hk, this]
    · have hk' : m ≤ k := by omega
      have h1 : m * b ≤ k * b := Nat.mul_le_mul_right b hk'
      have h2 : ((m * b : Nat) : Rat) ≤ ((k * b : Nat) : Rat) := by exact_mod_cast h1
      push_cast at h2 ⊢
      have : ¬ (((b : Rat) - 1) / 2 + (k : Rat) * b ≤ (b : Rat) * m - 1) := by grind
      simp [hk, this]
  have hfun : ((fun x => decide (x ≤ ((b * m : Nat) : Rat) - 1)) ∘ fun (k : Nat) => ((b : Rat) - 1) / 2 + (k : Rat) * (b : Rat))
      = fun k => decide (k < m) := by
    funext k; exact hpred k
  rw [hfun, filter_range_lt (b * m + 1) m (by
    have : m ≤ b * m := Nat.le_mul_of_pos_left m (by omega)
    omega)]
  apply List.map_congr_left
  intro k _
  grind

/-- Entry `k` of a resampled lookup table is the source table linearly interpolated at the block
centre (the table model is C19's `interp1`). -/
theorem rebin_ec_centre (t : List Rat) (b m : Nat) (hb : 1 ≤ b) :
    interpolateTable t (resampleGrid (((b : Rat) - 1) / 2) (b * m) (b : Rat))
      = (List.range m).map fun (k : Nat) => interp1 t ((k : Rat) * (b : Rat) + ((b : Rat) - 1) / 2) := by
  rw [interpolateTable, rebin_ec_grid b m hb, List.map_map]
  rfl

end Ndcube.C09
