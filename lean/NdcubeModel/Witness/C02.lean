import NdcubeModel.Props.C02

/-! Non-vacuity for C02: concrete layouts meeting the hypotheses, and the computed results. -/
namespace Ndcube.C02.Witness
open Ndcube

/-- a 3-D cube with a table on axis 0, a separable 2-axis table on (1, 2) and a table on axis 2 -/
def ec0 : ExtraCoordsM :=
  { luts := [{ axes := [0], id := 0, comps := [0] }, { axes := [1, 2], id := 1, comps := [0, 1], sep := true },
             { axes := [2], id := 2, comps := [0] }], dropped := [] }

def it0 : List Item := [.int 1, .slice (some 1) none none, .int 3]

example : (ec0.getitem it0).luts.map (·.id) = [1] ∧ (ec0.getitem it0).dropped = [0, 2]
    ∧ (ec0.getitem it0).luts.map (·.axes) = [[0]] ∧ (ec0.getitem it0).droppedComps = [(1, 1)]
    ∧ (ec0.getitem it0).mapping 1 = [0] := by decide

-- hypotheses of `ec_slice_mapping` are met by shape (3,4,5), the item above, axis 1
example : ∃ nits res, normItems [3, 4, 5] it0 = .ok nits ∧ applyAxes [3, 4, 5] nits = .ok res ∧
    it0.length = 3 ∧ countEllipsis it0 = 0 ∧ (it0.getD 1 Item.all).isInt = false ∧
    (keptAxes res)[1 - nDroppedUpTo it0 1]? = some 1 :=
  ⟨_, _, rfl, rfl, by decide, by decide, by decide, by decide⟩

-- hypotheses of `ec_slice_components`
example : (ec0.luts.getD 1 { axes := [], id := 9 }).sep = true ∧
    lutIsDropped it0 (ec0.luts.getD 1 { axes := [], id := 9 }) = false ∧
    ((1, 0) ∈ ([1, 2] : List Nat).zip [0, 1]) := by decide

-- a chain: the second slice removes the remaining axis of the 2-axis table
example : ((ec0.getitem it0).getitem [.int 0]).dropped = [0, 2, 1] ∧ ec0.luts ≠ [] ∧ (ec0.getitem it0).luts ≠ [] := by
  decide

end Ndcube.C02.Witness
