import NdcubeModel.Model.Rebin

/-! Lemmas behind C08/C16: the interleaved reshape is the block decomposition. -/

namespace Ndcube

theorem prod_interleave (ns fs : List Nat) (h : ns.length = fs.length) :
    prodL (interleave ns fs) = prodL (zipMul ns fs) := by
  induction ns generalizing fs with
  | nil => cases fs <;> simp [interleave, zipMul, prodL]
  | cons n ns ih =>
    cases fs with
    | nil => simp at h
    | cons f fs =>
      simp only [interleave, zipMul, prodL]
      rw [ih fs (by simpa using h)]; grind

/-- The reshape trick is right for non-square bins in any number of axes: element `(j, k)` of
the interleaved view is element `j*f + k` of the array. -/
theorem ravel_interleave (ns fs js ks : List Nat)
    (h1 : ns.length = fs.length) (h2 : js.length = ns.length) (h3 : ks.length = ns.length) :
    ravel (interleave ns fs) (interleave js ks) = ravel (zipMul ns fs) (zipMulAdd js fs ks) := by
  induction ns generalizing fs js ks with
  | nil => cases fs <;> cases js <;> cases ks <;> simp_all [interleave, zipMul, zipMulAdd, ravel]
  | cons n ns ih =>
    cases fs with
    | nil => simp at h1
    | cons f fs =>
      cases js with
      | nil => simp at h2
      | cons j js =>
        cases ks with
        | nil => simp at h3
        | cons k ks =>
          simp only [interleave, zipMul, zipMulAdd, ravel, prodL]
          rw [ih fs js ks (by simpa using h1) (by simpa using h2) (by simpa using h3),
              prod_interleave ns fs (by simpa using h1)]
          grind

theorem allIndices_length (shape : List Nat) : ∀ r ∈ allIndices shape, r.length = shape.length := by
  induction shape with
  | nil => intro r hr; simp [allIndices] at hr; subst hr; rfl
  | cons n ns ih =>
    intro r hr
    simp only [allIndices, List.mem_flatMap, List.mem_range, List.mem_map] at hr
    obtain ⟨i, _, r', hr', rfl⟩ := hr
    simp [ih r' hr']

theorem zipDiv_length (a b : List Nat) (h : a.length = b.length) : (zipDiv a b).length = a.length := by
  induction a generalizing b with
  | nil => cases b <;> simp [zipDiv]
  | cons x xs ih =>
    cases b with
    | nil => simp at h
    | cons y ys => simp [zipDiv, ih ys (by simpa using h)]

/-- divisibility makes the element-wise quotient exact -/
theorem zipMul_zipDiv (shape f : List Nat) (hl : f.length = shape.length)
    (hd : nonDivisor shape f = false) :
    zipMul (zipDiv shape f) f = shape := by
  induction shape generalizing f with
  | nil => cases f <;> simp [zipDiv, zipMul]
  | cons n ns ih =>
    cases f with
    | nil => simp at hl
    | cons b bs =>
      have ih' := ih bs (by simpa using hl)
      simp only [nonDivisor] at ih'
      simp only [nonDivisor, List.zip_cons_cons, List.any_cons, Bool.or_eq_false_iff, decide_eq_false_iff_not,
        ne_eq, Decidable.not_not] at hd
      simp only [zipDiv, zipMul, ih' hd.2]
      congr 1
      exact Nat.div_mul_cancel (Nat.dvd_of_mod_eq_zero hd.1)

end Ndcube
