import NdcubeModel.Lemmas.Wrap

/-!
# C14 — WCS wrappers are exact, invertible re-parameterisations
-/

namespace Ndcube.C14
open Ndcube

/-- the inner WCS converts world values back to the pixel position -/
def Invertible {ω} (w : LLWcs ω) : Prop := ∀ q : List Rat, q.length = w.pixDim → w.w2p (w.p2w q) = q

/-- the inner WCS returns one world value per world axis -/
def WellFormed {ω} (w : LLWcs ω) : Prop := ∀ q : List Rat, (w.p2w q).length = w.worldDim

/-! ## resampling wrapper -/

/-- **Forward**: pixel `p` maps to the inner WCS's value at `p*factor + offset`; a scalar
factor / offset applies to every axis; per-axis metadata is untouched. -/
theorem resampled_forward {ω} (w w' : LLWcs ω) (factor offset : PerAxis)
    (h : resampled w factor offset = .ok w') :
    (∀ p, w'.p2w p = w.p2w (mulAdd p (factor.expand w.pixDim) (offset.expand w.pixDim))) ∧
    w'.pixDim = w.pixDim ∧ w'.worldDim = w.worldDim ∧ w'.corr = w.corr := by
  simp only [resampled] at h
  split at h
  · cases h
  · split at h
    · cases h
    · cases h; exact ⟨fun _ => rfl, rfl, rfl, rfl⟩

/-- **Round trip**: for non-zero factors and an invertible inner WCS, converting the world values
back returns the pixel position. -/
theorem resampled_roundtrip {ω} (w w' : LLWcs ω) (factor offset : PerAxis)
    (h : resampled w factor offset = .ok w') (hinv : Invertible w)
    (hf : ∀ q ∈ factor.expand w.pixDim, q ≠ 0) (p : List Rat) (hp : p.length = w.pixDim) :
    w'.w2p (w'.p2w p) = p := by
  simp only [resampled] at h
  split at h
  · cases h
  · rename_i hfl
    split at h
    · cases h
    · rename_i hol
      cases h
      simp only [Decidable.not_not] at hfl hol
      simp only
      rw [hinv _ (by rw [mulAdd_length _ _ _ (by omega) (by omega)]; exact hp)]
      exact subDiv_mulAdd p _ _ (by omega) (by omega) hf

/-- **Refusals**: a factor or offset of the wrong length is refused. -/
theorem resampled_refusals {ω} (w : LLWcs ω) (f o : List Rat) :
    (f.length ≠ w.pixDim → resampled w (.list f) (.list o) = .error .valueError) ∧
    (f.length = w.pixDim → o.length ≠ w.pixDim → resampled w (.list f) (.list o) = .error .valueError) := by
  constructor
  · intro h; simp [resampled, PerAxis.expand, h]
  · intro h1 h2; simp [resampled, PerAxis.expand, h1, h2]

/-- **Shape and bounds** scale with the factor: the pixel shape is the underlying shape divided
by the factor — an exact integer when the factor divides it — and bounds `b` become `(b-o)/f`. -/
theorem resampled_shape_bounds (n b : Nat) (hb : 0 < b) (hd : b ∣ n) (lo hi o : Rat) :
    resampledPixelShape [n] [(b : Rat)] = [((n / b : Nat) : Rat)] ∧
    resampledBounds [(lo, hi)] [(b : Rat)] [o] = [((lo - o) / b, (hi - o) / b)] := by
  constructor
  · obtain ⟨k, rfl⟩ := hd
    simp only [resampledPixelShape, List.zip_cons_cons, List.zip_nil_right, List.map_cons, List.map_nil]
    rw [Nat.mul_div_cancel_left k hb]
    congr 1
    have hb' : (b : Rat) ≠ 0 := by
      intro h
      have : b = 0 := by exact_mod_cast h
      omega
    have : ((b * k : Nat) : Rat) = (b : Rat) * (k : Rat) := by exact_mod_cast rfl
    rw [this]
    grind
  · rfl

/-! ## reordering wrapper -/

/-- **Consistent permutation**: for every pair of permutations, feeding the wrapper the pixel
values re-ordered by `pixel_order` yields the inner WCS's world values re-ordered by
`world_order`; the physical types (and every other per-world-axis attribute, which is selected
the same way), the pixel shape and the correlation matrix are re-ordered by the same orders, so
attribute `k` describes output `k`. -/
theorem reordered_perm {ω} (w : LLWcs ω) (types : List String) (po wo : List Nat) (r : Reordered ω)
    (h : reordered w types po wo = .ok r) (p : List Rat) (hp : p.length = w.pixDim) :
    r.wcs.p2w (selectIdx po p) = selectIdx wo (w.p2w p) ∧
    r.worldTypes = selectIdx wo types ∧
    r.wcs.corr = (selectIdx wo w.corr).map (fun row => selectIdx po row) ∧
    r.pixelShape = (w.shape.map List.reverse).map (fun ps => selectIdx po ps) := by
  simp only [reordered] at h
  split at h
  · cases h
  · rename_i hpo
    split at h
    · cases h
    · cases h
      refine ⟨?_, rfl, rfl, rfl⟩
      simp only [Bool.not_eq_true, Bool.not_eq_false'] at hpo
      have hpo' : isPermOfRange po w.pixDim = true := by simpa using hpo
      obtain ⟨hl, _, _, hlt⟩ := isPerm_facts po w.pixDim hpo'
      simp only
      rw [selectIdx_inverse po (argsortPerm po) p (by rw [argsortPerm_length, hl, hp])
        (fun i hi => by rw [hp]; exact hlt i hi)
        (fun i hi => argsort_inverse po w.pixDim hpo' i (by omega))]

/-- **Round trip** of the reordering wrapper. -/
theorem reordered_roundtrip {ω} (w : LLWcs ω) (types : List String) (po wo : List Nat) (r : Reordered ω)
    (h : reordered w types po wo = .ok r) (hinv : Invertible w) (hwf : WellFormed w)
    (q : List Rat) (hq : q.length = w.pixDim) :
    r.wcs.w2p (r.wcs.p2w q) = q := by
  simp only [reordered] at h
  split at h
  · cases h
  · rename_i hpo
    split at h
    · cases h
    · rename_i hwo
      cases h
      have hpo' : isPermOfRange po w.pixDim = true := by simpa using hpo
      have hwo' : isPermOfRange wo w.worldDim = true := by simpa using hwo
      obtain ⟨hl, _, _, hlt⟩ := isPerm_facts po w.pixDim hpo'
      obtain ⟨hlw, _, _, hltw⟩ := isPerm_facts wo w.worldDim hwo'
      simp only
      have hpl : (selectIdx (argsortPerm po) q).length = w.pixDim := by
        rw [selectIdx_length_of_lt, argsortPerm_length, hl]
        intro i hi
        obtain ⟨m, hm⟩ := List.mem_iff_getElem?.mp hi
        simp only [argsortPerm, List.getElem?_map] at hm
        cases hr : (List.range po.length)[m]? with
        | none => simp [hr] at hm
        | some v =>
          simp only [hr, Option.map_some, Option.some.injEq] at hm
          have hv : v < po.length := by
            have := List.mem_range.mp (List.mem_of_getElem? hr); exact this
          have hmem : v ∈ po := (isPerm_facts po w.pixDim hpo').2.1 v (by omega)
          have := List.idxOf_lt_length_of_mem hmem
          omega
      rw [selectIdx_inverse wo (argsortPerm wo) (w.p2w _) (by rw [argsortPerm_length, hlw, hwf])
        (fun i hi => by rw [hwf]; exact hltw i hi)
        (fun i hi => argsort_inverse wo w.worldDim hwo' i (by rw [hwf] at hi; exact hi))]
      rw [hinv _ hpl]
      exact selectIdx_inverse (argsortPerm po) po q (by omega)
        (fun i hi => by
          obtain ⟨m, hm⟩ := List.mem_iff_getElem?.mp hi
          simp only [argsortPerm, List.getElem?_map] at hm
          cases hr : (List.range po.length)[m]? with
          | none => simp [hr] at hm
          | some v =>
            simp only [hr, Option.map_some, Option.some.injEq] at hm
            have hv : v < po.length := List.mem_range.mp (List.mem_of_getElem? hr)
            have hmem : v ∈ po := (isPerm_facts po w.pixDim hpo').2.1 v (by omega)
            have := List.idxOf_lt_length_of_mem hmem
            omega)
        (fun i hi => by
          obtain ⟨j, h1, h2⟩ := argsort_inverse' po w.pixDim hpo' i (by omega)
          exact ⟨j, h1, h2⟩)

/-- **Refusals**: orders that are not permutations of the axes are refused. -/
theorem reordered_refusals {ω} (w : LLWcs ω) (types : List String) (po wo : List Nat) :
    (isPermOfRange po w.pixDim = false → reordered w types po wo = .error .valueError) ∧
    (isPermOfRange po w.pixDim = true → isPermOfRange wo w.worldDim = false →
      reordered w types po wo = .error .valueError) := by
  constructor
  · intro h; simp [reordered, h]
  · intro h1 h2; simp [reordered, h1, h2]

/-! ## compound wrapper -/

/-- **Forward**: every member is evaluated on its mapped pixel axes and the worlds are
concatenated in member order; the pixel dimension is the number of distinct inputs. -/
theorem compound_forward {ω} (ws : List (LLWcs ω)) (mapping : List Nat) (c : LLWcs ω)
    (hm : mapping ≠ []) (h : compound ws mapping = .ok c) :
    mapping.length = (ws.map (·.pixDim)).sum ∧ c = compoundCore ws mapping ∧
    c.pixDim = nInputsOf mapping ∧ c.worldDim = (ws.map (·.worldDim)).sum ∧
    ∀ p, c.p2w p = (ws.zip (splitBy (ws.map (·.pixDim)) (selectIdx mapping p))).flatMap
                      fun (w, q) => w.p2w q := by
  simp only [compound, effectiveMapping, hm, if_false] at h
  by_cases hlen : mapping.length ≠ (ws.map (·.pixDim)).sum
  · simp [hlen] at h
  · simp only [hlen, if_false] at h
    by_cases hbad : compoundShapeBad ws mapping = true
    · simp [hbad] at h
    · simp only [hbad] at h
      cases h
      exact ⟨by simpa using hlen, rfl, rfl, rfl, fun _ => rfl⟩

/-- **Round trip**: when every member is invertible and every compound pixel axis is used by the
mapping, converting the concatenated world values back returns the pixel position (shared axes
included: the first member that uses an axis answers for it). -/
theorem compound_roundtrip {ω} (ws : List (LLWcs ω)) (mapping : List Nat) (c : LLWcs ω)
    (hm : mapping ≠ []) (h : compound ws mapping = .ok c)
    (hinv : ∀ w ∈ ws, Invertible w ∧ WellFormed w)
    (hcover : ∀ i, i < nInputsOf mapping → i ∈ mapping)
    (p : List Rat) (hp : p.length = c.pixDim) :
    c.w2p (c.p2w p) = p := by
  obtain ⟨hlen, hc, _, _, _⟩ := compound_forward ws mapping c hm h
  subst hc
  simp only [compoundCore] at hp ⊢
  have hfold : ∀ (l : List Nat) (b : Nat), b ≤ l.foldl max b := by
    intro l
    induction l with
    | nil => intro b; simp
    | cons y ys ih2 =>
      intro b; simp only [List.foldl_cons]; exact Nat.le_trans (Nat.le_max_left b y) (ih2 _)
  have hmax : ∀ (l : List Nat) (a i : Nat), i ∈ l → i ≤ l.foldl max a := by
    intro l
    induction l with
    | nil => intro a i h; simp at h
    | cons x xs ih =>
      intro a i h
      rcases List.mem_cons.mp h with rfl | h
      · simp only [List.foldl_cons]
        exact Nat.le_trans (Nat.le_max_right a i) (hfold xs _)
      · simp only [List.foldl_cons]; exact ih _ _ h
  have hlt : ∀ i ∈ mapping, i < p.length := by
    intro i hi
    rw [hp]
    simp only [nInputsOf]
    have := hmax mapping 0 i hi
    omega
  have hsel : (selectIdx mapping p).length = (ws.map (·.pixDim)).sum := by
    rw [selectIdx_length_of_lt mapping p hlt, hlen]
  rw [compound_chunks_roundtrip ws (fun w hw => ⟨(hinv w hw).1, (hinv w hw).2⟩) _ hsel]
  apply selectIdx_inverse mapping (mappingInverse mapping (nInputsOf mapping)) p
    (by simp [mappingInverse, hp]) hlt
  intro i hi
  rw [hp] at hi
  have hmem := hcover i hi
  refine ⟨mapping.idxOf i, ?_, ?_⟩
  · simp [mappingInverse, List.getElem?_map, List.getElem?_range hi]
  · have hl2 : mapping.idxOf i < mapping.length := List.idxOf_lt_length_of_mem hmem
    rw [List.getElem?_eq_getElem hl2]; simp

/-- **Refusals**: a mapping of the wrong length is refused, and world inputs that imply different
positions on a shared pixel axis are refused by `world_to_pixel_values`. -/
theorem compound_refusals {ω} (ws : List (LLWcs ω)) (mapping : List Nat) (hm : mapping ≠ []) :
    (mapping.length ≠ (ws.map (·.pixDim)).sum → compound ws mapping = .error .valueError) ∧
    (∀ v, sharedAgree mapping
        ((ws.zip (splitBy (ws.map (·.worldDim)) v)).flatMap fun (w, x) => w.w2p x) = false →
      compoundW2P ws mapping v = .error .valueError) := by
  constructor
  · intro h; simp [compound, effectiveMapping, hm, h]
  · intro v h; simp [compoundW2P, effectiveMapping, hm, h]

/-! ## already-wrapped inner WCS

`resampled_forward`, `reordered_perm` and `compound_forward` hold for *any* inner WCS, wrapped or
not.  For the resampling wrapper the composition has a closed form, which is also the rule by
which two nested wrappers may be folded into one (and by which `unwrap_wcs_to_fitswcs`, C15, folds
them into a FITS header): factors multiply, and the outer offset is scaled by the *inner* factor. -/

theorem mulAdd_mulAdd (p f2 o2 f1 o1 : List Rat) :
    mulAdd (mulAdd p f2 o2) f1 o1
      = mulAdd p (List.zipWith (· * ·) f2 f1) (List.zipWith (· + ·) (List.zipWith (· * ·) o2 f1) o1) := by
  induction p generalizing f2 o2 f1 o1 with
  | nil => cases f2 <;> cases o2 <;> cases f1 <;> cases o1 <;> simp [mulAdd]
  | cons x xs ih =>
    cases f2 with
    | nil => simp [mulAdd]
    | cons a2 f2 =>
      cases o2 with
      | nil => cases f1 <;> simp [mulAdd]
      | cons c2 o2 =>
        cases f1 with
        | nil => simp [mulAdd]
        | cons a1 f1 =>
          cases o1 with
          | nil => simp [mulAdd]
          | cons c1 o1 =>
            simp only [mulAdd, List.zipWith_cons_cons, ih]
            congr 1
            grind

/-- **Resampling a resampled WCS**: the outer wrapper over the inner one maps pixel `p` to the
innermost WCS's value at `p·(f₂f₁) + (o₂f₁ + o₁)`. -/
theorem resampled_nested {ω} (w w1 w2 : LLWcs ω) (f1 o1 f2 o2 : List Rat)
    (h1 : resampled w (.list f1) (.list o1) = .ok w1) (h2 : resampled w1 (.list f2) (.list o2) = .ok w2) (p : List Rat) :
    w2.p2w p = w.p2w (mulAdd p (List.zipWith (· * ·) f2 f1)
                               (List.zipWith (· + ·) (List.zipWith (· * ·) o2 f1) o1)) := by
  have a1 := (resampled_forward w w1 _ _ h1).1
  have a2 := (resampled_forward w1 w2 _ _ h2).1
  rw [a2, a1]
  simp only [PerAxis.expand]
  rw [mulAdd_mulAdd]

theorem selectIdx_selectIdx {α} (a b : List Nat) (l : List α) (hb : ∀ i ∈ b, i < l.length) :
    selectIdx a (selectIdx b l) = selectIdx (selectIdx a b) l := by
  have h1 : selectIdx a (selectIdx b l) = a.filterMap fun i => (b[i]?).bind fun j => l[j]? := by
    induction a with
    | nil => rfl
    | cons x xs ih =>
      have hx := selectIdx_getElem? b l hb x
      simp only [selectIdx, List.filterMap_cons] at ih ⊢
      simp only [selectIdx] at hx
      rw [hx, ih]
  rw [h1]
  simp only [selectIdx, List.filterMap_filterMap]

/-- **Reordering a reordered WCS**: the two wrappers act as one reordering whose order is the
inner order read through the outer one, `order[i] = inner[outer[i]]` — on the pixel inputs, the
world outputs and the per-axis attributes alike. -/
theorem reordered_nested {ω} (w : LLWcs ω) (types : List String) (po1 wo1 po2 wo2 : List Nat)
    (r1 r2 : Reordered ω) (h1 : reordered w types po1 wo1 = .ok r1)
    (h2 : reordered r1.wcs r1.worldTypes po2 wo2 = .ok r2) (hwf : WellFormed w)
    (p : List Rat) (hp : p.length = w.pixDim) :
    r2.wcs.p2w (selectIdx (selectIdx po2 po1) p) = selectIdx (selectIdx wo2 wo1) (w.p2w p) ∧
    r2.worldTypes = selectIdx wo2 (selectIdx wo1 types) := by
  have hdim : r1.wcs.pixDim = w.pixDim ∧ r1.wcs.worldDim = w.worldDim := by
    simp only [reordered] at h1
    split at h1
    · cases h1
    · split at h1
      · cases h1
      · cases h1; exact ⟨rfl, rfl⟩
  have hpo1 : isPermOfRange po1 w.pixDim = true := by
    simp only [reordered] at h1
    split at h1
    · cases h1
    · rename_i hh; simpa using hh
  have hwo1 : isPermOfRange wo1 w.worldDim = true := by
    simp only [reordered] at h1
    split at h1
    · cases h1
    · split at h1
      · cases h1
      · rename_i hh; simpa using hh
  obtain ⟨hl1, _, _, hlt1⟩ := isPerm_facts po1 w.pixDim hpo1
  obtain ⟨_, _, _, hltw1⟩ := isPerm_facts wo1 w.worldDim hwo1
  have a1 := reordered_perm w types po1 wo1 r1 h1 p hp
  have hlen1 : (selectIdx po1 p).length = r1.wcs.pixDim := by
    rw [selectIdx_length_of_lt po1 p (fun i hi => by rw [hp]; exact hlt1 i hi), hl1, hdim.1]
  have a2 := reordered_perm r1.wcs r1.worldTypes po2 wo2 r2 h2 (selectIdx po1 p) hlen1
  refine ⟨?_, ?_⟩
  · rw [← selectIdx_selectIdx po2 po1 p (fun i hi => by rw [hp]; exact hlt1 i hi), a2.1, a1.1]
    exact selectIdx_selectIdx wo2 wo1 (w.p2w p) (fun i hi => by rw [hwf]; exact hltw1 i hi)
  · rw [a2.2.1, a1.2.1]

/-! ## bounds of the compound wrapper -/

/-- **Members whose shared axes disagree in bounds are refused** — whichever end differs: if every
member records bounds and two positions of the mapping name the same pixel input but carry
different `(lower, upper)` pairs, constructing the compound WCS raises `ValueError`; and when it is
accepted every input's bounds are those of the first member axis mapped to it. -/
theorem compound_bounds_refused (bounds : List (Option (List (Rat × Rat)))) (mapping : List Nat)
    (hall : bounds.all Option.isSome = true) (i j : Nat) (hi : i < mapping.length) (hj : j < mapping.length)
    (hsame : mapping.getD i 0 = mapping.getD j 0)
    (hdiff : (bounds.flatMap fun b => b.getD []).getD i (0, 0) ≠ (bounds.flatMap fun b => b.getD []).getD j (0, 0)) :
    compoundBounds bounds mapping = .error .valueError := by
  simp only [compoundBounds, hall, Bool.not_true, Bool.false_eq_true, if_false]
  obtain ⟨pb, hpb⟩ : ∃ pb, pb = (bounds.flatMap fun b => b.getD []) := ⟨_, rfl⟩
  rw [← hpb] at hdiff ⊢
  have hany : ((List.range mapping.length).any fun k =>
      pb.getD ((mappingInverse mapping (nInputsOf mapping)).getD (mapping.getD k 0) 0) (0, 0) ≠ pb.getD k (0, 0)) = true := by
    rw [List.any_eq_true]
    by_cases h1 : pb.getD ((mappingInverse mapping (nInputsOf mapping)).getD (mapping.getD i 0) 0) (0, 0) = pb.getD i (0, 0)
    · refine ⟨j, List.mem_range.mpr hj, ?_⟩
      rw [← hsame, h1]
      simpa using hdiff
    · exact ⟨i, List.mem_range.mpr hi, by simpa using h1⟩
  rw [if_pos hany]

theorem compound_bounds_accepted (bounds : List (Option (List (Rat × Rat)))) (mapping : List Nat) (r : Option (List (Rat × Rat)))
    (h : compoundBounds bounds mapping = .ok r) :
    (bounds.all Option.isSome = false → r = none) ∧
    (bounds.all Option.isSome = true →
      r = some (selectIdx (mappingInverse mapping (nInputsOf mapping)) (bounds.flatMap fun b => b.getD [])) ∧
      ∀ k, k < mapping.length →
        (bounds.flatMap fun b => b.getD []).getD ((mappingInverse mapping (nInputsOf mapping)).getD (mapping.getD k 0) 0) (0, 0)
          = (bounds.flatMap fun b => b.getD []).getD k (0, 0)) := by
  constructor
  · intro hb
    simp only [compoundBounds, hb, Bool.not_false, if_true] at h
    cases h; rfl
  · intro hb
    simp only [compoundBounds, hb, Bool.not_true, Bool.false_eq_true, if_false] at h
    split at h
    · cases h
    · rename_i hn
      cases h
      refine ⟨rfl, ?_⟩
      intro k hk
      simp only [List.any_eq_true, List.mem_range, not_exists, not_and, decide_eq_true_eq] at hn
      have := hn k hk
      simpa using this

end Ndcube.C14
