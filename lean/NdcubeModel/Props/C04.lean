import NdcubeModel.Model.Crop
import NdcubeModel.Props.C05
import NdcubeModel.Props.C03

/-!
# C04 — crop returns exactly the smallest index box containing the world points
-/

namespace Ndcube.C04
open Ndcube

/-! ## min / max over the points -/

theorem listMin_spec (i : Int) (is : List Int) :
    (∀ x ∈ i :: is, listMin i is ≤ x) ∧ listMin i is ∈ i :: is := by
  induction is generalizing i with
  | nil => simp [listMin]
  | cons j js ih =>
    have h := ih (min i j)
    simp only [listMin, List.foldl_cons] at h ⊢
    constructor
    · intro x hx
      simp only [List.mem_cons] at hx
      rcases hx with rfl | rfl | hx
      · have := h.1 (min x j) (by simp); omega
      · have := h.1 (min i x) (by simp); omega
      · exact h.1 x (by simp [hx])
    · have := h.2
      simp only [List.mem_cons] at this ⊢
      rcases this with h1 | h1
      · rw [h1]; by_cases hij : i ≤ j
        · left; omega
        · right; left; omega
      · right; right; exact h1

theorem listMax_spec (i : Int) (is : List Int) :
    (∀ x ∈ i :: is, x ≤ listMax i is) ∧ listMax i is ∈ i :: is := by
  induction is generalizing i with
  | nil => simp [listMax]
  | cons j js ih =>
    have h := ih (max i j)
    simp only [listMax, List.foldl_cons] at h ⊢
    constructor
    · intro x hx
      simp only [List.mem_cons] at hx
      rcases hx with rfl | rfl | hx
      · have := h.1 (max x j) (by simp); omega
      · have := h.1 (max i x) (by simp); omega
      · exact h.1 x (by simp [hx])
    · have := h.2
      simp only [List.mem_cons] at this ⊢
      rcases this with h1 | h1
      · rw [h1]; by_cases hij : i ≤ j
        · right; left; omega
        · left; omega
      · right; right; exact h1

/-- the half-open range an item selects on an axis (for the items crop produces) -/
def itemRange : Item → Option (Int × Int)
  | .int i => some (i, i + 1)
  | .slice (some lo) (some hi) none => some (lo, hi)
  | _ => none

/-- **The box**: on an axis of length `n` addressed by at least one point the item selects exactly
`[max(min idx, 0), min(max(max idx + 1, 0), n))`, whatever `keepdims`; it contains the index of
every point that lies on the array, so points off the array never make the region exclude an
on-array point. -/
theorem crop_axis_box (keepdims : Bool) (n : Nat) (i : Int) (is : List Int) :
    itemRange (cropAxis keepdims n (i :: is)) = some (max (listMin i is) 0, min (max (listMax i is + 1) 0) n) ∧
    ∀ x ∈ i :: is, 0 ≤ x → x < n → max (listMin i is) 0 ≤ x ∧ x < min (max (listMax i is + 1) 0) n := by
  constructor
  · simp only [cropAxis]
    split
    · next h => simp only [itemRange]; congr 1; rw [Prod.mk.injEq]; omega
    · rfl
  · intro x hx h0 hn
    have h1 := (listMin_spec i is).1 x hx
    have h2 := (listMax_spec i is).1 x hx
    omega

/-- **Smallest**: when every addressed index is on the array, the box is `[min idx, max idx + 1)`
and any range containing all the indices contains it; both ends are attained by a point. -/
theorem crop_axis_minimal (n : Nat) (i : Int) (is : List Int) (hpos : ∀ x ∈ i :: is, 0 ≤ x ∧ x < n) (a b : Int)
    (hab : ∀ x ∈ i :: is, a ≤ x ∧ x < b) :
    max (listMin i is) 0 = listMin i is ∧ min (max (listMax i is + 1) 0) n = listMax i is + 1 ∧
    a ≤ listMin i is ∧ listMax i is + 1 ≤ b := by
  have hmin := (listMin_spec i is).2
  have hmax := (listMax_spec i is).2
  have := hpos _ hmin; have := hpos _ hmax
  have := hab _ hmin; have := hab _ hmax
  omega

/-- axes no point addresses are left whole -/
theorem crop_axis_untouched (keepdims : Bool) (n : Nat) : cropAxis keepdims n [] = Item.all := rfl

/-- `keepdims` changes only whether a one-element range is an integer (axis dropped) or a
length-1 slice (axis kept): the selected range is the same. -/
theorem crop_keepdims (n : Nat) (idx : List Int) :
    itemRange (cropAxis true n idx) = itemRange (cropAxis false n idx) ∨ idx = [] := by
  cases idx with
  | nil => right; rfl
  | cons i is => left; rw [(crop_axis_box true n i is).1, (crop_axis_box false n i is).1]

theorem crop_keepdims_true_slice (n : Nat) (i : Int) (is : List Int) : (cropAxis true n (i :: is)).isInt = false := by
  simp [cropAxis, Item.isInt]

/-- … and without `keepdims` an axis is dropped exactly when the clipped box is one element wide —
at the end of the array as well as at its start and inside it. -/
theorem crop_one_wide_dropped (n : Nat) (i : Int) (is : List Int) :
    ((cropAxis false n (i :: is)).isInt = true ↔
      min (max (listMax i is + 1) 0) n - max (listMin i is) 0 = 1) := by
  simp only [cropAxis]
  split
  · next h => simp only [Item.isInt, true_iff]; exact h.1
  · next h =>
    simp only [Item.isInt, Bool.false_eq_true, false_iff]
    intro h1
    exact h ⟨h1, trivial⟩

/-- a one-element result (every axis reduced to an integer) is refused; otherwise — unless all
points are off the array along some axis — the item is the per-axis items -/
theorem crop_scalar_refused (shape : List Nat) (per : List (List Int)) (keepdims : Bool)
    (hin : (List.zipWith cropAxisOutside shape per).any id = false) :
    (((List.zipWith (cropAxis keepdims) shape per).all Item.isInt = true → cropItem shape per keepdims = .error .valueError)) ∧
    (((List.zipWith (cropAxis keepdims) shape per).all Item.isInt = false → cropItem shape per keepdims = .ok (List.zipWith (cropAxis keepdims) shape per))) := by
  constructor <;> intro h <;> simp [cropItem, h, hin]

/-- **Never silently empty**: if along some axis every addressing point is before the start or
every one is at/after the end of the array, the request is refused … -/
theorem crop_outside_refused (shape : List Nat) (per : List (List Int)) (keepdims : Bool) (a n : Nat)
    (i : Int) (is : List Int) (hn : shape[a]? = some n) (hp : per[a]? = some (i :: is))
    (hout : (∀ x ∈ i :: is, x < 0) ∨ (∀ x ∈ i :: is, (n : Int) ≤ x)) :
    cropItem shape per keepdims = .error .valueError := by
  have hmin := listMin_spec i is
  have hmax := listMax_spec i is
  have hflag : cropAxisOutside n (i :: is) = true := by
    simp only [cropAxisOutside, Bool.or_eq_true, decide_eq_true_eq]
    rcases hout with h | h
    · left; have := h _ hmax.2; omega
    · right; have := h _ hmin.2; omega
  have hany : (List.zipWith cropAxisOutside shape per).any id = true := by
    rw [List.any_eq_true]
    refine ⟨true, ?_, rfl⟩
    rw [List.mem_iff_getElem?]
    exact ⟨a, by simp [List.getElem?_zipWith, hn, hp, hflag]⟩
  simp [cropItem, hany]

/-- … and when it is accepted, the range selected on every addressed axis of length `n` is
non-empty (so a point off the array on one axis cannot empty the region for the others). -/
theorem crop_accepted_nonempty (n : Nat) (i : Int) (is : List Int)
    (h : cropAxisOutside n (i :: is) = false) :
    let lo := max (listMin i is) 0
    let hi := min (max (listMax i is + 1) 0) n
    (sliceBounds n (some lo) (some hi)).1 < (sliceBounds n (some lo) (some hi)).2 := by
  intro lo hi
  simp only [cropAxisOutside, Bool.or_eq_false_iff, decide_eq_false_iff_not] at h
  have hlo : 0 ≤ lo := by omega
  have hhi : 0 ≤ hi := by omega
  simp only [sliceBounds, clampBound]
  have h1 : ¬ lo < 0 := by omega
  have h2 : ¬ hi < 0 := by omega
  rw [if_neg h1, if_neg h2]
  have h3 : lo < hi := by omega
  have h4 : lo < n := by omega
  split <;> split <;> omega

/-- all-`None` points return the cube unchanged (the item is all full slices) -/
theorem crop_all_none (w : LLWcs Rat) (shape : List Nat) (points : List (List (Option Rat))) (keepdims : Bool)
    (h : points.all (fun p => p.all Option.isNone) = true) :
    cropPoints w shape points keepdims = .ok (List.replicate w.pixDim Item.all) := by
  simp [cropPoints, h]

/-- **Selected by the slice**: with numpy's clamping (C01 `sliceBounds`) every on-array index
among the points is inside the range the produced slice selects on an axis of length `n`. -/
theorem crop_off_array (n : Nat) (i : Int) (is : List Int) (x : Int) (hx : x ∈ i :: is)
    (h0 : 0 ≤ x) (hn : x < n) :
    let lo := max (listMin i is) 0
    let hi := min (max (listMax i is + 1) 0) n
    ((sliceBounds n (some lo) (some hi)).1 : Int) ≤ x ∧ x < (sliceBounds n (some lo) (some hi)).2 := by
  intro lo hi
  have hb := (crop_axis_box true n i is).2 x hx h0 hn
  have hlo : 0 ≤ lo := by omega
  have hhi : 0 ≤ hi := by omega
  simp only [sliceBounds, clampBound]
  have h1 : ¬ lo < 0 := by omega
  have h2 : ¬ hi < 0 := by omega
  rw [if_neg h1, if_neg h2]
  constructor
  · split <;> omega
  · split <;> omega

/-! ## the per-point sub-WCS -/

def Invertible (w : LLWcs Rat) : Prop := ∀ q : List Rat, q.length = w.pixDim → w.w2p (w.p2w q) = q
def WorldLen (w : LLWcs Rat) : Prop := ∀ q : List Rat, (w.p2w q).length = w.worldDim

/-- the supplied coordinates form whole independent groups: a pixel axis correlated with a
supplied world axis is correlated with supplied world axes only -/
def GroupClosed (w : LLWcs Rat) (given : List Bool) : Prop :=
  ∀ i k j, i < w.worldDim → j < w.worldDim → given.getD i false = true → corrAt w.corr i k = true →
    corrAt w.corr j k = true → given.getD j false = true

theorem underPix_sub (pixDim : Nat) (pin : List Nat) (q : List Rat) (hq : ∀ x ∈ q, x = 0) :
    ∀ k, k < pixDim → (underPix (subSlices pixDim pin) q)[k]? = some 0 := by
  have gen : ∀ (l : List Nat) (q : List Rat), (∀ x ∈ q, x = 0) → ∀ k, k < l.length →
      (underPix (l.map fun k => if pin.contains k then Item.all else .int 0) q)[k]? = some 0 := by
    intro l
    induction l with
    | nil => intro q _ k hk; simp at hk
    | cons a l ih =>
      intro q hq k hk
      simp only [List.map_cons]
      by_cases ha : pin.contains a = true
      · simp only [ha, if_true, Item.all, underPix]
        cases k with
        | zero =>
          cases q with
          | nil => simp [Item.startOff]; exact Rat.add_zero 0
          | cons x xs => simp [Item.startOff, hq x (by simp)]; exact Rat.add_zero 0
        | succ k =>
          simp only [List.getElem?_cons_succ]
          exact ih q.tail (fun x hx => hq x (List.mem_of_mem_tail hx)) k (by simpa using hk)
      · simp only [ha, Bool.false_eq_true, if_false, underPix]
        cases k with
        | zero => simp
        | succ k =>
          simp only [List.getElem?_cons_succ]
          exact ih q hq k (by simpa using hk)
  intro k hk
  exact gen (List.range pixDim) q hq k (by simpa using hk)

/-- **The per-point sub-WCS is exact.**  For every WCS with a truthful correlation matrix and an
inverse, every true pixel position `p`, and every choice of supplied coordinates that covers whole
independent groups: the pixel position the implementation derives through its sliced sub-WCS
(zeros on the axes without input, dropped-dimension values for the coordinates left `None`)
agrees with `p` on every pixel axis that has an input — so the index used for the box is the
nearest-pixel index of the point computed from the full WCS. -/
theorem crop_point_index (w : LLWcs Rat) (hT : C05.Truthful w) (hI : Invertible w) (hL : WorldLen w)
    (p : List Rat) (hp : p.length = w.pixDim) (given : List Bool) (hg : given.length = w.worldDim)
    (hclosed : GroupClosed w given)
    (hcov : ∀ i, i < w.worldDim → given.getD i false = true → ∃ k, k < w.pixDim ∧ corrAt w.corr i k = true)
    (world : List (Option Rat))
    (hworld : world = (List.range w.worldDim).map fun i =>
      if given.getD i false then (w.p2w p)[i]? else none) :
    ∃ px, pointPixel w world = .ok px ∧
      ∀ k ∈ pixWithInput w.corr w.pixDim w.worldDim given, px[k]? = p[k]? := by
  have hgiven : world.map Option.isSome = given := by
    apply List.ext_getElem?
    intro i
    by_cases hi : i < w.worldDim
    · have hi' : i < given.length := by omega
      have hlen := hL p
      have hsome : ((w.p2w p)[i]?).isSome = true := by
        rw [List.getElem?_eq_getElem (by omega)]; rfl
      have hgd : given.getD i false = given[i] := by
        simp [List.getD, List.getElem?_eq_getElem hi']
      rw [hworld]
      simp only [List.getElem?_map, List.getElem?_range hi, Option.map_some, List.getElem?_eq_getElem hi', hgd]
      cases hgi : given[i] <;> simp [hsome]
    · have h1 : (List.map Option.isSome world)[i]? = none := by
        rw [hworld]; simp; omega
      have h2 : given[i]? = none := by simp; omega
      rw [h1, h2]
  obtain ⟨pin, hpin⟩ : ∃ pin, pin = pixWithInput w.corr w.pixDim w.worldDim given := ⟨_, rfl⟩
  have hmem_pin : ∀ k, k ∈ pin ↔ k < w.pixDim ∧ ∃ i, i < w.worldDim ∧ given.getD i false = true ∧ corrAt w.corr i k = true := by
    intro k
    simp only [hpin, pixWithInput, List.mem_filter, List.mem_range, List.any_eq_true, Bool.and_eq_true]
  -- the world axes kept by the sub-WCS are exactly the supplied ones
  have hwk : worldKeep w.corr w.worldDim pin = (List.range w.worldDim).filter (fun i => given.getD i false) := by
    simp only [worldKeep]
    apply List.filter_congr
    intro i hi
    simp only [List.mem_range] at hi
    by_cases hgi : given.getD i false = true
    · rw [hgi]
      obtain ⟨k, hk, hc⟩ := hcov i hi hgi
      simp only [List.any_eq_true]
      exact ⟨k, (hmem_pin k).mpr ⟨hk, i, hi, hgi, hc⟩, hc⟩
    · have hgf : given.getD i false = false := by simpa using hgi
      rw [hgf]
      simp only [List.any_eq_false]
      intro k hk hc
      obtain ⟨_, j, hj, hgj, hcj⟩ := (hmem_pin k).mp hk
      have := hclosed j k i hj hi hgj hcj (by simpa using hc)
      exact hgi this
  -- the reference pixel vector: the true position on the axes with input, 0 elsewhere
  let p' : List Rat := (List.range w.pixDim).map fun k => if pin.contains k then p.getD k 0 else 0
  have hp' : p'.length = w.pixDim := by simp [p']
  have hp'k : ∀ k, k < w.pixDim → p'[k]? = some (if pin.contains k then p.getD k 0 else 0) := by
    intro k hk; simp [p', List.getElem?_range hk]
  have hsub : subWorld w world pin = w.p2w p' := by
    apply List.ext_getElem?
    intro i
    by_cases hi : i < w.worldDim
    · have hlen' := hL p'
      simp only [subWorld, List.getElem?_map, List.getElem?_range hi, Option.map_some]
      rw [List.getElem?_eq_getElem (by omega)]
      congr 1
      have hgd : given[i]?.getD false = given.getD i false := by simp [List.getD]
      by_cases hgi : given.getD i false = true
      · have hc : (worldKeep w.corr w.worldDim pin).contains i = true := by
          have hgi' : given[i]?.getD false = true := by rw [hgd]; exact hgi
          rw [hwk]; simp [List.mem_filter, hi, hgi']
        rw [if_pos hc]
        have hwi : world.getD i none = (w.p2w p)[i]? := by
          have hgi' : given[i]?.getD false = true := by rw [hgd]; exact hgi
          rw [hworld]; simp [List.getD, List.getElem?_range hi, hgi']
        rw [hwi]
        have hTi := hT i p p' hp hp' (by
          intro k hk hcorr
          have : k ∈ pin := (hmem_pin k).mpr ⟨hk, i, hi, hgi, hcorr⟩
          rw [hp'k k hk]
          have hc' : pin.contains k = true := by simpa [List.contains_iff_mem] using this
          rw [if_pos hc']
          simp [List.getD, List.getElem?_eq_getElem (by omega : k < p.length)])
        rw [hTi, List.getElem?_eq_getElem (by omega)]; rfl
      · have hc : (worldKeep w.corr w.worldDim pin).contains i = false := by
          have hgf : given.getD i false = false := by simpa using hgi
          have hgf' : given[i]?.getD false = false := by rw [hgd]; exact hgf
          rw [hwk]; simp [List.mem_filter, hgf']
        rw [hc]
        simp only [Bool.false_eq_true, if_false]
        have hz : ∀ x ∈ List.replicate pin.length (0 : Rat), x = 0 := by
          intro x hx; exact (List.mem_replicate.mp hx).2
        have hup := underPix_sub w.pixDim pin _ hz
        have hlenu : (underPix (subSlices w.pixDim pin) (List.replicate pin.length 0)).length = w.pixDim := by
          rw [C03.underPix_length]; simp [subSlices]
        have hTi := hT i _ p' hlenu hp' (by
          intro k hk hcorr
          rw [hup k hk, hp'k k hk]
          have hnot : pin.contains k = false := by
            cases hck : pin.contains k with
            | false => rfl
            | true =>
              exfalso
              have hk' : k ∈ pin := by simpa [List.contains_iff_mem] using hck
              obtain ⟨_, j, hj, hgj, hcj⟩ := (hmem_pin k).mp hk'
              exact hgi (hclosed j k i hj hi hgj hcj hcorr)
          rw [hnot]; rfl)
        have hlb := hL (underPix (subSlices w.pixDim pin) (List.replicate pin.length 0))
        simp only [List.getD]
        rw [hTi, List.getElem?_eq_getElem (by omega)]; rfl
    · have h1 : (subWorld w world pin)[i]? = none := by simp [subWorld]; omega
      have h2 : (w.p2w p')[i]? = none := by
        have := hL p'; simp; omega
      rw [h1, h2]
  refine ⟨w.w2p (subWorld w world pin), ?_, ?_⟩
  · simp only [pointPixel, hgiven, ← hpin]
    rw [if_neg (by rw [hwk]; simp)]
  · intro k hk
    rw [← hpin] at hk
    rw [hsub, hI p' hp']
    have hkk := ((hmem_pin k).mp hk).1
    rw [hp'k k hkk]
    have hc' : pin.contains k = true := by simpa [List.contains_iff_mem] using hk
    rw [if_pos hc']
    simp [List.getD, List.getElem?_eq_getElem (by omega : k < p.length)]

end Ndcube.C04
