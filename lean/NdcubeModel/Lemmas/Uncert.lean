import NdcubeModel.Model.Uncert
import NdcubeModel.Lemmas.Rebin

namespace Ndcube

theorem flatMap_congr' {α β} (l : List α) (f g : α → List β) (h : ∀ a ∈ l, f a = g a) :
    l.flatMap f = l.flatMap g := by
  induction l with
  | nil => rfl
  | cons x xs ih =>
    simp only [List.flatMap_cons]
    rw [h x (List.mem_cons_self ..), ih (fun a ha => h a (List.mem_cons_of_mem _ ha))]

theorem range_mul (n P : Nat) :
    List.range (n * P) = (List.range n).flatMap fun i => (List.range P).map fun r => i * P + r := by
  induction n with
  | zero => simp
  | succ n ih =>
    rw [List.range_succ, List.flatMap_append, ← ih]
    simp only [List.flatMap_cons, List.flatMap_nil, List.append_nil]
    rw [Nat.succ_mul, List.range_add]

/-- `allIndices` lists the multi-indices in row-major order: entry `m` is `unravel m`. -/
theorem allIndices_eq_unravel (f : List Nat) :
    allIndices f = (List.range (prodL f)).map (unravel f) := by
  induction f with
  | nil => simp [allIndices, prodL, unravel]
  | cons n ns ih =>
    simp only [allIndices, prodL, range_mul, List.map_flatMap, List.map_map, ih]
    apply flatMap_congr'
    intro i _
    apply List.map_congr_left
    intro r hr
    have hr' := List.mem_range.mp hr
    simp only [Function.comp, unravel]
    have hP : 0 < prodL ns := by omega
    have h1 : (i * prodL ns + r) / prodL ns = i := by
      rw [Nat.add_comm, Nat.add_mul_div_right _ _ hP, Nat.div_eq_of_lt hr', Nat.zero_add]
    have h2 : (i * prodL ns + r) % prodL ns = r := by
      rw [Nat.add_comm, Nat.add_mul_mod_self_right, Nat.mod_eq_of_lt hr']
    rw [h1, h2]

end Ndcube
