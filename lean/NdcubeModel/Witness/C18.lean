import NdcubeModel.Props.C18

/-! Non-vacuity for C18: three cubes whose own boxes differ (one whole axis, one 1-wide box). -/
namespace Ndcube.C18.Witness
open Ndcube

def its : List (List Item) :=
  [[.slice (some 1) (some 3) none, Item.all], [.slice (some 2) (some 3) none, Item.all],
   [.slice (some 0) (some 2) none, Item.all]]
def shs : List (List Nat) := [[5, 4], [5, 6], [5, 4]]

example : seqCropItem 2 shs its =
    [.slice (some 0) (some 3) none, .slice (some 0) (some 3) none, .slice (some 0) (some 6) none] := by decide
example : seqStarts its ≠ [] ∧ seqStops shs its ≠ [] := by decide
example : ((sliceBounds 5 (some 0) (some 3)).2 : Int) - (sliceBounds 5 (some 0) (some 3)).1 = 3 := by decide

end Ndcube.C18.Witness
