import NdcubeModel.Props.C20

/-! Non-vacuity for C20. -/
namespace Ndcube.C20.Witness
open Ndcube

def req : ReprojReq :=
  { algo := .interpolation, srcTypes := ["a", "b"], tgtTypes := ["a", "b"], tgtPixDim := 2, tgtWorldDim := 2,
    tgtCelestialOnly := false, shapeOut := none, tgtArrayShape := some [3, 5], unit := 1, metaId := 2, globalCoords := 3, tgtWcs := 4 }

example : (reprojectDecide req).toOption = some { shape := [3, 5], wcs := 4, unit := 1, metaId := 2, globalCoords := 3 } := by decide
example : (reprojectDecide { req with shapeOut := some [2, 7] }).toOption.map (·.shape) = some [2, 7] := by decide
example : (reprojectDecide { req with tgtTypes := ["b", "a"] }).toOption = none ∧
    (reprojectDecide { req with algo := .exact }).toOption = none ∧
    (reprojectDecide { req with tgtArrayShape := none }).toOption = none := by decide

def src (ix : List Nat) : Rat := (ix.getD 0 0 : Nat) * 10 + (ix.getD 1 0 : Nat)
example : reprojShift [3, 4] src [1, -2] [1, 3] = some 21 ∧ reprojShift [3, 4] src [1, -2] [2, 3] = none ∧
    reprojShift [3, 4] src [1, -2] [0, 1] = none := by decide +kernel
example : interpND [3, 4] src [1/2, 1] = some 6 := by decide +kernel

end Ndcube.C20.Witness
