import warnings; warnings.filterwarnings("ignore")
import numpy as np, astropy.units as u
from astropy.wcs import WCS
from astropy.time import Time
from astropy.coordinates import SkyCoord
from ndcube import NDCube, NDCubeSequence, NDCollection, ExtraCoords

def wcs3():
    w = WCS(naxis=3)
    w.wcs.ctype = 'HPLT-TAN','HPLN-TAN','WAVE'
    w.wcs.cunit = 'deg','deg','Angstrom'
    w.wcs.cdelt = 0.5,0.4,0.2
    w.wcs.crpix = 2,2,0
    w.wcs.crval = 0.5,1,10
    return w
data = np.arange(2*3*4.).reshape(2,3,4)
c = NDCube(data, wcs=wcs3())
print("shape", c.shape, c.array_axis_physical_types)
# C01 negative index
s = c[:, -1]
print("C01 neg idx data ok:", np.array_equal(s.data, data[:, -1]))
print(" sliced wcs p2w(0,0):", s.wcs.low_level_wcs.pixel_to_world_values(0,0), "orig at (0,2,0):", c.wcs.low_level_wcs.pixel_to_world_values(0,2,0))
s = c[:, -2:]
print(" neg slice:", s.wcs.low_level_wcs.pixel_to_world_values(0,0,0), "orig:", c.wcs.low_level_wcs.pixel_to_world_values(0,1,0))
print(" array_shape", s.wcs.array_shape, s.data.shape)
# no array_shape recorded
print(" wcs array_shape of orig:", c.wcs.array_shape)
try:
    c[None]
except Exception as e: print(" None:", type(e).__name__, e)
# C05
try:
    print("C05 awc:", c.axis_world_coords())
except Exception as e: print("C05 awc raise:", type(e).__name__, e)
print("C05 awcv ok:", [x.shape for x in c.axis_world_coords_values()])
# C03
c.extra_coords.add("time", 0, Time("2000-01-01")+np.arange(2)*u.s)
try:
    print("C03 gc len", len(c.global_coords))
except Exception as e: print("C03 raise:", type(e).__name__, e)
try:
    print("C03 sliced gc", dict(c[0].global_coords))
except Exception as e: print("C03 raise:", type(e).__name__, e)
