"""C17 — sequence coordinate views line up with the cubes they summarise."""
import random
import numpy as np
import astropy.units as u

import common as C
import wcsfam as W
import ecs as E
from core import err_kind
from props.C03 import accessor

ID = "C17"
MODEL_OP = "seq_coords / seq_axis (common_axis_coords, sequence_axis_coords)"
RULE = ("sequences of 1-4 cubes of 1-3 dims with ragged lengths (1-4) along the common axis, common axis on any cube axis, "
        "primaries probe separable / coupled, FITS separable / celestial / rotated (common axis on a coupled celestial axis "
        "included), gWCS, each cube with its own coordinate values; Quantity / Time / SkyCoord extra coords on the common or "
        "another axis; global coords added by the user on all / some / no cubes and produced by slicing a leading axis away. "
        "Non-trivial = more than one cube or more than one position; distinct = whole case")
TRUSTED = ["each cube's combined WCS evaluated on pixel grids is the reference for the coordinate at a position",
           "the WCS's world_axis_object_components accessors turn the returned high-level objects back into world values"]
ASSUMPTIONS = ["all cubes of a sequence have the same WCS structure (axes, units, physical types), different values",
               "angles compared modulo 360 deg, other values at rtol/atol 1e-9"]
FAMILIES = ["probe", "probe_coupled", "fits_sep", "fits_cel", "fits_rot", "gwcs", "fits_cel3", "fits_cel3"]


def corpus():
    return C.read_corpus(ID)


def generate(rng, tier):
    n = 300 if tier == "quick" else 5000
    for _ in range(n):
        nd = rng.choice([1, 2, 2, 3, 3])
        base = [rng.randint(2, 4) for _ in range(nd)]
        ca = rng.randrange(nd)
        ncubes = rng.choice([1, 2, 3, 3, 4])
        lens = [rng.randint(1, 4) for _ in range(ncubes)]
        ecs = []
        for _ in range(rng.choice([0, 0, 1, 1, 2])):
            ecs.append({"kind": rng.choice(["quantity", "time", "sky1"]), "axes": [ca if rng.random() < 0.6 else rng.randrange(nd)]})
        gcs = []
        for k in range(rng.choice([0, 1, 2, 3])):
            r = rng.random()
            on = list(range(ncubes)) if r < 0.5 else ([] if r < 0.6 else sorted(rng.sample(range(ncubes), rng.randint(1, ncubes))))
            gcs.append({"name": f"g{k}", "on": on})
        if ncubes >= 2 and rng.random() < 0.25:
            # several names (2-4) present on the same cubes only - adjacent on the first cube, all missing from the
            # same later cube - plus one name present everywhere
            on = sorted({0} | set(rng.sample(range(ncubes), rng.randint(1, ncubes - 1))))
            gcs = [{"name": f"g{k}", "on": on} for k in range(rng.choice([2, 3, 4]))] + [{"name": "gall", "on": list(range(ncubes))}]
        yield {"base": base, "ca": ca, "lens": lens, "fam": rng.choice(FAMILIES), "wseed": rng.randrange(10**6), "ecs": ecs,
               "gcs": gcs, "lead": rng.random() < 0.3}
    # systematic: two Quantity tables on the common axis of which the second repeats the first in another unit
    # (every attached coordinate object is returned, also one whose values another already has)
    for nd in (1, 2, 3):
        for ncubes in (1, 2, 3):
            ca = rng.randrange(nd)
            yield {"base": [rng.randint(2, 4) for _ in range(nd)], "ca": ca, "lens": [rng.randint(1, 4) for _ in range(ncubes)],
                   "fam": rng.choice(FAMILIES), "wseed": rng.randrange(10**6),
                   "ecs": [{"kind": "quantity", "axes": [ca]}, {"kind": "quantity", "axes": [ca], "dup": True}],
                   "gcs": [], "lead": False}


def build(case):
    from ndcube import NDCube, NDCubeSequence
    cubes = []
    for k, n in enumerate(case["lens"]):
        shape = list(case["base"])
        shape[case["ca"]] = n
        full = ([2] + shape) if case["lead"] else shape
        rng = random.Random(case["wseed"] + (k if case["fam"] == "gwcs" else 0))
        wcs = W.make_wcs(rng, tuple(full), case["fam"], True)
        ll = W.low_level(wcs)
        if isinstance(ll, W.ProbeWCS):
            ll.b = ll.b + 16 * k
        elif case["fam"].startswith("fits"):
            ll.wcs.crval = ll.wcs.crval + 0.01 * k
            ll.wcs.set()
        cube = NDCube(C.payload(tuple(full), k), wcs=wcs, meta={"cube": k})
        if case["lead"]:
            cube = cube[k % 2]
        E.add_ecs(cube, case["ecs"], shape, voff=100.0 * k)
        for g in case["gcs"]:
            if k in g["on"]:
                cube.global_coords.add(g["name"], "custom:user", (1000 * k + len(g["name"])) * u.kg)
        cubes.append(cube)
    return NDCubeSequence(cubes, common_axis=case["ca"]), cubes


def close(a, b, deg):
    a, b = np.asarray(a, dtype=float), np.asarray(b, dtype=float)
    if a.shape != b.shape:
        return False
    d = a - b
    if deg:
        d = (d + 180.0) % 360.0 - 180.0
    return bool(np.allclose(d, 0, rtol=0, atol=1e-9 * max(1.0, float(np.max(np.abs(b))) if b.size else 1.0)))


def comp_values(obj, comp):
    v = accessor(comp)(obj)
    return np.asarray(getattr(v, "value", v), dtype=float)


def run(case):
    tags = [f"ndim={len(case['base'])}", f"ca={case['ca']}", f"fam={case['fam']}", f"ncubes={len(case['lens'])}",
            "ragged" if len(set(case["lens"])) > 1 else "equal-lengths", f"lead={case['lead']}"] + \
           [f"ec={e['kind']}{'@ca' if e['axes'][0] == case['ca'] else ''}" for e in case["ecs"]] + [f"gcs={len(case['gcs'])}"]
    res = {"tags": tags, "oracle": None, "impl": {"err": None}, "model_req": None}
    fails = []
    seq, cubes = build(case)
    nd, ca = len(case["base"]), case["ca"]
    total = sum(case["lens"])
    if len(cubes) > 1 or total > 1:
        res["nontrivial"] = repr(sorted(case.items(), key=str))
    # ---------------- common_axis_coords
    try:
        cac = seq.common_axis_coords
    except Exception as e:
        res["impl"]["err"] = err_kind(e)
        res["oracle"] = f"common_axis_coords raised {type(e).__name__}: {str(e)[:140]}"
        return res
    cll0 = cubes[0].combined_wcs.low_level_wcs
    comps = list(cll0.world_axis_object_components)
    corr0 = np.asarray(cll0.axis_correlation_matrix, dtype=bool)
    keys = []
    for c in comps:
        if c[0] not in keys:
            keys.append(c[0])
    pca = nd - 1 - ca
    objs = [k for k in keys if any(corr0[i, pca] for i in range(len(comps)) if comps[i][0] == k)]
    if len(cac) != len(objs):
        fails.append(f"{len(cac)} coordinates returned, {len(objs)} coordinate objects are attached to the common axis")
    else:
        units = [str(x) for x in cll0.world_axis_units]
        for ci, key in enumerate(objs):
            entries = cac[ci]
            if len(entries) != total:
                fails.append(f"coordinate {ci} ({key}) has {len(entries)} entries, the common axis has cube-like length {total}")
                break
            widx = [i for i in range(len(comps)) if comps[i][0] == key]
            k = 0
            for s, cube in enumerate(cubes):
                cll = cube.combined_wcs.low_level_wcs
                corr = np.asarray(cll.axis_correlation_matrix, dtype=bool)
                comps_s = list(cll.world_axis_object_components)      # (a Time table is relative to its own cube's reference)
                U = sorted({nd - 1 - p for i in widx for p in range(nd) if corr[i, p]})
                others = [a for a in U if a != ca]
                shape = cube.data.shape
                for o in range(case["lens"][s]):
                    grid = np.meshgrid(*[np.arange(shape[a]) for a in others], indexing="ij") if others else []
                    arr = []
                    for a in range(nd):
                        if a == ca:
                            arr.append(np.full(grid[0].shape if others else (), o, dtype=float))
                        elif a in others:
                            arr.append(grid[others.index(a)].astype(float))
                        else:
                            arr.append(np.zeros(grid[0].shape if others else (), dtype=float))
                    world = cll.pixel_to_world_values(*arr[::-1])
                    world = [world] if cll.world_n_dim == 1 else list(world)
                    entry = entries[k]
                    for i in widx:
                        try:
                            got = comp_values(entry, comps_s[i])
                        except Exception as e:
                            fails.append(f"entry {k} of coordinate {ci} is a {type(entry).__name__} the WCS accessor cannot read ({type(e).__name__})")
                            break
                        want = np.asarray(world[i], dtype=float)
                        if not close(got, want, units[i] == "deg"):
                            fails.append(f"coordinate {ci} ({key}) entry {k}: world axis {i} is {np.asarray(got).tolist()}, cube {s} has "
                                         f"{want.tolist()} at position {o} of its common axis")
                            break
                    k += 1
                    if fails:
                        break
                if fails:
                    break
            if fails:
                break
    # ---------------- sequence_axis_coords
    # (first a request that is refused - an invalid physical type - on every cube: it leaves no coordinate behind)
    names_before = [list(c.global_coords.keys()) for c in cubes]
    for c in cubes:
        try:
            c.global_coords.add("refused", "not a physical type", 1 * u.m)
            fails.append("a global coordinate with an invalid physical type was accepted")
        except ValueError:
            pass
        except Exception as e:
            fails.append(f"an invalid physical type raised {type(e).__name__}, documented: ValueError")
    if [list(c.global_coords.keys()) for c in cubes] != names_before:
        fails.append(f"a refused global_coords.add left a coordinate behind: {[list(c.global_coords.keys()) for c in cubes][0]}")
    try:
        sac = seq.sequence_axis_coords
        want_names = set.intersection(*[set(c.global_coords.keys()) for c in cubes])
        if set(sac.keys()) != want_names:
            fails.append(f"sequence_axis_coords names {sorted(map(str, sac))}, names present on all cubes {sorted(map(str, want_names))}")
        else:
            for name in want_names:
                vals = sac[name]
                exp = [c.global_coords[name] for c in cubes]
                if len(vals) != len(cubes) or not all(np.all(a == b) for a, b in zip(vals, exp)):
                    fails.append(f"sequence_axis_coords[{name!r}] = {vals}, per-cube values {exp}")
        sac_obs = {str(k): [str(v) for v in vs] for k, vs in sac.items()}
    except Exception as e:
        fails.append(f"sequence_axis_coords raised {type(e).__name__}: {str(e)[:120]}")
        sac_obs = None
    # ---------------- for the model
    try:
        from ndcube.utils.wcs import array_indices_for_world_objects
        maps = [array_indices_for_world_objects(c.combined_wcs, axes=(ca,)) for c in cubes]
        own = [c.axis_world_coords(ca, wcs=c.combined_wcs) for c in cubes]
        ncoord = len(maps[0])
        res["extra_reqs"] = [{"op": "seq_coords", "lens": case["lens"], "axes": [[int(a) for a in m[ci]] for m in maps], "ca": ca}
                             for ci in range(ncoord)]
        # what the implementation returned, keyed for comparison with "cube s, index ix"
        res["own_ok"] = True
        gtable, gcs = [], []
        for c in cubes:
            row = []
            for name in c.global_coords.keys():
                gtable.append(str(c.global_coords[name]))
                row.append([str(name), len(gtable) - 1])
            gcs.append(row)
        res["gtable"] = gtable
        res["sac"] = sac_obs
        res["model_req"] = {"op": "seq_axis", "gcs": gcs}
    except Exception as e:
        fails.append(f"per-cube coordinates raised {type(e).__name__}: {str(e)[:120]}")
    if fails:
        res["oracle"] = "; ".join(fails[:2])
    return res


def compare(case, r, m):
    if r.get("sac") is None:
        return None
    want = {name: [r["gtable"][i] if i is not None else None for i in ids] for name, ids in m["coords"]}
    if want != r["sac"]:
        return f"sequence_axis_coords: implementation {r['sac']} vs model {want}"
    return None


def compare_extra(case, r, ci, m):
    """Entry k must be the object the model points at: cube s's own coordinate, indexed at the
    model's multi-index (1000+ = full slice)."""
    seq, cubes = build(case)
    ca = case["ca"]
    cac = seq.common_axis_coords
    if ci >= len(cac):
        return f"model has a coordinate {ci}, implementation returned {len(cac)}"
    if m["count"] != len(cac[ci]):
        return f"coordinate {ci}: implementation has {len(cac[ci])} entries, model {m['count']}"
    own = [c.axis_world_coords(ca, wcs=c.combined_wcs) for c in cubes]
    for k, ent in enumerate(m["entries"]):
        src = own[ent["cube"]][ci]
        item = tuple(slice(None) if x >= 1000 else x for x in ent["index"])
        want = src[item] if item else src
        got = cac[ci][k]
        try:
            same = bool(np.all(got == want))
        except Exception:
            same = repr(got) == repr(want)
        if not same:
            return f"coordinate {ci} entry {k}: implementation {got!r}, model says cube {ent['cube']} at {ent['index']} = {want!r}"
    return None


def signature(case, failure):
    return "other:" + failure[:60]


def shrink(case):
    if len(case["lens"]) > 1:
        for i in range(len(case["lens"])):
            yield {**case, "lens": case["lens"][:i] + case["lens"][i + 1:], "gcs": []}
    for i in range(len(case["ecs"])):
        yield {**case, "ecs": case["ecs"][:i] + case["ecs"][i + 1:]}
    if case["gcs"]:
        yield {**case, "gcs": []}
    if case["lead"]:
        yield {**case, "lead": False}
    if case["fam"] != "probe":
        yield {**case, "fam": "probe"}
