from common import *
def w2(shape, shift=(0,0)):
    w = WCS(naxis=2)
    w.wcs.ctype = 'HPLN-TAN','HPLT-TAN'
    w.wcs.cunit = 'deg','deg'
    w.wcs.cdelt = 0.01,0.01
    w.wcs.crpix = 3+shift[0],4+shift[1]
    w.wcs.crval = 0,0
    w.array_shape = shape
    return w
d = np.arange(6*8.).reshape(6,8)
c = NDCube(d, wcs=w2((6,8)), unit=u.ct, meta={'x':1})
c.global_coords.add("dist","pos.distance",1*u.m)
r = tryit("reproject same", lambda: c.reproject_to(w2((6,8))))
if r is not None: print(np.allclose(r.data, d), r.unit, r.meta, dict(r.global_coords), r.shape)
r = tryit("reproject shift", lambda: c.reproject_to(w2((6,8),(1,0)), return_footprint=True))
if r is not None:
    print(r[0].data[0], r[1][0], r[0].unit)
r = tryit("reproject shape_out", lambda: c.reproject_to(w2((6,8)), shape_out=(4,5)).shape)
w = w2((6,8)); w.array_shape=None; w._naxis=[0,0]
r = tryit("reproject noshape", lambda: c.reproject_to(w).shape)
r = tryit("reproject algo bad", lambda: c.reproject_to(w2((6,8)), algorithm='foo').shape)
r = tryit("reproject adaptive", lambda: np.allclose(c.reproject_to(w2((6,8)), algorithm='adaptive').data, d))
r = tryit("reproject exact", lambda: np.allclose(c.reproject_to(w2((6,8)), algorithm='exact').data, d))
r = tryit("reproject header", lambda: c.reproject_to(w2((6,8)).to_header(), shape_out=(6,8)).shape)
# sequence crop
def mk3(n0, shiftpix):
    w = wlin(3,(n0,4,5)); w.wcs.crpix = [0+shiftpix,1,2]
    return NDCube(np.arange(n0*20.).reshape(n0,4,5), wcs=w)
seq = NDCubeSequence([mk3(3,0), mk3(3,1)], common_axis=0)
ll = seq[0].wcs.low_level_wcs
a = ll.pixel_to_world_values(1,1,0); b = ll.pixel_to_world_values(3,2,2)
tryit("seq cbv", lambda: seq.crop_by_values([a[0]*u.m,a[1]*u.s,a[2]*u.Hz],[b[0]*u.m,b[1]*u.s,b[2]*u.Hz]).shape)
tryit("seq cbv none", lambda: seq.crop_by_values([a[0]*u.m,None,None],[b[0]*u.m,None,None]).shape)
tryit("seq cbv 1wide", lambda: seq.crop_by_values([a[0]*u.m,a[1]*u.s,a[2]*u.Hz],[b[0]*u.m,a[1]*u.s,b[2]*u.Hz]).shape)
# C17
seq.data[0].global_coords.add("g","pos.distance",1*u.m); seq.data[1].global_coords.add("g","pos.distance",2*u.m)
seq.data[0].global_coords.add("h","pos.distance",1*u.m)
tryit("seq axis coords", lambda: seq.sequence_axis_coords)
tryit("common axis coords", lambda: seq.common_axis_coords)
