from common import *
data = np.arange(4*6*8.).reshape(4,6,8)
w = wcs3((4,6,8))
c = NDCube(data, wcs=w, unit=u.ct, mask=(data%5==0), uncertainty=StdDevUncertainty(np.sqrt(data)), meta={'a':1})
c.extra_coords.add("time", 0, Time("2000-01-01")+np.arange(4)*u.s)
c.extra_coords.add("dist", 1, np.arange(6)*u.m)
r = c.rebin((2,3,2), operation=np.sum)
print("rebin shape", r.shape, r.unit, r.meta, r.mask.shape)
ll0=c.wcs.low_level_wcs; ll1 = r.wcs.low_level_wcs
print("rebinned centre (0,0,0):", ll1.pixel_to_world_values(0,0,0))
print("orig block centre:", ll0.pixel_to_world_values(0.5,1,0.5), " orig first:", ll0.pixel_to_world_values(0,0,0))
tryit("rebinned ec", lambda: r.axis_world_coords_values(wcs=r.extra_coords))
tryit("rebinned ec keys", lambda: r.extra_coords.keys())
tryit("rebin ones is self", lambda: c.rebin((1,1,1)) is c)
tryit("rebin quantity", lambda: c.rebin([2,3,2]*u.pix).shape)
tryit("rebin bad", lambda: c.rebin((3,3,2)).shape)
tryit("rebin badlen", lambda: c.rebin((2,3)).shape)
tryit("rebin float", lambda: c.rebin((2.2,2.9,2)).shape)
# check values
exp = np.ma.masked_array(data, data%5==0).reshape(2,2,2,3,4,2).sum(axis=(5,3,1))
print("sum masked eq:", np.array_equal(r.data, exp.data))
r2 = c.rebin((2,3,2), operation=np.sum, propagate_uncertainties=True)
print("unc", r2.uncertainty.array[0,0,0], "src unc unchanged:", np.array_equal(c.uncertainty.array, np.sqrt(data)), "src mask unchanged", np.array_equal(c.mask, data%5==0), "src data unchanged", np.array_equal(c.data, np.arange(4*6*8.).reshape(4,6,8)))
# closed form for block (0,0,0)
blk = np.sqrt(data)[0:2,0:3,0:2]; m = (data%5==0)[0:2,0:3,0:2]
print("closed form", np.sqrt((blk[~m]**2).sum()))
# unwrap
from ndcube.wcs.tools import unwrap_wcs_to_fitswcs
before = (w.wcs.cdelt.copy(), w.wcs.crpix.copy(), list(w._naxis))
f, dd = unwrap_wcs_to_fitswcs(r.wcs)
print("unwrap:", f.wcs.cdelt, f.wcs.crpix, f._naxis, dd, " base mutated?", not (np.array_equal(before[0], w.wcs.cdelt) and np.array_equal(before[1], w.wcs.crpix) and before[2]==list(w._naxis)))
