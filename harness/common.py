"""Shared helpers for property modules: item encoding, cube construction, payload decoding."""
import itertools, json, os, warnings
import numpy as np
import astropy.units as u
from astropy.nddata import StdDevUncertainty

warnings.filterwarnings("ignore")
ROOT = os.path.dirname(os.path.dirname(os.path.abspath(__file__)))


def to_py_item(j):
    """JSON item -> Python index entry."""
    if j is None:
        return None
    if j == "...":
        return Ellipsis
    if isinstance(j, dict):
        a, b, c = j["s"]
        return slice(a, b, c)
    return int(j)


def to_py_index(items, bare=False):
    t = tuple(to_py_item(i) for i in items)
    if bare and len(t) == 1:
        return t[0]
    return t


def sl(a=None, b=None, c=None):
    return {"s": [a, b, c]}


def item_kind(j, n=None):
    if j is None:
        return "None"
    if j == "...":
        return "ellipsis"
    if isinstance(j, dict):
        a, b, c = j["s"]
        k = "slice"
        if a is None and b is None:
            k += ":all"
        if (a is not None and a < 0) or (b is not None and b < 0):
            k += ":neg"
        if n is not None and ((a is not None and abs(a) > n) or (b is not None and abs(b) > n)):
            k += ":overlong"
        if c is not None:
            k += ":step"
        return k
    return "int:neg" if j < 0 else "int"


def payload(shape, cube_id=0, kind="numpy"):
    """Self-identifying payload: value = cube_id * 10**6 + flat row-major index."""
    n = int(np.prod(shape))
    a = (cube_id * 10**6 + np.arange(n, dtype=float)).reshape(shape)
    if kind == "dask":
        import dask.array as da
        return da.from_array(a, chunks=tuple(max(1, s // 2) for s in shape))
    return a


def decode(values, shape):
    """Payload values -> (cube_id array, tuple of source index arrays)."""
    v = np.asarray(values).astype(np.int64)
    cid = v // 10**6
    flat = v % 10**6
    return cid, np.unravel_index(flat, shape) if len(shape) else ()


def materialize(x):
    return x.compute() if hasattr(x, "compute") else np.asarray(x)


def all_indices(shape, limit, rng):
    """All multi-indices of `shape` if there are at most `limit`, else corners + a random sample."""
    n = int(np.prod(shape)) if len(shape) else 1
    if n == 0:
        return []
    if n <= limit:
        return [list(map(int, ix)) for ix in np.ndindex(*shape)]
    out = set()
    for corner in itertools.product(*[(0, s - 1) for s in shape]):
        out.add(tuple(corner))
    while len(out) < limit:
        out.add(tuple(rng.randrange(s) for s in shape))
    return [list(t) for t in sorted(out)]


def read_corpus(prop_id):
    p = os.path.join(ROOT, "harness", "corpus", f"{prop_id}.jsonl")
    if not os.path.exists(p):
        return []
    return [json.loads(l) for l in open(p) if l.strip() and not l.startswith("#")]
