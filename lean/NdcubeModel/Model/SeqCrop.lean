import NdcubeModel.Model.Crop

/-!
# `NDCubeSequence.crop`: one common box from the cubes' own boxes

Mirrors `_get_sequence_crop_item` after the `fix:` commit: each cube's item is computed with
`keepdims=True` (so every entry is a slice or whole), whole axes count as `0 .. len`, and the
sequence is sliced by `[0:n_cubes, min starts : max stops, …]`.
-/

namespace Ndcube

/-- start / stop of one entry of a cube's own crop item on an axis of length `n` -/
def itemStart : Item → Int
  | .slice (some s) _ _ => s
  | .int i => i
  | _ => 0

def itemStop (n : Nat) : Item → Int
  | .slice _ (some e) _ => e
  | .int i => i + 1
  | _ => n

/-- rows = cubes, columns = cube axes -/
def seqStarts (items : List (List Item)) : List (List Int) := items.map fun it => it.map itemStart
def seqStops (shapes : List (List Nat)) (items : List (List Item)) : List (List Int) :=
  List.zipWith (fun sh it => List.zipWith itemStop sh it) shapes items

def colMin (rows : List (List Int)) (j : Nat) : Int :=
  match rows.map (fun r => r.getD j 0) with
  | [] => 0
  | x :: xs => listMin x xs

def colMax (rows : List (List Int)) (j : Nat) : Int :=
  match rows.map (fun r => r.getD j 0) with
  | [] => 0
  | x :: xs => listMax x xs

/-- the item applied to the sequence: sequence axis whole, then one slice per cube axis -/
def seqCropItem (ndim : Nat) (shapes : List (List Nat)) (items : List (List Item)) : List Item :=
  .slice (some 0) (some (items.length : Int)) none ::
    (List.range ndim).map fun j =>
      .slice (some (colMin (seqStarts items) j)) (some (colMax (seqStops shapes items) j)) none

end Ndcube
