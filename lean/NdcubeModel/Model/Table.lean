import NdcubeModel.Model.Py

/-!
# Lookup tables: linear interpolation and the resampling grid

`interp1 t x` is the specification of a 1-D lookup-table coordinate (gwcs `Tabular1D` with
`points = arange(n)`, linear method, no extrapolation; `numpy.interp` inside the range).
`resampleGrid` mirrors the grid of `ExtraCoords.resample`.
-/

namespace Ndcube

/-- Linear interpolation of table `t` (entries at integer pixels) at position `x`; `none`
outside `[0, n-1]`. -/
def interp1 (t : List Rat) (x : Rat) : Option Rat :=
  if x < 0 then none else
  let i := x.floor.toNat
  if (i : Rat) = x then t[i]?          -- exactly on a table entry (includes the last one)
  else
    match t[i]?, t[i + 1]? with
    | some a, some b => some (a + (x - (i : Rat)) * (b - a))
    | _, _ => none

/-- The new grid of `ExtraCoords.resample` along one axis of length `d`:
`x = arange(c, d + f, f); x = x[x <= d - 1]` (for `f ≥ 1`, `c ≥ 0` every candidate `c + k f`
with `k ≤ d` is enumerated). -/
def resampleGrid (c : Rat) (d : Nat) (f : Rat) : List Rat :=
  ((List.range (d + 1)).map fun (k : Nat) => c + (k : Rat) * f).filter fun x => x ≤ (d : Rat) - 1

/-- `table.interpolate(grid)`: the table of the resampled coordinate. -/
def interpolateTable (t : List Rat) (grid : List Rat) : List (Option Rat) := grid.map (interp1 t)

end Ndcube

namespace Ndcube

/-- inverse of a strictly increasing table (gwcs `Tabular1D.inverse`: the table as points, the
pixels as values): the position between the two entries that bracket `y`. -/
def inv1 : List Rat → Rat → Option Rat
  | [], _ => none
  | [a], y => if y = a then some 0 else none
  | a :: b :: rest, y =>
    if y < a then none
    else if y ≤ b ∧ a < b then some ((y - a) / (b - a))
    else (inv1 (b :: rest) y).map (· + 1)

/-- pixel-to-world of tables joined with `&` (or a meshed multi-component coordinate): table
`k` is read at pixel input `k`, outputs in order. -/
def joinedP2W (tables : List (List Rat)) (pix : List Rat) : List (Option Rat) :=
  List.zipWith interp1 tables pix

/-- `coord[item]` for one table: Python slicing of the table -/
def sliceTable (t : List Rat) (s e : Option Int) : List Rat := pySlice t s e

end Ndcube

namespace Ndcube

/-- inverse of a strictly decreasing table (gwcs reverses points and values) -/
def inv1Desc (t : List Rat) (y : Rat) : Option Rat :=
  (inv1 t.reverse y).map fun x => ((t.length : Rat) - 1) - x

def isIncreasing : List Rat → Bool
  | a :: b :: rest => decide (a < b) && isIncreasing (b :: rest)
  | _ => true

/-- `world_to_pixel` of a 1-D table: increasing or decreasing tables only -/
def invTable (t : List Rat) (y : Rat) : Option Rat :=
  if isIncreasing t then inv1 t y
  else if isIncreasing t.reverse then inv1Desc t y
  else none

end Ndcube
