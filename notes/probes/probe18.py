from common import *
c = NDCube(np.zeros((3,4,5)), wcs=wcs3((3,4,5)))
print("before:", c.extra_coords._ndcube is c)
s = c[0]
print("after slice: parent's ec is child's ec:", c.extra_coords is s.extra_coords, " parent ec._ndcube is parent:", c.extra_coords._ndcube is c)
c.extra_coords.add("t", 1, np.arange(4)*u.s, physical_types="time")
tryit("parent mapping (expect (1,))", lambda: c.extra_coords.mapping)
tryit("child keys (expect ())", lambda: s.extra_coords.keys())
tryit("parent aapt", lambda: c.array_axis_physical_types)
