import NdcubeModel.Lemmas.Uncert
import NdcubeModel.Props.C08

/-!
# C16 — rebin propagates uncertainties as the textbook combination of each block

Variance form over `Rat` (root-sum-square of standard deviations = sum of variances).
The multiplicative operation (`prod`) is a recorded known finding of the implementation and has
no theorem here: see `known_findings.json`.
-/

namespace Ndcube.C16
open Ndcube

/-- **Flattening**: axis 0 of the arrays handed to the propagation function enumerates exactly the
members of each block — flat element `(m, j)` for `m = 0 … ∏f − 1` is the block member
`j*f + k` with `k` the `m`-th position of the bin in row-major order (C08's block members). -/
theorem flatten_members (shape f : List Nat) (hl : f.length = shape.length)
    (hd : nonDivisor shape f = false) (j : List Nat) (hj : j ∈ allIndices (zipDiv shape f)) :
    (List.range (prodL f)).map (fun m => flatMember (zipDiv shape f) f m j)
      = C08.blockMembers shape f j := by
  rw [← C08.viewMembers_eq_block shape f hl hd j hj]
  simp only [viewMembers, allIndices_eq_unravel, List.map_map]
  rfl

/-- the arrays handed to a (custom) propagation function have the bin members along the first
axis: `∏f` of them -/
theorem flat_member_count (f : List Nat) : (allIndices f).length = prodL f := by
  simp [allIndices_eq_unravel]

def contributing (op : Reduction) (ignoresMask : Bool) (ms : List Member) : List Member :=
  ms.filter fun m => !excluded op ignoresMask m

theorem foldl_add_init (l : List Member) (g : Member → Rat) (a : Rat) :
    l.foldl (fun acc m => acc + g m) a = a + l.foldl (fun acc m => acc + g m) 0 := by
  induction l generalizing a with
  | nil => simp [Rat.add_zero]
  | cons x xs ih =>
    simp only [List.foldl_cons]
    rw [ih (a + g x), ih (0 + g x)]
    grind

theorem sum_contributing (op : Reduction) (ign : Bool) (l : List Member) :
    l.foldl (fun acc m => acc + (if excluded op ign m then 0 else m.variance)) 0
      = ((contributing op ign l).map (·.variance)).foldl (· + ·) 0 := by
  induction l with
  | nil => rfl
  | cons x xs ih =>
    simp only [List.foldl_cons, contributing, List.filter_cons]
    rw [foldl_add_init]
    by_cases hx : excluded op ign x = true
    · simp only [hx, if_true, Bool.not_true, Bool.false_eq_true, if_false]
      simp only [contributing] at ih
      rw [ih]; grind
    · have hx' : excluded op ign x = false := by simpa using hx
      simp only [hx', Bool.false_eq_true, if_false, Bool.not_false, if_true, List.map_cons, List.foldl_cons]
      simp only [contributing] at ih
      rw [ih]
      generalize (List.map (fun x => x.variance) (List.filter (fun m => !excluded op ign m) xs)) = vs
      have h2 : ∀ (vs : List Rat) (a : Rat), vs.foldl (· + ·) a = a + vs.foldl (· + ·) 0 := by
        intro vs
        induction vs with
        | nil => intro a; simp [Rat.add_zero]
        | cons y ys ihy => intro a; simp only [List.foldl_cons]; rw [ihy (a + y), ihy (0 + y)]; grind
      rw [h2 vs (0 + x.variance)]

/-- **Sums**: the propagated variance of an output element is the sum of the variances of its
contributing members (root-sum-square of their standard deviations) — whatever the block size
and wherever the masked / NaN members sit, the first position included. -/
theorem fold_add_closed (op : Reduction) (ign : Bool) (ms : List Member) (hne : ms ≠ [])
    (hop : isMeanOp op = false) :
    propagateAdd op ign ms = some (((contributing op ign ms).map (·.variance)).foldl (· + ·) 0) := by
  cases ms with
  | nil => exact absurd rfl hne
  | cons m0 rest =>
    simp only [propagateAdd, hop, Bool.false_eq_true, if_false]
    congr 1
    rw [foldl_add_init]
    have := sum_contributing op ign (m0 :: rest)
    simp only [List.foldl_cons] at this
    rw [foldl_add_init] at this
    rw [← this]
    grind

/-- **Means**: that sum divided by the square of the number of contributing members (the
standard deviation divided by the number of contributing members). -/
theorem fold_mean_closed (op : Reduction) (ign : Bool) (ms : List Member) (hne : ms ≠ [])
    (hop : isMeanOp op = true) (hn : (contributing op ign ms).length ≠ 0) :
    propagateAdd op ign ms =
      some (((contributing op ign ms).map (·.variance)).foldl (· + ·) 0
            / (((contributing op ign ms).length : Rat) * ((contributing op ign ms).length : Rat))) := by
  cases ms with
  | nil => exact absurd rfl hne
  | cons m0 rest =>
    simp only [propagateAdd, hop, if_true]
    have hn' : ((m0 :: rest).filter fun m => !excluded op ign m).length ≠ 0 := hn
    simp only [hn', if_false]
    congr 2
    rw [foldl_add_init]
    have := sum_contributing op ign (m0 :: rest)
    simp only [List.foldl_cons] at this
    rw [foldl_add_init] at this
    rw [← this]
    grind

/-- **Nothing contributes**: a block all of whose members are left out (all masked, or all NaN
under a nan-operation — a cube that is NaN throughout included) has the empty combination, 0,
for sums and means alike. -/
theorem fold_none_contributing (op : Reduction) (ign : Bool) (ms : List Member) (hne : ms ≠ [])
    (hall : ∀ m ∈ ms, excluded op ign m = true) :
    propagateAdd op ign ms = some 0 := by
  have hc : contributing op ign ms = [] := by
    simp only [contributing, List.filter_eq_nil_iff]
    intro m hm; simp [hall m hm]
  by_cases hop : isMeanOp op = true
  · cases ms with
    | nil => exact absurd rfl hne
    | cons m0 rest =>
      have hn : ((m0 :: rest).filter fun m => !excluded op ign m).length = 0 := by
        have := hc; simp only [contributing] at this; rw [this]; rfl
      simp only [propagateAdd, hop, if_true, hn]
      congr 1
      rw [foldl_add_init]
      have := sum_contributing op ign (m0 :: rest)
      simp only [List.foldl_cons] at this
      rw [foldl_add_init] at this
      rw [hc] at this
      simp only [List.map_nil, List.foldl_nil] at this
      have h0 : (if excluded op ign m0 = true then (0 : Rat) else m0.variance)
          + List.foldl (fun acc m => acc + if excluded op ign m = true then 0 else m.variance) 0 rest = 0 := by
        grind
      rw [h0, Rat.div_def, Rat.zero_mul]
  · have hop' : isMeanOp op = false := by simpa using hop
    rw [fold_add_closed op ign ms hne hop', hc]; rfl

/-- **Who contributes**: a member is left out iff it is masked and the operation honours the
mask, or its data is NaN and the operation is one of the nan-operations. -/
theorem contributing_spec (op : Reduction) (ign : Bool) (m : Member) :
    excluded op ign m = true ↔ ((ign = false ∧ m.masked = true) ∨ (isNanOp op = true ∧ m.value.isNan = true)) := by
  simp [excluded]

/-- **Warning branches**: no uncertainty, an unknown-type uncertainty, or a fully masked cube
(with the mask honoured) give no uncertainty; everything else is propagated. -/
theorem warn_branches (mask : MaskIn) (ign : Bool) :
    propOutcome .absent mask ign = .warnNoUncertainty ∧
    propOutcome .unknown mask ign = .warnUnknown ∧
    (∀ k, k = UncertKind.std ∨ k = UncertKind.var →
      (propOutcome k (.scalar true) false = .warnAllMasked) ∧
      (propOutcome k .absent ign = .propagate) ∧
      (propOutcome k mask true = .propagate) ∧
      (∀ bits, bits.all id = true → propOutcome k (.array bits) false = .warnAllMasked)) := by
  refine ⟨rfl, rfl, ?_⟩
  intro k hk
  rcases hk with rfl | rfl <;> refine ⟨rfl, by cases ign <;> rfl, by simp [propOutcome], ?_⟩ <;>
    (intro bits hb; simp [propOutcome, hb])

end Ndcube.C16
