-- Root of the `NdcubeModel` library.
import NdcubeModel.Model.Py
import NdcubeModel.Model.NdIndex
import NdcubeModel.Model.Wcs
import NdcubeModel.Model.Cube
import NdcubeModel.Lemmas.Index
import NdcubeModel.Props.C01
import NdcubeModel.Witness.C01
import NdcubeModel.Driver
