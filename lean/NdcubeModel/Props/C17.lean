import NdcubeModel.Model.SeqCoords
import NdcubeModel.Lemmas.Seq

/-!
# C17 — sequence coordinate views line up with the cubes they summarise
-/

namespace Ndcube.C17
open Ndcube

/-- **As many entries as the cube-like length, in concatenation order**: the coordinate has
`Σ lens` entries and entry `k` is the coordinate of the cube that holds position `k` of the
concatenated common axis, at that position's offset inside the cube (cube order, then position
within the cube) — for any number of cubes and any ragged lengths. -/
theorem common_axis_entries {β} (lens : List Nat) (coords : Nat → CoordArr β) (ca : Nat) :
    (commonAxisCoords lens coords ca).length = lens.sum ∧
    ∀ k s o, locate lens k = some (s, o) →
      (commonAxisCoords lens coords ca)[k]? = some (explodeAt (coords s) ca o) := by
  exact flatMap_range_locate lens (fun j l => explodeAt (coords j) ca l)

theorem idxOf_lt_count (axes : List Nat) (ca : Nat) (hs : axes.Pairwise (· < ·)) (hm : ca ∈ axes) :
    axes.idxOf ca = (axes.filter (· < ca)).length ∧ axes[axes.idxOf ca]? = some ca := by
  induction axes with
  | nil => cases hm
  | cons a as ih =>
    rw [List.pairwise_cons] at hs
    by_cases hac : a = ca
    · subst hac
      constructor
      · have hnone : as.filter (· < a) = [] := by
          rw [List.filter_eq_nil_iff]
          intro x hx; have := hs.1 x hx; simp; omega
        simp [List.idxOf_cons_self, hnone]
      · simp [List.idxOf_cons_self]
    · have hm' : ca ∈ as := by
        rcases List.mem_cons.mp hm with h | h
        · exact absurd h.symm hac
        · exact h
      have hlt : a < ca := hs.1 ca hm'
      obtain ⟨ih1, ih2⟩ := ih hs.2 hm'
      have hne : (a == ca) = false := by simp [hac]
      constructor
      · rw [List.idxOf_cons, hne]
        simp only [cond_false, List.filter_cons, hlt, decide_true, if_true, List.length_cons]
        omega
      · rw [List.idxOf_cons, hne]
        simpa using ih2

/-- **The right axis is exploded**: when the coordinate spans ascending array axes that include
the common axis, the position used is that of the common axis (the number of spanned axes below
it); entry `l` is the coordinate with index `l` exactly there and the remaining indices, in
order, on the other spanned axes. -/
theorem explode_right_axis {β} (c : CoordArr β) (ca l : Nat) (rest : List Nat)
    (hs : c.axes.Pairwise (· < ·)) (hm : ca ∈ c.axes) (hr : rest.length + 1 = c.axes.length) :
    c.axes[axisPos c.axes ca]? = some ca ∧
    axisPos c.axes ca = (c.axes.filter (· < ca)).length ∧
    (insertAt (axisPos c.axes ca) l rest)[axisPos c.axes ca]? = some l ∧
    (insertAt (axisPos c.axes ca) l rest).eraseIdx (axisPos c.axes ca) = rest ∧
    explodeAt c ca l rest = c.val (insertAt (axisPos c.axes ca) l rest) := by
  obtain ⟨h1, h2⟩ := idxOf_lt_count c.axes ca hs hm
  have hpos : axisPos c.axes ca < c.axes.length := by
    simp only [axisPos]; exact List.idxOf_lt_length_of_mem hm
  have hpr : axisPos c.axes ca ≤ rest.length := by omega
  refine ⟨h2, h1, ?_, ?_, rfl⟩
  · simp only [insertAt]
    rw [List.getElem?_append_right (by simp; omega)]
    simp [Nat.min_eq_left hpr]
  · simp only [insertAt]
    rw [List.eraseIdx_append_of_length_le (by simp; omega)]
    simp [Nat.min_eq_left hpr]

/-- **Sequence-axis coordinates**: a name is reported exactly when every cube has it, and its
value is the list of the per-cube values in sequence order (one per cube). -/
theorem seq_axis_coords {V} (g : List (String × V)) (rest : List (List (String × V))) (name : String) :
    (name ∈ (seqAxisCoords (g :: rest)).map (·.1) ↔
      name ∈ g.map (·.1) ∧ ∀ g' ∈ rest, (gcLookup g' name).isSome = true) ∧
    (∀ vs, (name, vs) ∈ seqAxisCoords (g :: rest) →
      vs = (g :: rest).map (fun g' => gcLookup g' name) ∧ vs.length = (g :: rest).length) := by
  constructor
  · simp only [seqAxisCoords, List.map_map, List.mem_map, List.mem_filter, List.all_eq_true, Function.comp]
    constructor
    · rintro ⟨n, ⟨⟨p, hp, rfl⟩, hall⟩, rfl⟩
      exact ⟨⟨p, hp, rfl⟩, hall⟩
    · rintro ⟨⟨p, hp, rfl⟩, hall⟩
      exact ⟨p.1, ⟨⟨p, hp, rfl⟩, hall⟩, rfl⟩
  · intro vs h
    simp only [seqAxisCoords, List.mem_map, List.mem_filter] at h
    obtain ⟨n, _, heq⟩ := h
    simp only [Prod.mk.injEq] at heq
    obtain ⟨rfl, rfl⟩ := heq
    simp

end Ndcube.C17
