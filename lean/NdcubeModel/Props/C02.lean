import NdcubeModel.Model.ExtraCoords
import NdcubeModel.Lemmas.Coll

/-!
# C02 — slicing keeps extra coordinates on the right elements, in the same order

The *values* of a sliced lookup table are numpy slices of the table arrays (C01's per-axis
statements `axis_slice_spec` / `axis_int_spec`); this file is about which tables survive, in
which order, and on which array axes they sit afterwards.
-/

namespace Ndcube.C02
open Ndcube

/-- **Order**: the surviving coordinates are the original ones with the dropped ones removed —
same relative order (a sublist), whatever the slice; nothing depends on object identity. -/
theorem ec_slice_order (ec : ExtraCoordsM) (items : List Item) :
    (ec.getitem items).luts.map (·.id) = (ec.luts.filter fun l => !lutIsDropped items l).map (·.id) ∧
    List.Sublist ((ec.getitem items).luts.map (·.id)) (ec.luts.map (·.id)) := by
  by_cases h : ec.luts = []
  · simp [ExtraCoordsM.getitem, h]
  · simp only [ExtraCoordsM.getitem, h, if_false, List.map_map]
    exact ⟨rfl, List.Sublist.map _ List.filter_sublist⟩

/-- **Dropped iff every axis indexed away**: a coordinate stops being axis-attached exactly when
all of its array axes are indexed by an integer; the coordinates dropped by this slice are
appended (in order) to those dropped before. -/
theorem ec_slice_drop_iff (ec : ExtraCoordsM) (items : List Item) (l : Lut) :
    (lutIsDropped items l = true ↔ ∀ ax ∈ l.axes, (items.getD ax Item.all).isInt = true) ∧
    (ec.luts ≠ [] → (ec.getitem items).dropped =
      ec.dropped ++ (ec.luts.filter fun l => lutIsDropped items l).map (·.id)) := by
  constructor
  · simp [lutIsDropped, lutSlice]
  · intro h; simp [ExtraCoordsM.getitem, h]

/-- **Axis renumbering**: a surviving coordinate axis `ax` (its item is a slice) is recorded at
`ax − (#integer items up to ax)`, and that array axis of the sliced cube is a view of axis `ax`
of the original cube — for every dimensionality and every item. -/
theorem ec_slice_mapping (shape : List Nat) (items nits : List Item) (res : List AxisRes) (ax : Nat)
    (hn : normItems shape items = .ok nits) (hres : applyAxes shape nits = .ok res)
    (hfull : items.length = shape.length) (hne : countEllipsis items = 0) (hax : ax < shape.length)
    (hnot : (items.getD ax Item.all).isInt = false) :
    (keptAxes res)[ax - nDroppedUpTo items ax]? = some ax := by
  have hmap := normItems_isInt hn hfull hne
  have hlen := applyAxes_length hres
  have hax' : ax < items.length := by omega
  have hcnt : nDroppedUpTo items ax = numDropped (res.take ax) := by
    simp only [nDroppedUpTo]
    rw [countInts_take_succ items ax hax', hnot]
    simp only [Bool.false_eq_true, if_false, Nat.add_zero]
    rw [numDropped_eq_countInts hres ax]
    exact (countInts_take_congr _ _ hmap ax).symm
  have hkept : (res.getD ax (.dropped 0)).isKept = true := by
    have h1 := applyAxes_isInt hres
    have hax2 : ax < res.length := by omega
    have hax3 : ax < nits.length := by omega
    have h2 := congrArg (fun l => l[ax]?) h1
    simp only [List.getElem?_map, List.getElem?_eq_getElem hax2, List.getElem?_eq_getElem hax3,
      Option.map_some, Option.some.injEq] at h2
    have h3 : (nits.getD ax Item.all).isInt = false := by
      rw [getD_isInt_congr _ _ hmap ax]; exact hnot
    simp only [List.getD, List.getElem?_eq_getElem hax3, Option.getD_some] at h3
    simp only [List.getD, List.getElem?_eq_getElem hax2, Option.getD_some]
    rw [h3] at h2
    simpa using h2
  rw [hcnt]
  have := keptFrom_get 0 ax res (by omega) hkept
  simpa [keptAxes] using this

/-- **Chains**: the coordinates dropped by successive slices accumulate in order. -/
theorem ec_slice_chain (ec : ExtraCoordsM) (a b : List Item) (h1 : ec.luts ≠ [])
    (h2 : (ec.getitem a).luts ≠ []) :
    ((ec.getitem a).getitem b).dropped =
      ec.dropped ++ (ec.luts.filter fun l => lutIsDropped a l).map (·.id)
        ++ ((ec.getitem a).luts.filter fun l => lutIsDropped b l).map (·.id) := by
  rw [(ec_slice_drop_iff (ec.getitem a) b { axes := [], id := 0 }).2 h2, (ec_slice_drop_iff ec a { axes := [], id := 0 }).2 h1]

/-- **Components of separable tables** (several independent 1-D tables registered together):
a component stays attached exactly when its own axis is not indexed by an integer, and — when
the table as a whole survives — the others are exactly the ones recorded as dropped; no
component is in both lists or in neither. -/
theorem ec_slice_components (items : List Item) (l : Lut) (hs : l.sep = true)
    (hnd : lutIsDropped items l = false) (ax c : Nat) (hmem : (ax, c) ∈ l.axes.zip l.comps) :
    ((items.getD ax Item.all).isInt = false → c ∈ lutNewComps items l) ∧
    ((items.getD ax Item.all).isInt = true → (l.id, c) ∈ lutLostComps items l) ∧
    (∀ c', c' ∈ lutNewComps items l ↔ ∃ ax', (ax', c') ∈ l.axes.zip l.comps ∧ (items.getD ax' Item.all).isInt = false) ∧
    (∀ c', (l.id, c') ∈ lutLostComps items l ↔ ∃ ax', (ax', c') ∈ l.axes.zip l.comps ∧ (items.getD ax' Item.all).isInt = true) := by
  refine ⟨?_, ?_, ?_, ?_⟩
  · intro h
    simp only [lutNewComps, List.mem_map, List.mem_filter]
    exact ⟨(ax, c), ⟨hmem, by rw [h]; rfl⟩, rfl⟩
  · intro h
    simp only [lutLostComps, hs, hnd, Bool.not_false, Bool.and_self, if_true, List.mem_map, List.mem_filter]
    exact ⟨(ax, c), ⟨hmem, h⟩, rfl⟩
  · intro c'
    simp only [lutNewComps, List.mem_map, List.mem_filter]
    constructor
    · rintro ⟨⟨a, b⟩, ⟨h1, h2⟩, rfl⟩; exact ⟨a, h1, by simpa using h2⟩
    · rintro ⟨a, h1, h2⟩; exact ⟨(a, c'), ⟨h1, by rw [h2]; rfl⟩, rfl⟩
  · intro c'
    simp only [lutLostComps, hs, hnd, Bool.not_false, Bool.and_self, if_true, List.mem_map, List.mem_filter]
    constructor
    · rintro ⟨⟨a, b⟩, ⟨h1, h2⟩, h3⟩
      simp only [Prod.mk.injEq] at h3
      exact ⟨a, by rw [← h3.2]; exact h1, h2⟩
    · rintro ⟨a, h1, h2⟩; exact ⟨(a, c'), ⟨h1, h2⟩, rfl⟩

/-- A coupled table (SkyCoord) that keeps at least one axis loses no component. -/
theorem ec_slice_coupled (items : List Item) (l : Lut) (hs : l.sep = false) :
    lutLostComps items l = [] := by
  simp [lutLostComps, hs]

end Ndcube.C02
