import NdcubeModel.Props.C04

/-! Non-vacuity for C04: a coupled, invertible, truthful WCS; the box of concrete points. -/
namespace Ndcube.C04.Witness
open Ndcube

/-- world 0 = p0 + p1, world 1 = p1, world 2 = p2 (pixel axes 0, 1 coupled; axis 2 independent) -/
def w0 : LLWcs Rat :=
  { pixDim := 3, worldDim := 3
    p2w := fun p => [p.getD 0 0 + p.getD 1 0, p.getD 1 0, p.getD 2 0]
    w2p := fun v => [v.getD 0 0 - v.getD 1 0, v.getD 1 0, v.getD 2 0]
    corr := [[true, true, false], [false, true, false], [false, false, true]]
    shape := none }

theorem w0_inv : Invertible w0 := by
  intro q hq
  match q, hq with
  | [a, b, c], _ =>
    simp only [w0, List.getD, List.getElem?_cons_zero, List.getElem?_cons_succ, Option.getD_some]
    congr 1
    grind

theorem w0_len : WorldLen w0 := by intro q; rfl

theorem w0_truthful : C05.Truthful w0 := by
  intro i p p' hp hp' h
  have h0 := h 0; have h1 := h 1; have h2 := h 2
  match i with
  | 0 =>
    have a := h0 (by decide) (by decide); have b := h1 (by decide) (by decide)
    simp [w0, List.getD, a, b]
  | 1 =>
    have b := h1 (by decide) (by decide)
    simp [w0, List.getD, b]
  | 2 =>
    have c := h2 (by decide) (by decide)
    simp [w0, List.getD, c]
  | n + 3 => simp [w0]

/-- the coupled pair supplied, the independent coordinate left `None` -/
theorem w0_closed : GroupClosed w0 [true, true, false] := by
  intro i k j hi hj
  have : i < 3 := hi
  have : j < 3 := hj
  match i, j, k with
  | 0, 0, _ | 0, 1, _ | 1, 0, _ | 1, 1, _ => simp [List.getD]
  | 0, 2, 0 | 0, 2, 1 | 1, 2, 0 | 1, 2, 1 => simp [w0, corrAt, List.getD]
  | 0, 2, k + 2 | 1, 2, k + 2 => cases k <;> simp [w0, corrAt, List.getD]
  | 2, _, _ => simp [List.getD]

example : pixWithInput w0.corr 3 3 [true, true, false] = [0, 1] := by decide

-- two points at pixel (1.25, 2.5, ·) and (3.5, 0.75, ·): worlds (3.75, 2.5) and (4.25, 0.75)
example : (cropPoints w0 [9, 9, 9] [[some (15/4), some (5/2), none], [some (17/4), some (3/4), none]] false).toOption
    = some [Item.all, .slice (some 1) (some 4) none, .slice (some 1) (some 5) none] := by decide +kernel

-- a point before the start of the array is clipped, not wrapped; the on-array point stays inside
example : cropAxis false 5 [-1, 2] = .slice (some 0) (some 3) none := by decide
example : cropAxis false 5 [3, 3] = .int 3 ∧ cropAxis true 5 [3, 3] = .slice (some 3) (some 4) none := by decide
-- one pixel wide after clipping, at either end of an axis of 5: dropped without keepdims
example : cropAxis false 5 [-1, 0] = .int 0 ∧ cropAxis false 5 [4, 5] = .int 4 ∧
    cropAxis true 5 [4, 6] = .slice (some 4) (some 5) none := by decide
example : (cropItem [5, 5] [[4, 5], [4, 6]] false).toOption = none := by decide
example : (cropItem [5, 5] [[1], [2, 2]] false).toOption = none ∧ (cropItem [5, 5] [[1], [2, 3]] false).toOption = some [.int 1, .slice (some 2) (some 4) none]
    ∧ (cropItem [5, 5] [[1, 2], [-1]] false).toOption = none ∧ (cropItem [5, 5] [[1, 2], [5, 7]] false).toOption = none := by decide
example : nearest (5/2) = 3 ∧ nearest (-1/2) = 0 ∧ nearest (-3/4) = -1 := by decide +kernel

end Ndcube.C04.Witness
