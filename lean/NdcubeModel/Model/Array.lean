/-!
# Row-major arrays: `ravel`, interleaved reshape, block indices, values with NaN

Import-free.  An N-d array is its flat row-major list together with its shape, exactly what
`numpy.reshape` re-interprets.
-/

namespace Ndcube

def prodL : List Nat → Nat
  | [] => 1
  | x :: xs => x * prodL xs

/-- Row-major flat position of a multi-index. -/
def ravel : List Nat → List Nat → Nat
  | _ :: ss, i :: is => i * prodL ss + ravel ss is
  | _, _ => 0

/-- `reshape[0::2] = a; reshape[1::2] = b` -/
def interleave : List Nat → List Nat → List Nat
  | a :: as, b :: bs => a :: b :: interleave as bs
  | _, _ => []

/-- `j * f + k`, element-wise -/
def zipMulAdd : List Nat → List Nat → List Nat → List Nat
  | j :: js, f :: fs, k :: ks => (j * f + k) :: zipMulAdd js fs ks
  | _, _, _ => []

def zipMul : List Nat → List Nat → List Nat
  | a :: as, b :: bs => (a * b) :: zipMul as bs
  | _, _ => []

def zipDiv : List Nat → List Nat → List Nat
  | a :: as, b :: bs => (a / b) :: zipDiv as bs
  | _, _ => []

/-- All multi-indices of a shape in row-major order. -/
def allIndices : List Nat → List (List Nat)
  | [] => [[]]
  | n :: ns => (List.range n).flatMap fun i => (allIndices ns).map fun r => i :: r

/-- Data values: exact rationals or NaN. -/
inductive Val where
  | num (q : Rat)
  | nan
deriving DecidableEq, Repr, Inhabited

def Val.isNan : Val → Bool
  | .nan => true
  | .num _ => false

def Val.get : Val → Rat
  | .num q => q
  | .nan => 0

/-- Reductions available to `rebin` (numpy semantics on the contributing members). -/
inductive Reduction where
  | sum | mean | nansum | nanmean | min | max | prod
deriving DecidableEq, Repr

def ratMin (a b : Rat) : Rat := if a ≤ b then a else b
def ratMax (a b : Rat) : Rat := if a ≤ b then b else a

/-- The reduction of a (non-empty) list of contributing members; `none` when there is nothing
to reduce or the result is not a number numpy defines (empty mean). -/
def reduce (op : Reduction) (vals : List Val) : Option Val :=
  match vals with
  | [] => none
  | v0 :: rest =>
    let nums := vals.filter (fun v => !v.isNan) |>.map Val.get
    let anyNan := vals.any Val.isNan
    match op with
    | .sum => some (if anyNan then .nan else .num (nums.foldl (· + ·) 0))
    | .mean => some (if anyNan then .nan else .num (nums.foldl (· + ·) 0 / (nums.length : Nat)))
    | .nansum => some (.num (nums.foldl (· + ·) 0))
    | .nanmean => if nums.length = 0 then some .nan else some (.num (nums.foldl (· + ·) 0 / (nums.length : Nat)))
    | .prod => some (if anyNan then .nan else .num (nums.foldl (· * ·) 1))
    | .min => some (if anyNan then .nan else .num (rest.foldl (fun a v => ratMin a v.get) v0.get))
    | .max => some (if anyNan then .nan else .num (rest.foldl (fun a v => ratMax a v.get) v0.get))

end Ndcube
