import NdcubeModel.Props.C13

/-! Non-vacuity for C13, including the input on which the pre-fix code went wrong. -/
namespace Ndcube.C13.Witness
open Ndcube

-- aligned axes ((0,1,2),(3,2,0)) sliced with [0, :, 0]: second member keeps its axis 2, now axis 1
example : dropLoop [0, 2] [3, 2, 0] = [1] := by decide
example : dropLoop [0, 2] [0, 1, 2] = [0] := by decide
example : skip [0, 2] 0 = 1 := by decide
example : ([0, 2] : List Nat).Pairwise (· < ·) ∧ ([3, 2, 0] : List Nat).Nodup := by decide
/-- what the shared, already-decremented index array produced for the second member: it used
drop positions `[0, 1]` instead of `[0, 2]` and reported axis 0. -/
example : dropLoop [0, 1] [3, 2, 0] = [0] := by decide

def c0 : Coll := { members := [(0, [2, 3, 4]), (1, [4, 5, 3, 2])],
                   aligned := some [(0, [0, 1, 2]), (1, [3, 2, 0])], nAligned := 3 }
example : KeysOK c0 := by intro al h; cases h; rfl
example : ((c0.step (.slice (.tuple [.int 0, Item.all, .int 0]))).toOption.map fun c => (c.members, c.aligned))
    = some ([(0, [3]), (1, [5, 3])], some [(0, [0]), (1, [1])]) := by decide
example : ((c0.run [.pop 0, .setitem, .slice (.int 1)]).members) = [(1, [4, 5, 3])] := by decide

end Ndcube.C13.Witness
