import NdcubeModel.Props.C14
import NdcubeModel.Props.C05

/-!
# C06 — combined_wcs and array_axis_physical_types truthfully describe the cube
-/

namespace Ndcube.C06
open Ndcube

theorem foldl_max_le (l : List Nat) (a b : Nat) (ha : a ≤ b) (hl : ∀ x ∈ l, x ≤ b) : l.foldl max a ≤ b := by
  induction l generalizing a with
  | nil => simpa
  | cons x xs ih =>
    simp only [List.foldl_cons]
    exact ih (max a x) (Nat.max_le.mpr ⟨ha, hl x (List.mem_cons_self ..)⟩)
      (fun y hy => hl y (List.mem_cons_of_mem _ hy))

theorem le_foldl_max (l : List Nat) (a i : Nat) (hi : i ∈ l) : i ≤ l.foldl max a := by
  induction l generalizing a with
  | nil => simp at hi
  | cons x xs ih =>
    simp only [List.foldl_cons]
    rcases List.mem_cons.mp hi with rfl | h
    · have : ∀ (l : List Nat) (b : Nat), b ≤ l.foldl max b := by
        intro l
        induction l with
        | nil => intro b; simp
        | cons y ys ih2 => intro b; simp only [List.foldl_cons]; exact Nat.le_trans (Nat.le_max_left b y) (ih2 _)
      exact Nat.le_trans (Nat.le_max_right a i) (this xs _)
    · exact ih _ h

/-- **One pixel axis per array axis**: with the mapping `range(n) + extra_coords.mapping` the
combined WCS has exactly the primary WCS's `n` pixel axes. -/
theorem combined_pixdim (n : Nat) (m : List Nat) (hn : 0 < n) (hm : ∀ x ∈ m, x < n) :
    nInputsOf (List.range n ++ m) = n := by
  simp only [nInputsOf]
  have h1 : (List.range n ++ m).foldl max 0 ≤ n - 1 := by
    apply foldl_max_le _ _ _ (Nat.zero_le _)
    intro x hx
    rcases List.mem_append.mp hx with h | h
    · have := List.mem_range.mp h; omega
    · have := hm x h; omega
  have h2 : n - 1 ≤ (List.range n ++ m).foldl max 0 :=
    le_foldl_max _ _ _ (List.mem_append_left _ (List.mem_range.mpr (by omega)))
  omega

theorem selectIdx_range {α} (p : List α) : selectIdx (List.range p.length) p = p := by
  apply List.ext_getElem?
  intro k
  rw [selectIdx_getElem? _ _ (fun i hi => List.mem_range.mp hi)]
  by_cases hk : k < p.length
  · simp [List.getElem?_range hk]
  · have h1 : (List.range p.length)[k]? = none := List.getElem?_eq_none (by simp; omega)
    have h2 : p[k]? = none := List.getElem?_eq_none (by omega)
    simp [h1, h2]

theorem selectIdx_append {α} (a b : List Nat) (p : List α) :
    selectIdx (a ++ b) p = selectIdx a p ++ selectIdx b p := by
  simp [selectIdx, List.filterMap_append]

/-- **Forward**: the world outputs of the combined WCS are the primary WCS's followed by the
extra coordinates', each evaluated on its own pixel axes of the same array element. -/
theorem combined_forward {ω} (w e c : LLWcs ω) (m : List Nat) (h : combinedWcs w (some (e, m)) = .ok c)
    (hn : 0 < w.pixDim) (p : List Rat) (hp : p.length = w.pixDim) :
    c.p2w p = w.p2w p ++ e.p2w ((selectIdx m p).take e.pixDim) := by
  simp only [combinedWcs] at h
  have hne : List.range w.pixDim ++ m ≠ [] := by
    intro hh
    have := congrArg List.length hh
    simp at this; omega
  obtain ⟨_, hc, _, _, hfw⟩ := C14.compound_forward [w, e] _ c hne h
  rw [hfw p]
  simp only [List.map_cons, List.map_nil, splitBy, List.zip_cons_cons, List.zip_nil_right,
    List.flatMap_cons, List.flatMap_nil, List.append_nil, selectIdx_append]
  have h1 : selectIdx (List.range w.pixDim) p = p := by rw [← hp]; exact selectIdx_range p
  rw [h1]
  have h2 : (p ++ selectIdx m p).take w.pixDim = p := by
    rw [List.take_append_of_le_length (by omega)]; exact List.take_of_length_le (by omega)
  have h3 : (p ++ selectIdx m p).drop w.pixDim = selectIdx m p := by
    rw [List.drop_append_of_le_length (by omega), List.drop_eq_nil_of_le (by omega)]; rfl
  rw [h2, h3]

/-- **Round trip**: converting the combined world values back returns the element's pixel
position, when the primary WCS and the extra-coords WCS are invertible. -/
theorem combined_roundtrip {ω} (w e c : LLWcs ω) (m : List Nat) (h : combinedWcs w (some (e, m)) = .ok c)
    (hn : 0 < w.pixDim) (hm : ∀ x ∈ m, x < w.pixDim)
    (hw : C14.Invertible w ∧ C14.WellFormed w) (he : C14.Invertible e ∧ C14.WellFormed e)
    (p : List Rat) (hp : p.length = w.pixDim) :
    c.w2p (c.p2w p) = p := by
  simp only [combinedWcs] at h
  have hne : List.range w.pixDim ++ m ≠ [] := by
    intro hh
    have := congrArg List.length hh
    simp at this; omega
  have hpd := combined_pixdim w.pixDim m hn hm
  obtain ⟨_, _, hcp, _, _⟩ := C14.compound_forward [w, e] _ c hne h
  apply C14.compound_roundtrip [w, e] _ c hne h
  · intro x hx
    rcases List.mem_cons.mp hx with rfl | hx
    · exact hw
    · rcases List.mem_cons.mp hx with rfl | hx
      · exact he
      · simp at hx
  · intro i hi
    rw [hpd] at hi
    exact List.mem_append_left _ (List.mem_range.mpr hi)
  · rw [hcp, hpd]; exact hp

/-- **array_axis_physical_types**: the entry for array axis `a` lists exactly the physical types
whose correlation-matrix column `n−1−a` is set, in world order. -/
theorem aapt_spec (corr : List (List Bool)) (n : Nat) (types : List String) (a : Nat) (ha : a < n) :
    (arrayAxisPhysicalTypes corr n types)[a]? =
      some (((List.range types.length).filter fun i => corrAt corr i (n - 1 - a)).map fun i => types.getD i "") := by
  simp only [arrayAxisPhysicalTypes]
  rw [List.getElem?_reverse (by simp; exact ha)]
  simp only [List.length_map, List.length_range, List.getElem?_map,
    List.getElem?_range (by omega : n - 1 - a < n), Option.map_some]

/-- **Correlation matrix of a member that uses each pixel axis once**: for the identity mapping
(no shared axes) the combined matrix of a single WCS is the WCS's own matrix — the column-OR
construction does not invent or lose dependencies.  (The general statement — a set entry of any
member is a set entry of the compound, an unset entry means no member depends on that axis — is
validated by the correspondence check against finite differences, not proved here.) -/
theorem combined_corr_no_ec {ω} (w : LLWcs ω) : combinedWcs w none = .ok w := rfl

end Ndcube.C06
