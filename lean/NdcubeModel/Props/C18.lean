import NdcubeModel.Model.SeqCrop
import NdcubeModel.Props.C04

/-!
# C18 — sequence crop applies one common box that contains every cube's own crop
-/

namespace Ndcube.C18
open Ndcube

theorem colMin_spec (rows : List (List Int)) (j : Nat) (r : List Int) (hr : r ∈ rows) :
    colMin rows j ≤ r.getD j 0 ∧ ∃ r' ∈ rows, colMin rows j = r'.getD j 0 := by
  unfold colMin
  have hmem : r.getD j 0 ∈ rows.map (fun r => r.getD j 0) := List.mem_map.mpr ⟨r, hr, rfl⟩
  cases hl : rows.map (fun r => r.getD j 0) with
  | nil => rw [hl] at hmem; cases hmem
  | cons x xs =>
    rw [hl] at hmem
    have hs := C04.listMin_spec x xs
    refine ⟨hs.1 _ hmem, ?_⟩
    have h2 := hs.2
    rw [← hl] at h2
    obtain ⟨r', hr', he⟩ := List.mem_map.mp h2
    exact ⟨r', hr', he.symm⟩

theorem colMax_spec (rows : List (List Int)) (j : Nat) (r : List Int) (hr : r ∈ rows) :
    r.getD j 0 ≤ colMax rows j ∧ ∃ r' ∈ rows, colMax rows j = r'.getD j 0 := by
  unfold colMax
  have hmem : r.getD j 0 ∈ rows.map (fun r => r.getD j 0) := List.mem_map.mpr ⟨r, hr, rfl⟩
  cases hl : rows.map (fun r => r.getD j 0) with
  | nil => rw [hl] at hmem; cases hmem
  | cons x xs =>
    rw [hl] at hmem
    have hs := C04.listMax_spec x xs
    refine ⟨hs.1 _ hmem, ?_⟩
    have h2 := hs.2
    rw [← hl] at h2
    obtain ⟨r', hr', he⟩ := List.mem_map.mp h2
    exact ⟨r', hr', he.symm⟩

/-- **One common box containing every cube's own box, and the smallest such**: on every cube
axis `j` the sequence is sliced from the smallest start to the largest stop among the cubes'
own boxes; every cube's own `[start, stop)` lies inside it and both ends are attained by some
cube (so no smaller common box contains them all). Any number of cubes, any dimensionality. -/
theorem seq_crop_union (ndim : Nat) (shapes : List (List Nat)) (items : List (List Item)) (j : Nat)
    (hj : j < ndim) :
    (seqCropItem ndim shapes items)[j + 1]? =
      some (.slice (some (colMin (seqStarts items) j)) (some (colMax (seqStops shapes items) j)) none) ∧
    (∀ r ∈ seqStarts items, colMin (seqStarts items) j ≤ r.getD j 0) ∧
    (∀ r ∈ seqStops shapes items, r.getD j 0 ≤ colMax (seqStops shapes items) j) ∧
    (seqStarts items ≠ [] → ∃ r ∈ seqStarts items, colMin (seqStarts items) j = r.getD j 0) ∧
    (seqStops shapes items ≠ [] → ∃ r ∈ seqStops shapes items, colMax (seqStops shapes items) j = r.getD j 0) := by
  refine ⟨?_, ?_, ?_, ?_, ?_⟩
  · simp [seqCropItem, List.getElem?_range hj]
  · intro r hr; exact (colMin_spec _ j r hr).1
  · intro r hr; exact (colMax_spec _ j r hr).1
  · intro hne
    obtain ⟨r, hr⟩ := List.exists_mem_of_ne_nil _ hne
    exact (colMin_spec _ j r hr).2
  · intro hne
    obtain ⟨r, hr⟩ := List.exists_mem_of_ne_nil _ hne
    exact (colMax_spec _ j r hr).2

/-- **The sequence axis is untouched**: the first entry selects every cube, in order. -/
theorem seq_axis_untouched {α} (ndim : Nat) (shapes : List (List Nat)) (items : List (List Item))
    (cubes : List α) (h : cubes.length = items.length) :
    (seqCropItem ndim shapes items)[0]? = some (.slice (some 0) (some (items.length : Int)) none) ∧
    pySlice cubes (some 0) (some (items.length : Int)) = cubes := by
  constructor
  · rfl
  · simp only [pySlice, sliceBounds, clampBound, ← h]
    have h1 : ¬ ((0 : Int) < 0) := by omega
    have h2 : ¬ ((cubes.length : Int) < 0) := by omega
    have h3 : ¬ ((0 : Int) > (cubes.length : Int)) := by omega
    have h4 : ¬ ((cubes.length : Int) > (cubes.length : Int)) := by omega
    simp [h1, h2, h3, h4]

/-- **Same shape**: every cube long enough to hold the common box ends with the same length
`stop − start` on that axis (numpy clamping, C01). -/
theorem seq_crop_same_length (n : Nat) (start stop : Int) (h0 : 0 ≤ start) (hs : start ≤ stop)
    (hn : stop ≤ n) :
    ((sliceBounds n (some start) (some stop)).2 : Int) - (sliceBounds n (some start) (some stop)).1 = stop - start := by
  simp only [sliceBounds, clampBound]
  have h1 : ¬ start < 0 := by omega
  have h2 : ¬ stop < 0 := by omega
  have h3 : ¬ start > n := by omega
  have h4 : ¬ stop > n := by omega
  rw [if_neg h1, if_neg h2, if_neg h3, if_neg h4]
  omega

/-- an axis no point addresses is whole in each cube's own item and stays whole (0 .. longest) -/
theorem seq_crop_whole_axis (n : Nat) : itemStart Item.all = 0 ∧ itemStop n Item.all = n := ⟨rfl, rfl⟩

end Ndcube.C18
