"""C10 — arithmetic and unit conversion act on physical values, not on coordinates."""
import operator, random
from fractions import Fraction
import numpy as np
import astropy.units as u
from astropy.nddata import NDData, StdDevUncertainty, VarianceUncertainty, UnknownUncertainty

import common as C
import wcsfam as W
from core import err_kind

ID = "C10"
MODEL_OP = "arith (NDCube.__add__/__sub__/__mul__/__truediv__/__neg__/to and reflected forms)"
RULE = ("cubes of 1-3 dims with dyadic data, unit None / dimensionless / ct / m / ct s-1, uncertainty absent / StdDev / Variance / "
        "Unknown, mask absent / array, numpy or dask payload, a Quantity extra coord and a global coord; chains of 1-3 operations "
        "from + - * / (both sides), unary -, ** (2, -1, 3, 0.5), to(unit) with operands: ints and floats of both signs, arrays "
        "broadcastable along trailing axes, Quantities in equal / convertible / inconvertible units, another cube, an NDData; "
        "plus the identity chains (c+q)-q, (c*k)/k, -(-c), c*-1 vs -c. Non-trivial = always; distinct = whole case")
TRUSTED = ["astropy Quantity arithmetic on cube.data * cube.unit is the reference for physical values and for refusals of unit mismatches"]
ASSUMPTIONS = ["values compared at rtol 1e-12 (dyadic data make most results exact)",
               "** and the reflected division are checked by the oracle only (not part of the Lean model)"]
UNITS = [None, "", "ct", "m", "ct / s"]
CONV = {"ct": ["kct", "mct"], "m": ["km", "cm"], "ct / s": ["ct / ms", "kct / s"], "": [""]}
BASES = ["ct", "m", "s", "kg"]


def corpus():
    return C.read_corpus(ID)


def thin(rng, sh):
    """some of the operand's axes get length 1 (numpy broadcasting stretches them); "full" keeps the trailing
    sub-shape the values are stretched to, which is what the model is given"""
    if len(sh) >= 1 and rng.random() < 0.3:
        t = [1 if rng.random() < 0.5 else d for d in sh]
        if t != list(sh):
            return t
    return list(sh)


def gen_operand(rng, shape, unit):
    r = rng.random()
    k = rng.choice([2, -3, 0.5, -0.25, 4, 1, -1, 8, 1, 1.0])
    if r < 0.05:
        return {"num": rng.choice([16, -20, 100]), "np": "int8"}      # a numpy integer of a narrow type (its square does not fit)
    if r < 0.25:
        return {"num": k}
    if r < 0.4:
        nd = rng.randint(1, len(shape))
        full = shape[len(shape) - nd:]
        sh = thin(rng, full)
        n = int(np.prod(sh))
        return {"arr": [rng.choice([1, -2, 0.5, 4, -0.5, 2]) for _ in range(n)], "shape": sh, "full": full}
    if r < 0.85:
        cu = unit if unit is not None else ""
        kind = rng.choice(["equal", "convertible", "other", "dimensionless"])
        if kind == "equal":
            qu = cu
        elif kind == "convertible":
            qu = rng.choice(CONV.get(cu, [cu]))
        elif kind == "other":
            qu = rng.choice(["s", "kg", "m2"])
        else:
            qu = ""
        if rng.random() < 0.3:
            nd = rng.randint(1, len(shape))
            full = shape[len(shape) - nd:]
            sh = thin(rng, full)
            return {"q": [rng.choice([1, -2, 0.5, 4]) for _ in range(int(np.prod(sh)))], "shape": sh, "unit": qu, "full": full}
        return {"q": [k], "shape": [], "unit": qu}
    return rng.choice(["cube", "nddata", "cube_nounit", "cube_nounit", "nddata_unit"])


def generate(rng, tier):
    n = 1500 if tier == "quick" else 100000
    for i in range(n):
        nd = rng.choice([1, 2, 2, 3])
        shape = [rng.randint(1, 3) for _ in range(nd)]
        unit = rng.choice(UNITS)
        case = {"shape": shape, "unit": unit, "unc": rng.choice([None, "std", "std", "var", "unknown"]),
                "mask": rng.random() < 0.4, "payload": "dask" if rng.random() < 0.1 else "numpy", "wseed": rng.randrange(10**6)}
        if rng.random() < 0.2:
            case["pre"] = True
        r = rng.random()
        if r < 0.12:
            q = gen_operand(rng, shape, unit)
            case["ops"] = [{"op": "add", "operand": q}, {"op": "sub", "operand": q}]
            case["identity"] = "add-sub"
        elif r < 0.24:
            k = {"num": rng.choice([2, -3, 0.5, -0.25, 4, -1])}
            case["ops"] = [{"op": "mul", "operand": k}, {"op": "div", "operand": k}]
            case["identity"] = "mul-div"
        elif r < 0.3:
            case["ops"] = [{"op": "neg"}, {"op": "neg"}]
            case["identity"] = "neg-neg"
        elif r < 0.36:
            case["ops"] = [{"op": "mul", "operand": {"num": -1}}]
            case["identity"] = "mul-minus-one"
        else:
            ops = []
            for _ in range(rng.choice([1, 1, 1, 2, 3])):
                o = rng.choice(["add", "radd", "sub", "rsub", "mul", "rmul", "div", "rdiv", "neg", "pow", "to"])
                if o == "neg":
                    ops.append({"op": o})
                elif o == "pow":
                    ops.append({"op": o, "exp": rng.choice([2, -1, 3, 0.5, -2, 0, 1])})
                elif o == "to":
                    cu = unit if unit is not None else ""
                    ops.append({"op": o, "unit": rng.choice(CONV.get(cu, ["s"]) + ["s"])})
                else:
                    ops.append({"op": o, "operand": gen_operand(rng, shape, unit)})
            case["ops"] = ops
            case["identity"] = None
        yield case


def build(case):
    from ndcube import NDCube
    shape = tuple(case["shape"])
    if case.get("pre"):
        shape = (2,) + shape           # built one axis larger and cut down to `shape` by an integer below
    n = int(np.prod(shape))
    data = ((np.arange(n) % 7) - 2.5).reshape(shape) * 0.5 + 0.25       # dyadic, no zeros
    if case["wseed"] % 5 == 0:
        data = ((np.arange(n) % 7) - 3).reshape(shape).astype(np.int64)
        data[data == 0] = 4                                                  # integer data, no zeros
    if case["payload"] == "dask":
        import dask.array as da
        payload = da.from_array(data, chunks=tuple(max(1, s // 2) for s in shape))
    else:
        payload = data.copy()
    unc_arr = ((np.arange(n) % 3) + 1.0).reshape(shape) * 0.5
    unc = {None: None, "std": StdDevUncertainty, "var": VarianceUncertainty, "unknown": UnknownUncertainty}[case["unc"]]
    cube = NDCube(payload, wcs=W.make_probe(random.Random(case["wseed"]), shape), unit=case["unit"],
                  uncertainty=None if unc is None else unc(unc_arr.copy()),
                  mask=(np.arange(n).reshape(shape) % 2 == 0) if case["mask"] else None, meta={"k": 1})
    cube.extra_coords.add("ec", 0, np.arange(shape[0]) * u.m)
    cube.global_coords.add("gc", "custom:gc", 3 * u.kg)
    if case.get("pre"):
        # the operand of the arithmetic is itself the result of slicing: its extra coordinate (and the first world
        # axis) were indexed away and live on as global coordinates, which the result must still report
        cube, data, unc_arr = cube[1], data[1], unc_arr[1]
    return cube, data, unc_arr


def operand_value(x, case):
    if x == "cube":
        return build(case)[0]
    if x == "cube_nounit":
        return build({**case, "unit": None, "unc": None})[0]
    if x == "nddata":
        return NDData(np.ones(case["shape"]))
    if x == "nddata_unit":
        return NDData(np.ones(case["shape"]), unit=u.ct)
    if "num" in x:
        return np.int8(x["num"]) if x.get("np") == "int8" else x["num"]
    if "arr" in x:
        return np.array(x["arr"], dtype=float).reshape(x["shape"])
    v = np.array(x["q"], dtype=float).reshape(x["shape"]) if x["shape"] else float(x["q"][0])
    return v * u.Unit(x["unit"])


PY = {"add": lambda c, x: c + x, "radd": lambda c, x: x + c, "sub": lambda c, x: c - x, "rsub": lambda c, x: x - c,
      "mul": lambda c, x: c * x, "rmul": lambda c, x: x * c, "div": lambda c, x: c / x, "rdiv": lambda c, x: x / c}


def apply(obj, o, case, is_cube):
    op = o["op"]
    if op == "neg":
        return -obj
    if op == "pow":
        return obj ** o["exp"]
    if op == "to":
        return obj.to(u.Unit(o["unit"]) if case["wseed"] % 2 else o["unit"])       # a Unit object or its string
    x = operand_value(o["operand"], case)
    frozen = C.freeze(x) if is_cube and not hasattr(x, "wcs") else None
    out = PY[op](obj, x)
    if frozen is not None and C.freeze(x) != frozen:
        raise AssertionError(f"operand-edited: the {o['op']} changed the operand the caller passed in (now {x!r})")
    return out


def quantity_of(cube):
    data = C.materialize(cube.data)
    return np.asarray(data, dtype=float) * (u.Unit("") if cube.unit is None else cube.unit)


def unit_m(unit):
    if unit is None:
        return None
    d = u.Unit(unit).decompose()
    dim = [0] * len(BASES)
    for b, p in zip(d.bases, d.powers):
        dim[BASES.index(b.to_string())] = int(p)
    return {"dim": dim, "scale": frac(d.scale)}


def frac(x):
    f = Fraction(float(x))
    return int(f) if f.denominator == 1 else [f.numerator, f.denominator]


def model_operand(x):
    if isinstance(x, str):
        return "nddata"
    if "num" in x:
        return {"num": frac(x["num"])}
    def stretched(vals):
        # length-1 axes of the operand are stretched by numpy; the model sees the stretched trailing block
        if x.get("full") and list(x["full"]) != list(x["shape"]):
            return [float(v) for v in np.broadcast_to(np.array(vals, dtype=float).reshape(x["shape"]), x["full"]).ravel()]
        return vals
    if "arr" in x:
        return {"arr": [frac(v) for v in stretched(x["arr"])]}
    return {"q": [frac(v) for v in stretched(x["q"])], "unit": unit_m(x["unit"])}


def run(case):
    tags = [f"ndim={len(case['shape'])}", f"unit={case['unit']!r}", f"unc={case['unc']}", f"payload={case['payload']}",
            f"identity={case['identity']}"] + [f"op={o['op']}" for o in case["ops"]]
    for o in case["ops"]:
        x = o.get("operand")
        if isinstance(x, dict):
            tags.append("operand=" + ("num" if "num" in x else "arr" if "arr" in x else f"quantity{'-array' if x['shape'] else ''}"))
        elif x:
            tags.append(f"operand={x}")
    res = {"tags": tags, "oracle": None, "impl": {"err": None}, "model_req": None, "nontrivial": repr(case)}
    fails = []
    cube, data, unc_arr = build(case)
    src_q = quantity_of(cube)
    # reference: the same operations on data * unit with astropy / numpy
    ref, ref_err, ref_at = src_q, None, None
    cur, impl_err, impl_at = cube, None, None
    nonfinite = False
    for k, o in enumerate(case["ops"]):
        if ref_err is None:
            try:
                x = o.get("operand")
                if isinstance(x, str):
                    raise TypeError("cube / NDData operand")
                if o["op"] in ("add", "radd", "sub", "rsub") and isinstance(x, dict) and ("num" in x or "arr" in x) and \
                        ref.unit != u.dimensionless_unscaled:
                    raise TypeError("bare number with a unit-ful cube")
                if o["op"] == "to" and impl_err is None and cur.unit is None:
                    raise AttributeError("a cube without a unit has nothing to convert from")
                old_unit = ref.unit
                ref = u.Quantity(apply(ref, o, case, False))
                if o["op"] in ("add", "radd", "sub", "rsub"):
                    # a sum is reported in the cube's unit (astropy would take the left operand's, which for the
                    # reflected forms is the other operand's: same physical values, another unit)
                    ref = ref.to(old_unit)
            except Exception as e:
                ref_err, ref_at = err_kind(e), k
        if impl_err is None:
            try:
                cur = apply(cur, o, case, True)
                if o["op"] in ("pow", "rdiv", "div") and not np.all(np.isfinite(np.asarray(C.materialize(cur.data), dtype=float))):
                    nonfinite = True       # a division by zero on the way: numpy's inf, outside the rational model
            except AssertionError as e:
                fails.append(str(e)[:200])
                break
            except Exception as e:
                impl_err, impl_at = err_kind(e), k
        if ref_err or impl_err:
            break
    res["impl"]["err"] = impl_err
    if ref_err or impl_err:
        # to() on a cube without unit: both refuse, with different exception classes
        if not (ref_err and impl_err and ref_at == impl_at):
            fails.append(f"operations {case['ops']}: implementation {'raised ' + impl_err + ' at step ' + str(impl_at) if impl_err else 'accepted'}, "
                         f"the same operations on data*unit {'raise ' + ref_err + ' at step ' + str(ref_at) if ref_err else 'are accepted'}")
        elif {ref_err, impl_err} - {"TypeError", "UnitsError", "AttributeError", "ValueError"}:
            fails.append(f"refusal with {impl_err} (reference {ref_err})")
    else:
        from ndcube import NDCube
        if not isinstance(cur, NDCube):
            fails.append(f"result is a {type(cur).__name__}")
        else:
            got = quantity_of(cur)
            try:
                gv = got.to_value(ref.unit)
                rv = ref.value
                if gv.shape == ref.shape and nonfinite:
                    # after a division by zero the sign of an infinity depends on the sign of the zero, which integer
                    # data do not have and which -(a - b) and (b - a) give differently: infinite where the reference is
                    both_inf = np.isinf(gv) & np.isinf(rv)
                    gv, rv = np.where(both_inf, np.inf, gv), np.where(both_inf, np.inf, rv)
                if gv.shape != ref.shape or not np.allclose(gv, rv, rtol=1e-12, atol=0, equal_nan=True):
                    fails.append(f"physical values {got.ravel()[:4]} differ from the same operation on data*unit {ref.ravel()[:4]}")
            except u.UnitsError:
                fails.append(f"result unit {cur.unit} is not equivalent to {ref.unit}")
            # coordinates, mask, meta are the source's
            sll, cll = cube.wcs.low_level_wcs, cur.wcs.low_level_wcs
            p = [0.5] * sll.pixel_n_dim
            if W.p2w(sll, p) != W.p2w(cll, p):
                fails.append("the result's wcs reports other coordinates")
            if case.get("pre"):
                if list(cur.extra_coords.keys()) != [] or "ec" not in dict(cube.global_coords):
                    fails.append("pre-sliced cube: the indexed-away extra coordinate is not a global coordinate of the source / reappeared")
                if list(dict(cur.global_coords)) != list(dict(cube.global_coords)):
                    fails.append(f"global coords {list(dict(cur.global_coords))} of the result differ from the source's {list(dict(cube.global_coords))}")
            elif list(cur.extra_coords.keys()) != ["ec"] or not np.array_equal(cur.extra_coords._lookup_tables[0][1].table[0], np.arange(case["shape"][0]) * u.m):
                fails.append("extra coords were not carried over")
            if dict(cur.global_coords) != dict(cube.global_coords):
                fails.append("global coords were not carried over")
            if (cur.mask is None) != (cube.mask is None) or (cube.mask is not None and not np.array_equal(cur.mask, cube.mask)):
                fails.append("mask changed")
            if cur.meta != cube.meta:
                fails.append("meta changed")
            # uncertainties of standard-deviation type, as physical values: scaled by |k| (with k's unit) under
            # multiplication / division, converted by to(), unchanged by sums and negation
            if case["unc"] == "std" and all(o["op"] in ("add", "radd", "sub", "rsub", "neg", "mul", "rmul", "div", "to") for o in case["ops"]):
                exp_q = unc_arr * (u.dimensionless_unscaled if cube.unit is None else cube.unit)
                for o in case["ops"]:
                    if o["op"] in ("mul", "rmul", "div"):
                        x = operand_value(o["operand"], case)
                        kv = np.abs(x) if isinstance(x, u.Quantity) else np.abs(np.asarray(x, dtype=float))
                        exp_q = exp_q * kv if o["op"] != "div" else exp_q / kv
                    elif o["op"] == "to":
                        exp_q = exp_q.to(o["unit"])
                if cur.uncertainty is None or not isinstance(cur.uncertainty, StdDevUncertainty):
                    fails.append(f"uncertainty became {type(cur.uncertainty).__name__}")
                else:
                    got_unit = cur.uncertainty.unit if cur.uncertainty.unit is not None else \
                        (u.dimensionless_unscaled if cur.unit is None else cur.unit)
                    got_q = np.asarray(cur.uncertainty.array, dtype=float) * got_unit
                    try:
                        ok = np.allclose(got_q.to_value(exp_q.unit), np.broadcast_to(exp_q.value, got_q.shape), rtol=1e-12)
                    except u.UnitConversionError:
                        ok = False
                    if not ok:
                        fails.append(f"standard deviations {got_q.ravel()[:3]} (uncertainty unit {cur.uncertainty.unit}, cube unit {cur.unit}), "
                                     f"expected the source's scaled / converted: {exp_q.ravel()[:3]}")
            # a variance scales with the square of a bare numerical factor (whatever numerical type the factor has)
            if case["unc"] == "var" and case["ops"] and all(o["op"] in ("mul", "rmul", "div") and isinstance(o.get("operand"), dict)
                                                             and "num" in o["operand"] for o in case["ops"]):
                expv = np.array(unc_arr, dtype=float)
                for o in case["ops"]:
                    kk = float(o["operand"]["num"]) ** 2
                    expv = expv * kk if o["op"] != "div" else expv / kk
                if cur.uncertainty is None or not np.allclose(np.asarray(cur.uncertainty.array, dtype=float), expv, rtol=1e-12):
                    fails.append(f"variances {None if cur.uncertainty is None else np.asarray(cur.uncertainty.array).ravel()[:3]} after scaling by "
                                 f"{[o['operand']['num'] for o in case['ops']]}, expected the source's times the squares: {expv.ravel()[:3]}")
            # sums and negation leave an uncertainty of any kind exactly as it is
            if case["unc"] and all(o["op"] in ("add", "radd", "sub", "rsub", "neg") for o in case["ops"]):
                if cur.uncertainty is None or type(cur.uncertainty) is not type(cube.uncertainty):
                    fails.append(f"uncertainty became {type(cur.uncertainty).__name__} after sums / negation only")
                elif not np.array_equal(np.asarray(cur.uncertainty.array), np.asarray(cube.uncertainty.array)):
                    fails.append(f"uncertainty ({case['unc']}) changed by sums / negation: {np.asarray(cur.uncertainty.array).ravel()[:4]} "
                                 f"from {np.asarray(cube.uncertainty.array).ravel()[:4]}")
            # identities
            if case["identity"] in ("add-sub", "mul-div", "neg-neg"):
                back = quantity_of(cur)
                if not np.allclose(back.to_value(src_q.unit), src_q.value, rtol=1e-12, atol=0):
                    fails.append(f"identity {case['identity']}: got {back.ravel()[:4]}, source {src_q.ravel()[:4]}")
                if case["unc"] in ("std", "var") and not np.allclose(cur.uncertainty.array, unc_arr, rtol=1e-12):
                    fails.append(f"identity {case['identity']}: uncertainty {np.asarray(cur.uncertainty.array).ravel()[:4]} vs source {unc_arr.ravel()[:4]}")
            if case["identity"] == "mul-minus-one":
                neg = -cube
                if not np.array_equal(C.materialize(neg.data), C.materialize(cur.data)) or neg.unit != cur.unit:
                    fails.append("c * -1 differs from -c")
                if case["unc"] in ("std", "var") and not np.array_equal(neg.uncertainty.array, cur.uncertainty.array):
                    fails.append(f"c * -1 has uncertainty {np.asarray(cur.uncertainty.array).ravel()[:3]}, -c has {np.asarray(neg.uncertainty.array).ravel()[:3]}")
            res["obs"] = {"data": [float(x) for x in np.asarray(C.materialize(cur.data), dtype=float).ravel()],
                          "unit": None if cur.unit is None else cur.unit.to_string(),
                          "unc": None if cur.uncertainty is None else [float(x) for x in np.asarray(cur.uncertainty.array, dtype=float).ravel()]}
    if impl_err:
        res["obs"] = {"err": impl_err, "at": impl_at}
    # integer powers and value / cube are modelled for the values and the unit (their uncertainty is astropy's
    # propagation of a power: oracle only); a negative power of a zero is numpy's inf: not sent to the model
    def in_model(o):
        if o["op"] == "pow":
            return float(o["exp"]).is_integer()
        return o["op"] in ("add", "radd", "sub", "rsub", "mul", "rmul", "div", "rdiv", "neg", "to")
    modelled = all(in_model(o) for o in case["ops"])
    if modelled and nonfinite:
        modelled = False
    if modelled and not fails:
        ops = []
        for o in case["ops"]:
            m = {"op": o["op"]}
            if "operand" in o:
                m["operand"] = model_operand(o["operand"])
            if o["op"] == "to":
                m["unit"] = unit_m(o["unit"])
            if o["op"] == "pow":
                m["exp"] = int(o["exp"])
            ops.append(m)
        res["model_req"] = {"op": "arith", "data": [frac(x) for x in data.ravel()], "unit": unit_m(case["unit"]),
                            "unc": None if case["unc"] is None else {"kind": case["unc"], "arr": [frac(x) for x in unc_arr.ravel()]},
                            "ops": ops}
    if fails:
        res["oracle"] = "; ".join(fails[:2])
    return res


def unfrac(x):
    return x[0] / x[1] if isinstance(x, list) else float(x)


def compare(case, r, m):
    o = r.get("obs")
    if o is None:
        return None
    if "err" in o or "err" in m:
        if ("err" in o) != ("err" in m):
            return f"implementation {o}, model {m}"
        if o["at"] != m["at"]:
            return f"refused at step {o['at']} (implementation) vs {m['at']} (model)"
        ok = {"UnitsError": {"UnitsError"}, "TypeError": {"TypeError"}, "AttributeError": {"AttributeError", "TypeError", "UnitsError"}}
        if o["err"] not in ok.get(m["err"], {m["err"]}):
            return f"refusal kind: implementation {o['err']} vs model {m['err']}"
        return None
    md = [unfrac(x) for x in m["data"]]
    if len(md) != len(o["data"]) or not np.allclose(md, o["data"], rtol=1e-12, atol=0):
        return f"data: implementation {o['data'][:4]} vs model {md[:4]}"
    mu = m["unit"]
    iu = unit_m(o["unit"]) if o["unit"] is not None else None
    if (mu is None) != (iu is None):
        # a cube without unit multiplied by a dimensionless quantity gets the dimensionless unit
        if not (mu is not None and iu is None and not any(mu["dim"]) and unfrac(mu["scale"]) == 1) and \
           not (iu is not None and mu is None and not any(iu["dim"]) and unfrac(iu["scale"]) == 1):
            return f"unit: implementation {o['unit']} vs model {mu}"
    elif mu is not None:
        trim = lambda d: [x for x in d[:len(d) - next((i for i, v in enumerate(reversed(d)) if v), len(d))]]
        if trim(mu["dim"]) != trim(iu["dim"]) or not np.isclose(unfrac(mu["scale"]), unfrac(iu["scale"]), rtol=1e-12):
            return f"unit: implementation {o['unit']} = {iu} vs model {mu}"
    if any(x["op"] in ("pow", "rdiv") for x in case["ops"]):
        return None          # the uncertainty of a power is astropy's propagation: not modelled
    if (m["unc"] is None) != (o["unc"] is None):
        return f"uncertainty presence: implementation {o['unc']} vs model {m['unc']}"
    if m["unc"] is not None and not np.allclose([unfrac(x) for x in m["unc"]], o["unc"], rtol=1e-12):
        return f"uncertainty: implementation {o['unc'][:4]} vs model {[unfrac(x) for x in m['unc']][:4]}"
    return None


def signature(case, failure):
    return "other:" + failure[:60]


def shrink(case):
    if len(case["ops"]) > 1 and not case["identity"]:
        for i in range(len(case["ops"])):
            yield {**case, "ops": case["ops"][:i] + case["ops"][i + 1:]}
    if case["unc"]:
        yield {**case, "unc": None}
    if case["mask"]:
        yield {**case, "mask": False}
    if case["payload"] == "dask":
        yield {**case, "payload": "numpy"}
