import NdcubeModel.Model.Wrappers

/-!
# FITS WCS linear stage and `unwrap_wcs_to_fitswcs`

A FITS WCS maps a 0-based pixel `p` to intermediate world coordinates
`x_i = cdelt_i · Σ_j pc_ij · (p_j + 1 − crpix_j)` followed by a (non-linear) projection that
only depends on `x`; the projection is therefore a parameter and equality of the intermediate
coordinates gives equal world coordinates for every projection.

Mirrors `ndcube/wcs/tools.py` (after the `fix:` commit) and astropy's `WCS.slice`.
All lists are in WCS (pixel) order unless stated otherwise.
-/

namespace Ndcube

structure Fits where
  crpix : List Rat
  cdelt : List Rat
  pc    : List (List Rat)
  naxis : List Nat
deriving Repr

def dot : List Rat → List Rat → Rat
  | a :: as, b :: bs => a * b + dot as bs
  | _, _ => 0

/-- `p_j + 1 − crpix_j` -/
def pixOffset : List Rat → List Rat → List Rat
  | p :: ps, c :: cs => (p + 1 - c) :: pixOffset ps cs
  | _, _ => []

/-- intermediate world coordinates -/
def Fits.lin (F : Fits) (p : List Rat) : List Rat :=
  (F.cdelt.zip F.pc).map fun (c, row) => c * dot row (pixOffset p F.crpix)

/-- scale column `j` of a matrix row by `f_j` -/
def scaleRow : List Rat → List Rat → List Rat
  | a :: as, f :: fs => (a * f) :: scaleRow as fs
  | _, _ => []

/-- `crpix' = (crpix − 1 − o)/f + 1` -/
def newCrpix : List Rat → List Rat → List Rat → List Rat
  | c :: cs, f :: fs, o :: os => ((c - 1 - o) / f + 1) :: newCrpix cs fs os
  | _, _, _ => []

/-- `_resample_fitswcs(F, factor, offset)` -/
def Fits.resample (F : Fits) (f o : List Rat) : Fits :=
  { crpix := newCrpix F.crpix f o
    cdelt := F.cdelt
    pc := F.pc.map fun row => scaleRow row f
    naxis := (F.naxis.zip f).map fun (n, q) => (rintHalfEvenQ ((n : Rat) / q)).toNat }
where
  /-- `np.round` (half to even) -/
  rintHalfEvenQ (q : Rat) : Int :=
    let fl := q.floor
    let r := q - (fl : Rat)
    if r < 1/2 then fl else if r > 1/2 then fl + 1 else if fl % 2 = 0 then fl else fl + 1

/-- `WCS.slice` with one `slice(start, stop)` per axis (WCS order): `crpix -= start`,
`naxis = len(range(naxis)[start:stop])`. -/
def Fits.slice (F : Fits) (items : List (Option Int × Option Int)) : Fits :=
  { F with
    crpix := (F.crpix.zip items).map fun (c, (s, _)) => c - ((s.getD 0 : Int) : Rat)
    naxis := (F.naxis.zip items).map fun (n, (s, e)) =>
      let (lo, hi) := sliceBounds n s e
      hi - lo }

/-! ## the chain walk -/

inductive Wrapper where
  /-- `SlicedLowLevelWCS._slices_array` (numpy order, one entry per pixel axis of its inner WCS) -/
  | sliced (slicesArr : List Item)
  /-- `ResampledLowLevelWCS._factor/_offset` (pixel order) -/
  | resampled (factor offset : List Rat)
  | unknown
deriving Repr

/-- place `vals` (in order) at the positions where `dropped` is false; `dflt` elsewhere -/
def fillKept {α} (dflt : α) : List Bool → List α → List α
  | [], _ => []
  | true :: ds, vals => dflt :: fillKept dflt ds vals
  | false :: ds, v :: vals => v :: fillKept dflt ds vals
  | false :: ds, [] => dflt :: fillKept dflt ds []

/-- `_slice_fitswcs(fits, items, numpy_order=True)`: ints become length-1 slices and are flagged as
dropped, negative bounds are normalised with the axis lengths.  `items` and the returned flags
are in numpy order. -/
def sliceFits (F : Fits) (items : List Item) : Except Err (Fits × List Bool) :=
  let shape := F.naxis.reverse
  let conv : Item → Nat → Except Err ((Option Int × Option Int) × Bool) := fun it n =>
    match it with
    | .int i =>
      let i' := if i < 0 then i + n else i
      .ok ((some i', some (i' + 1)), true)
    | .slice s e _ =>
      let nb (b : Option Int) : Option Int := b.map fun x => if x < 0 then x + n else x
      .ok ((nb s, nb e), false)
    | _ => .error .typeError
  match (items.zip shape).mapM fun (it, n) => conv it n with
  | .error e => .error e
  | .ok rs => .ok (F.slice (rs.map (·.1)).reverse, rs.map (·.2))

/-- `unwrap_wcs_to_fitswcs`: `chain` lists the wrappers from the outermost to the base (as the
code collects them); they are applied innermost first. -/
def unwrap (base : Fits) (chain : List Wrapper) : Except Err (Fits × List Bool) :=
  let n := base.crpix.length
  chain.reverse.foldlM (init := (base, List.replicate n false)) fun (F, dropped) w =>
    match w with
    | .sliced arr => do
      let items := fillKept Item.all dropped arr            -- numpy order
      let (F', dda) ← sliceFits F items
      pure (F', (dropped.zip dda).map fun (a, b) => a || b)
    | .resampled f o =>
      let droppedW := dropped.reverse
      pure (F.resample (fillKept 1 droppedW f) (fillKept 0 droppedW o), dropped)
    | .unknown => .error .typeError

/-- `unwrap_wcs_to_fitswcs` over any base: `none` stands for a base that is not a FITS WCS (a gWCS,
any other low-level WCS) — refused with `TypeError` whatever wrappers lie above it, none included -/
def unwrapAny (base : Option Fits) (chain : List Wrapper) : Except Err (Fits × List Bool) :=
  match base with
  | none => .error .typeError
  | some F => unwrap F chain

end Ndcube
