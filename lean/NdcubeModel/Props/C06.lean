import NdcubeModel.Props.C14
import NdcubeModel.Props.C05

/-!
# C06 — combined_wcs and array_axis_physical_types truthfully describe the cube
-/

namespace Ndcube.C06
open Ndcube

theorem foldl_max_le (l : List Nat) (a b : Nat) (ha : a ≤ b) (hl : ∀ x ∈ l, x ≤ b) : l.foldl max a ≤ b := by
  induction l generalizing a with
  | nil => simpa
  | cons x xs ih =>
    simp only [List.foldl_cons]
    exact ih (max a x) (Nat.max_le.mpr ⟨ha, hl x (List.mem_cons_self ..)⟩)
      (fun y hy => hl y (List.mem_cons_of_mem _ hy))

theorem le_foldl_max (l : List Nat) (a i : Nat) (hi : i ∈ l) : i ≤ l.foldl max a := by
  induction l generalizing a with
  | nil => simp at hi
  | cons x xs ih =>
    simp only [List.foldl_cons]
    rcases List.mem_cons.mp hi with rfl | h
    · have : ∀ (l : List Nat) (b : Nat), b ≤ l.foldl max b := by
        intro l
        induction l with
        | nil => intro b; simp
        | cons y ys ih2 => intro b; simp only [List.foldl_cons]; exact Nat.le_trans (Nat.le_max_left b y) (ih2 _)
      exact Nat.le_trans (Nat.le_max_right a i) (this xs _)
    · exact ih _ h

/-- **One pixel axis per array axis**: with the mapping `range(n) + extra_coords.mapping` the
combined WCS has exactly the primary WCS's `n` pixel axes. -/
theorem combined_pixdim (n : Nat) (m : List Nat) (hn : 0 < n) (hm : ∀ x ∈ m, x < n) :
    nInputsOf (List.range n ++ m) = n := by
  simp only [nInputsOf]
  have h1 : (List.range n ++ m).foldl max 0 ≤ n - 1 := by
    apply foldl_max_le _ _ _ (Nat.zero_le _)
    intro x hx
    rcases List.mem_append.mp hx with h | h
    · have := List.mem_range.mp h; omega
    · have := hm x h; omega
  have h2 : n - 1 ≤ (List.range n ++ m).foldl max 0 :=
    le_foldl_max _ _ _ (List.mem_append_left _ (List.mem_range.mpr (by omega)))
  omega

theorem selectIdx_range {α} (p : List α) : selectIdx (List.range p.length) p = p := by
  apply List.ext_getElem?
  intro k
  rw [selectIdx_getElem? _ _ (fun i hi => List.mem_range.mp hi)]
  by_cases hk : k < p.length
  · simp [List.getElem?_range hk]
  · have h1 : (List.range p.length)[k]? = none := List.getElem?_eq_none (by simp; omega)
    have h2 : p[k]? = none := List.getElem?_eq_none (by omega)
    simp [h1, h2]

theorem selectIdx_append {α} (a b : List Nat) (p : List α) :
    selectIdx (a ++ b) p = selectIdx a p ++ selectIdx b p := by
  simp [selectIdx, List.filterMap_append]

/-- **Forward**: the world outputs of the combined WCS are the primary WCS's followed by the
extra coordinates', each evaluated on its own pixel axes of the same array element. -/
theorem combined_forward {ω} (w e c : LLWcs ω) (m : List Nat) (h : combinedWcs w (some (e, m)) = .ok c)
    (hn : 0 < w.pixDim) (p : List Rat) (hp : p.length = w.pixDim) :
    c.p2w p = w.p2w p ++ e.p2w ((selectIdx m p).take e.pixDim) := by
  simp only [combinedWcs] at h
  have hne : List.range w.pixDim ++ m ≠ [] := by
    intro hh
    have := congrArg List.length hh
    simp at this; omega
  obtain ⟨_, hc, _, _, hfw⟩ := C14.compound_forward [w, e] _ c hne h
  rw [hfw p]
  simp only [List.map_cons, List.map_nil, splitBy, List.zip_cons_cons, List.zip_nil_right,
    List.flatMap_cons, List.flatMap_nil, List.append_nil, selectIdx_append]
  have h1 : selectIdx (List.range w.pixDim) p = p := by rw [← hp]; exact selectIdx_range p
  rw [h1]
  have h2 : (p ++ selectIdx m p).take w.pixDim = p := by
    rw [List.take_append_of_le_length (by omega)]; exact List.take_of_length_le (by omega)
  have h3 : (p ++ selectIdx m p).drop w.pixDim = selectIdx m p := by
    rw [List.drop_append_of_le_length (by omega), List.drop_eq_nil_of_le (by omega)]; rfl
  rw [h2, h3]

/-- **Round trip**: converting the combined world values back returns the element's pixel
position, when the primary WCS and the extra-coords WCS are invertible. -/
theorem combined_roundtrip {ω} (w e c : LLWcs ω) (m : List Nat) (h : combinedWcs w (some (e, m)) = .ok c)
    (hn : 0 < w.pixDim) (hm : ∀ x ∈ m, x < w.pixDim)
    (hw : C14.Invertible w ∧ C14.WellFormed w) (he : C14.Invertible e ∧ C14.WellFormed e)
    (p : List Rat) (hp : p.length = w.pixDim) :
    c.w2p (c.p2w p) = p := by
  simp only [combinedWcs] at h
  have hne : List.range w.pixDim ++ m ≠ [] := by
    intro hh
    have := congrArg List.length hh
    simp at this; omega
  have hpd := combined_pixdim w.pixDim m hn hm
  obtain ⟨_, _, hcp, _, _⟩ := C14.compound_forward [w, e] _ c hne h
  apply C14.compound_roundtrip [w, e] _ c hne h
  · intro x hx
    rcases List.mem_cons.mp hx with rfl | hx
    · exact hw
    · rcases List.mem_cons.mp hx with rfl | hx
      · exact he
      · simp at hx
  · intro i hi
    rw [hpd] at hi
    exact List.mem_append_left _ (List.mem_range.mpr hi)
  · rw [hcp, hpd]; exact hp

/-- **array_axis_physical_types**: the entry for array axis `a` lists exactly the physical types
whose correlation-matrix column `n−1−a` is set, in world order. -/
theorem aapt_spec (corr : List (List Bool)) (n : Nat) (types : List String) (a : Nat) (ha : a < n) :
    (arrayAxisPhysicalTypes corr n types)[a]? =
      some (((List.range types.length).filter fun i => corrAt corr i (n - 1 - a)).map fun i => types.getD i "") := by
  simp only [arrayAxisPhysicalTypes]
  rw [List.getElem?_reverse (by simp; exact ha)]
  simp only [List.length_map, List.length_range, List.getElem?_map,
    List.getElem?_range (by omega : n - 1 - a < n), Option.map_some]

/-- **Correlation matrix of a member that uses each pixel axis once**: for the identity mapping
(no shared axes) the combined matrix of a single WCS is the WCS's own matrix — the column-OR
construction does not invent or lose dependencies.  (The general statement — a set entry of any
member is a set entry of the compound, an unset entry means no member depends on that axis — is
validated by the correspondence check against finite differences, not proved here.) -/
theorem combined_corr_no_ec {ω} (w : LLWcs ω) : combinedWcs w none = .ok w := rfl

/-- rows of the correlation matrix have one entry per pixel axis, one row per world axis, and
`p2w` returns one value per world axis -/
structure Shaped {ω} (w : LLWcs ω) : Prop where
  rows : w.corr.length = w.worldDim
  cols : ∀ r ∈ w.corr, r.length = w.pixDim
  out : ∀ q, (w.p2w q).length = w.worldDim

theorem corrAt_marked (corr : List (List Bool)) (mapping : List Nat) (nIn i ix j : Nat) (row : List Bool)
    (hrow : corr[i]? = some row) (hj : j < mapping.length) (hmj : mapping[j]? = some ix) (hix : ix < nIn)
    (hset : row.getD j false = true) :
    corrAt (corr.map fun row => (List.range nIn).map fun ix =>
      (List.range mapping.length).any fun i => mapping.getD i 0 = ix ∧ row.getD i false) i ix = true := by
  simp only [corrAt, List.getD, List.getElem?_map, hrow, Option.map_some, Option.getD_some,
    List.getElem?_range hix]
  rw [List.any_eq_true]
  refine ⟨j, List.mem_range.mpr hj, ?_⟩
  have h1 : mapping[j]?.getD 0 = ix := by rw [hmj]; rfl
  have h2 : row[j]?.getD false = true := by simpa [List.getD] using hset
  simp [h1, h2]

/-- **The combined correlation matrix misses no dependence**: if the primary WCS and the
extra-coords WCS have truthful matrices, so has the combined WCS — world output `i` can change
only along the pixel axes its row marks. -/
theorem combined_corr_sound (w e c : LLWcs Rat) (m : List Nat) (h : combinedWcs w (some (e, m)) = .ok c)
    (hn : 0 < w.pixDim) (hm : ∀ x ∈ m, x < w.pixDim) (hml : m.length = e.pixDim)
    (hTw : C05.Truthful w) (hTe : C05.Truthful e) (hSw : Shaped w) (hSe : Shaped e) :
    C05.Truthful c := by
  have hfw := combined_forward w e c m h hn
  simp only [combinedWcs] at h
  have hne : List.range w.pixDim ++ m ≠ [] := by
    intro hh
    have := congrArg List.length hh
    simp at this; omega
  obtain ⟨hlen, hc, hcp, hcw, _⟩ := C14.compound_forward [w, e] _ c hne h
  have hpd := combined_pixdim w.pixDim m hn hm
  have hcpix : c.pixDim = w.pixDim := by rw [hcp, hpd]
  have hcorr : c.corr = (blockDiag (w.pixDim + e.pixDim) [w, e] 0).map fun row =>
      (List.range w.pixDim).map fun ix =>
        (List.range (List.range w.pixDim ++ m).length).any fun i =>
          (List.range w.pixDim ++ m).getD i 0 = ix ∧ row.getD i false := by
    rw [hc]; simp [compoundCore, hpd]
  intro i p p' hp hp' hagree
  rw [hcpix] at hp hp'
  rw [hfw p hp, hfw p' hp']
  have hq : ∀ (q : List Rat), q.length = w.pixDim → ((selectIdx m q).take e.pixDim) = selectIdx m q := by
    intro q hq
    apply List.take_of_length_le
    rw [selectIdx_length_of_lt m q (by intro x hx; have := hm x hx; omega)]; omega
  rw [hq p hp, hq p' hp']
  have hlw := hSw.out p
  have hlw' := hSw.out p'
  by_cases hi : i < w.worldDim
  · -- a primary world axis
    rw [List.getElem?_append_left (by omega), List.getElem?_append_left (by omega)]
    apply hTw i p p' hp hp'
    intro k hk hck
    apply hagree k (by omega)
    -- the combined matrix marks (i, k)
    obtain ⟨row, hrow⟩ : ∃ row, w.corr[i]? = some row := ⟨w.corr[i]'(by rw [hSw.rows]; exact hi), List.getElem?_eq_getElem _⟩
    have hrl := hSw.cols row (List.mem_of_getElem? hrow)
    rw [hcorr]
    apply corrAt_marked _ _ _ i k k (row ++ List.replicate (w.pixDim + e.pixDim - 0 - w.pixDim) false)
    · simp only [blockDiag, List.replicate_zero, List.nil_append]
      rw [List.getElem?_append_left (by simp; rw [hSw.rows]; exact hi)]
      simp [hrow]
    · simp; omega
    · rw [List.getElem?_append_left (by simpa using hk)]; simp [List.getElem?_range hk]
    · exact hk
    · simp only [corrAt, List.getD, hrow, Option.getD_some] at hck
      rw [List.getD, List.getElem?_append_left (by omega)]
      exact hck
  · -- an extra-coords world axis
    have hi' : w.worldDim ≤ i := Nat.not_lt.mp hi
    rw [List.getElem?_append_right (by omega), List.getElem?_append_right (by omega), hlw, hlw']
    have hsel : ∀ (q : List Rat), q.length = w.pixDim → (selectIdx m q).length = e.pixDim := by
      intro q hq
      rw [selectIdx_length_of_lt m q (by intro x hx; have := hm x hx; omega)]; exact hml
    apply hTe (i - w.worldDim) _ _ (hsel p hp) (hsel p' hp')
    intro j hj hcj
    rw [selectIdx_getElem? m p (by intro x hx; have := hm x hx; omega),
        selectIdx_getElem? m p' (by intro x hx; have := hm x hx; omega)]
    have hjm : j < m.length := by omega
    rw [List.getElem?_eq_getElem hjm]
    simp only [Option.bind_some]
    have hmj := hm (m[j]) (List.getElem_mem hjm)
    apply hagree (m[j]) (by omega)
    -- by_cases on whether i - wd is a row of e (else corrAt false)
    have hrowe : i - w.worldDim < e.corr.length := by
      by_cases hcon : i - w.worldDim < e.corr.length
      · exact hcon
      · have : e.corr[i - w.worldDim]? = none := List.getElem?_eq_none (by omega)
        simp [corrAt, List.getD, this] at hcj
    obtain ⟨row, hrow⟩ : ∃ row, e.corr[i - w.worldDim]? = some row := ⟨e.corr[i - w.worldDim]'hrowe, List.getElem?_eq_getElem _⟩
    have hrl := hSe.cols row (List.mem_of_getElem? hrow)
    rw [hcorr]
    apply corrAt_marked _ _ _ i (m[j]) (w.pixDim + j)
      (List.replicate (0 + w.pixDim) false ++ row ++ List.replicate (w.pixDim + e.pixDim - (0 + w.pixDim) - e.pixDim) false)
    · simp only [blockDiag, List.replicate_zero, List.nil_append, List.append_nil]
      rw [List.getElem?_append_right (by simp; rw [hSw.rows]; exact hi')]
      simp only [List.length_map, hSw.rows, List.getElem?_map, hrow, Option.map_some]
    · simp; omega
    · rw [List.getElem?_append_right (by simp)]; simp [List.getElem?_eq_getElem hjm]
    · exact hmj
    · simp only [corrAt, List.getD, hrow, Option.getD_some] at hcj
      rw [List.getD, List.getElem?_append_left (by simp; omega), List.getElem?_append_right (by simp)]
      simpa using hcj

/-- **… and marks nothing else**: an entry of the combined matrix is set exactly when the
primary WCS marks that pair, or the extra-coords WCS marks the world axis against one of its own
pixel axes that the mapping places on that cube pixel axis. -/
theorem combined_corr_exact (w e c : LLWcs Rat) (m : List Nat) (h : combinedWcs w (some (e, m)) = .ok c)
    (hn : 0 < w.pixDim) (hm : ∀ x ∈ m, x < w.pixDim) (hml : m.length = e.pixDim)
    (hSw : Shaped w) (hSe : Shaped e) (i ix : Nat) (hix : ix < w.pixDim) (hi : i < w.worldDim + e.worldDim) :
    corrAt c.corr i ix = true ↔
      (i < w.worldDim ∧ corrAt w.corr i ix = true) ∨
      (w.worldDim ≤ i ∧ ∃ j, m[j]? = some ix ∧ corrAt e.corr (i - w.worldDim) j = true) := by
  simp only [combinedWcs] at h
  have hne : List.range w.pixDim ++ m ≠ [] := by
    intro hh
    have := congrArg List.length hh
    simp at this; omega
  obtain ⟨hlen, hc, hcp, hcw, _⟩ := C14.compound_forward [w, e] _ c hne h
  have hpd := combined_pixdim w.pixDim m hn hm
  have hcorr : c.corr = (blockDiag (w.pixDim + e.pixDim) [w, e] 0).map fun row =>
      (List.range w.pixDim).map fun ix =>
        (List.range (List.range w.pixDim ++ m).length).any fun i =>
          (List.range w.pixDim ++ m).getD i 0 = ix ∧ row.getD i false := by
    rw [hc]; simp [compoundCore, hpd]
  have hbd : blockDiag (w.pixDim + e.pixDim) [w, e] 0 =
      (w.corr.map fun row => row ++ List.replicate e.pixDim false) ++
      (e.corr.map fun row => List.replicate w.pixDim false ++ row) := by
    simp only [blockDiag, List.replicate_zero, List.nil_append, List.append_nil, Nat.zero_add]
    congr 1
    · apply List.map_congr_left; intro r _; congr 2; omega
    · apply List.map_congr_left; intro r _
      have : w.pixDim + e.pixDim - w.pixDim - e.pixDim = 0 := by omega
      rw [this]; simp
  constructor
  · intro hset
    rw [hcorr, hbd] at hset
    simp only [corrAt, List.getD, List.getElem?_map] at hset
    by_cases hiw : i < w.worldDim
    · left
      refine ⟨hiw, ?_⟩
      rw [List.getElem?_append_left (by simp; rw [hSw.rows]; exact hiw)] at hset
      obtain ⟨row, hrow⟩ : ∃ row, w.corr[i]? = some row := ⟨w.corr[i]'(by rw [hSw.rows]; exact hiw), List.getElem?_eq_getElem _⟩
      have hrl := hSw.cols row (List.mem_of_getElem? hrow)
      simp only [List.getElem?_map, hrow, Option.map_some, Option.getD_some, List.getElem?_range hix,
        List.any_eq_true, List.mem_range] at hset
      obtain ⟨j, hj, hdec⟩ := hset
      obtain ⟨hmap, hrj⟩ := of_decide_eq_true hdec
      simp only [corrAt, List.getD, hrow, Option.getD_some]
      by_cases hjn : j < w.pixDim
      · rw [List.getElem?_append_left (by simpa using hjn)] at hmap
        simp only [List.getElem?_range hjn, Option.getD_some] at hmap
        subst hmap
        rw [List.getElem?_append_left (by omega)] at hrj
        exact hrj
      · rw [List.getElem?_append_right (by omega)] at hrj
        rw [List.getElem?_replicate] at hrj
        split at hrj <;> simp at hrj
    · right
      have hiw' : w.worldDim ≤ i := Nat.not_lt.mp hiw
      refine ⟨hiw', ?_⟩
      rw [List.getElem?_append_right (by simp; rw [hSw.rows]; exact hiw')] at hset
      simp only [List.length_map, hSw.rows] at hset
      have hie : i - w.worldDim < e.corr.length := by rw [hSe.rows]; omega
      obtain ⟨row, hrow⟩ : ∃ row, e.corr[i - w.worldDim]? = some row := ⟨e.corr[i - w.worldDim]'hie, List.getElem?_eq_getElem _⟩
      have hrl := hSe.cols row (List.mem_of_getElem? hrow)
      simp only [List.getElem?_map, hrow, Option.map_some, Option.getD_some, List.getElem?_range hix,
        List.any_eq_true, List.mem_range] at hset
      obtain ⟨j, hj, hdec⟩ := hset
      obtain ⟨hmap, hrj⟩ := of_decide_eq_true hdec
      by_cases hjn : j < w.pixDim
      · rw [List.getElem?_append_left (by simpa using hjn)] at hrj
        rw [List.getElem?_replicate] at hrj
        split at hrj <;> simp at hrj
      · have hjn' : w.pixDim ≤ j := Nat.not_lt.mp hjn
        rw [List.getElem?_append_right (by simpa using hjn')] at hmap hrj
        simp only [List.length_range, List.length_replicate] at hmap hrj
        have hjm : j - w.pixDim < m.length := by simp at hj; omega
        rw [List.getElem?_eq_getElem hjm] at hmap
        simp only [Option.getD_some] at hmap
        refine ⟨j - w.pixDim, by rw [List.getElem?_eq_getElem hjm, hmap], ?_⟩
        simp only [corrAt, List.getD, hrow, Option.getD_some]
        exact hrj
  · intro hcase
    rw [hcorr, hbd]
    rcases hcase with ⟨hiw, hck⟩ | ⟨hiw, j, hmj, hcj⟩
    · obtain ⟨row, hrow⟩ : ∃ row, w.corr[i]? = some row := ⟨w.corr[i]'(by rw [hSw.rows]; exact hiw), List.getElem?_eq_getElem _⟩
      have hrl := hSw.cols row (List.mem_of_getElem? hrow)
      apply corrAt_marked _ _ _ i ix ix (row ++ List.replicate e.pixDim false)
      · rw [List.getElem?_append_left (by simp; rw [hSw.rows]; exact hiw)]; simp [hrow]
      · simp; omega
      · rw [List.getElem?_append_left (by simpa using hix)]; simp [List.getElem?_range hix]
      · exact hix
      · simp only [corrAt, List.getD, hrow, Option.getD_some] at hck
        rw [List.getD, List.getElem?_append_left (by omega)]
        exact hck
    · have hjm : j < m.length := (List.getElem?_eq_some_iff.mp hmj).1
      have hie : i - w.worldDim < e.corr.length := by
        by_cases hcon : i - w.worldDim < e.corr.length
        · exact hcon
        · have : e.corr[i - w.worldDim]? = none := List.getElem?_eq_none (by omega)
          simp [corrAt, List.getD, this] at hcj
      obtain ⟨row, hrow⟩ : ∃ row, e.corr[i - w.worldDim]? = some row := ⟨e.corr[i - w.worldDim]'hie, List.getElem?_eq_getElem _⟩
      have hrl := hSe.cols row (List.mem_of_getElem? hrow)
      apply corrAt_marked _ _ _ i ix (w.pixDim + j) (List.replicate w.pixDim false ++ row)
      · rw [List.getElem?_append_right (by simp; rw [hSw.rows]; exact hiw)]
        simp only [List.length_map, hSw.rows, List.getElem?_map, hrow, Option.map_some]
      · simp; omega
      · rw [List.getElem?_append_right (by simp)]; simpa using hmj
      · exact hix
      · simp only [corrAt, List.getD, hrow, Option.getD_some] at hcj
        rw [List.getD, List.getElem?_append_right (by simp)]
        simpa using hcj

end Ndcube.C06
