import NdcubeModel.Lemmas.Rebin

/-!
# C08 — rebin computes each output element from exactly its block of inputs
-/

namespace Ndcube.C08
open Ndcube

/-- flat positions (in the source array) of the block that output element `j` aggregates, in
row-major order of the position inside the block: `ravel shape (j*f + k)` -/
def blockMembers (shape f j : List Nat) : List Nat :=
  (allIndices f).map fun k => ravel shape (zipMulAdd j f k)

/-- **The reshape trick** is right for non-square bins in any number of axes: element `(j, k)`
of the interleaved view is element `j*f + k` of the array. -/
theorem reshape_is_block (ns fs js ks : List Nat)
    (h1 : ns.length = fs.length) (h2 : js.length = ns.length) (h3 : ks.length = ns.length) :
    ravel (interleave ns fs) (interleave js ks) = ravel (zipMul ns fs) (zipMulAdd js fs ks) :=
  ravel_interleave ns fs js ks h1 h2 h3

/-- The members the code reads through the reshaped view are the block members. -/
theorem viewMembers_eq_block (shape f : List Nat) (hl : f.length = shape.length)
    (hd : nonDivisor shape f = false) (j : List Nat) (hj : j ∈ allIndices (zipDiv shape f)) :
    viewMembers (zipDiv shape f) f j = blockMembers shape f j := by
  simp only [viewMembers, blockMembers]
  apply List.map_congr_left
  intro k hk
  have hjl := allIndices_length _ j hj
  have hkl := allIndices_length _ k hk
  have hzl := zipDiv_length shape f hl.symm
  rw [ravel_interleave (zipDiv shape f) f j k (by omega) (by omega) (by omega),
    zipMul_zipDiv shape f hl hd]

/-- **Block semantics.**  Whenever `rebin` accepts a non-trivial bin shape: the output shape is
the element-wise quotient (and the quotient is exact), and every output element `j` is the
chosen reduction of the input values at `j*f + k` for `k` in the bin, excluding the masked ones
unless the operation is declared to ignore the mask; the output mask is `handle_mask` over the
same block (absent for `None`, a scalar mask kept as it is). -/
theorem rebin_block (x : RebinIn) (out : RebinOut) (h : rebin x = .ok out) (hid : out.identity = false) :
    out.shape = zipDiv x.shape (binInts x) ∧ zipMul out.shape (binInts x) = x.shape ∧
    out.values = (allIndices out.shape).map (fun j => rebinValue x (blockMembers x.shape (binInts x) j)) ∧
    out.mask = rebinMask x (allIndices out.shape) (blockMembers x.shape (binInts x)) := by
  simp only [rebin, rebinWith] at h
  generalize binInts x = f at *
  split at h
  · cases h; simp at hid
  · split at h
    · cases h
    · rename_i hlen
      split at h
      · cases h
      · rename_i hdiv
        have hlen' : f.length = x.shape.length := by simpa using hlen
        have hdiv' : nonDivisor x.shape f = false := by simpa using hdiv
        cases h
        refine ⟨rfl, zipMul_zipDiv x.shape f hlen' hdiv', ?_, ?_⟩
        · apply List.map_congr_left
          intro j hj
          rw [viewMembers_eq_block x.shape f hlen' hdiv' j hj]
        · simp only [rebinMask]
          cases x.handleMask <;> cases x.mask <;> simp only []
          all_goals (congr 1; apply List.map_congr_left; intro j hj
                     rw [viewMembers_eq_block x.shape f hlen' hdiv' j hj])

/-- The mask handling: absent for `handle_mask=None`, scalar masks kept, array masks reduced per block. -/
theorem rebin_mask_cases (x : RebinIn) (js : List (List Nat)) (members : List Nat → List Nat) :
    (x.handleMask = .none → rebinMask x js members = .absent) ∧
    (∀ b, x.mask = .scalar b → x.handleMask ≠ .none → rebinMask x js members = .scalar b) ∧
    (x.mask = .absent → rebinMask x js members = .absent) := by
  refine ⟨?_, ?_, ?_⟩
  · intro h; simp [rebinMask, h]
  · intro b hb hn; cases hh : x.handleMask <;> simp_all [rebinMask]
  · intro hb; cases hh : x.handleMask <;> simp_all [rebinMask]

/-- An all-ones bin shape returns the cube itself. -/
theorem rebin_ones_id (x : RebinIn) (h : (binInts x).all (· == 1) = true) :
    ∃ out, rebin x = .ok out ∧ out.identity = true ∧ out.shape = x.shape ∧ out.values = x.data.map some := by
  simp [rebin, rebinWith, h]

/-- Wrong length and non-divisors are refused with `ValueError`. -/
theorem rebin_refusals (x : RebinIn) (hne : (binInts x).all (· == 1) = false) :
    ((binInts x).length ≠ x.shape.length → rebin x = .error .valueError) ∧
    ((binInts x).length = x.shape.length → nonDivisor x.shape (binInts x) = true →
      rebin x = .error .valueError) := by
  constructor
  · intro hl; simp [rebin, rebinWith, hne, hl]
  · intro hl hd; simp [rebin, rebinWith, hne, hl, hd]

/-- `np.rint` on an integer-valued entry is that integer (integer bin shapes are used as given). -/
theorem rint_int (n : Int) : rintHalfEven (n : Rat) = n := by
  have h1 : ((n : Rat)).floor = n := Rat.floor_intCast n
  have h2 : (n : Rat) - ((n : Int) : Rat) = 0 := Rat.sub_self
  have h3 : (0 : Rat) < 1/2 := by decide +kernel
  simp only [rintHalfEven, h1, h2, h3, if_true]

end Ndcube.C08
