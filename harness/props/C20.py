"""C20 — reprojection regrids values onto the target WCS and refuses ill-posed requests."""
import random
import numpy as np
import astropy.units as u
from astropy.wcs import WCS
from astropy.wcs.wcsapi import SlicedLowLevelWCS

import common as C
from core import err_kind

ID = "C20"
MODEL_OP = "reproject (decision logic of reproject_to + whole-pixel-shift regridding)"
RULE = ("FITS cubes of 2-4 dims (celestial RA/DEC TAN pair plus WAVE / TIME axes in any axis order, non-square shapes) with unit, "
        "meta and a global coord; targets that are the source grid, shifted by whole pixels (any sign, partly or wholly off the "
        "source), rescaled, axis-permuted or of another physical type, given as WCS, low-level-only WCS or header mapping, with "
        "shape_out explicit (equal to or different from the target's own array shape) / taken from the target / unavailable; algorithms interpolation, adaptive, exact (2-D celestial "
        "only) and an unknown name; with and without return_footprint. Non-trivial = always; distinct = whole case")
TRUSTED = ["numpy indexing of the source data shifted by whole pixels is the reference for values and footprint",
           "the reproject package performs the regridding (modelled as order-1 interpolation, compared on every case)"]
ASSUMPTIONS = ["for the adaptive algorithm (anti-aliased) only the pixels where reproject returns a value are compared, and only to within half a data step",
               "values compared at atol 1e-6 (integer-valued data) for interpolation on identical / whole-pixel-shifted grids and for exact on the identical grid",
               "rescaled targets are checked for shape, wcs, unit, meta and global coords only"]
AXES = {"RA": ("RA---TAN", "deg", 0.4, 1.0), "DEC": ("DEC--TAN", "deg", 0.5, 0.5), "WAVE": ("WAVE", "Angstrom", 0.2, 10.0),
        "TIME": ("TIME", "s", 0.5, 0.0), "FREQ": ("FREQ", "Hz", 3.0, 5.0)}


def corpus():
    return C.read_corpus(ID)


def generate(rng, tier):
    n = 450 if tier == "quick" else 30000
    for _ in range(n):
        nd = rng.choice([2, 2, 3, 3, 4, 4])
        names = ["RA", "DEC"] + {2: [], 3: [rng.choice(["WAVE", "TIME"])], 4: ["WAVE", "TIME"]}[nd]
        # keep the celestial pair adjacent, in this order, anywhere among the pixel axes
        others = names[2:]
        rng.shuffle(others)
        k = rng.randint(0, len(others))
        order = others[:k] + ["RA", "DEC"] + others[k:]
        if rng.random() < 0.12:
            # a 2-D cube without celestial axes: interpolation regrids it, adaptive / exact must refuse the target
            nd = 2
            order = rng.choice([["WAVE", "TIME"], ["TIME", "WAVE"]])
        shape = [rng.randint(2, 5) for _ in range(nd)]
        while len(set(shape)) == 1 and nd > 1:
            shape[rng.randrange(nd)] += 1
        kind = rng.choice(["same", "shift", "shift", "shift", "rescale", "permuted", "other_types"])
        algo = rng.choice(["interpolation"] * 5 + ["adaptive", "exact", "nearest"])
        shift = [rng.choice([0, 0, 1, -1, 2, -2, rng.choice([6, -6])]) for _ in range(nd)] if kind == "shift" else [0] * nd
        as_ = rng.choice(["wcs", "wcs", "lowlevel", "header"])
        if "RA" not in order:
            # (refusal of adaptive / exact for a non-celestial target, whatever form the target is given in)
            algo = rng.choice(["adaptive", "exact", "adaptive", "exact", "interpolation"])
            as_ = rng.choice(["wcs", "lowlevel", "lowlevel", "header"])
            if kind in ("permuted", "other_types") and rng.random() < 0.7:
                kind, shift = "same", [0] * nd
        so = rng.choice(["explicit", "target", "target", "missing", "other", "override", "explicit_only", "explicit_only"])
        if so == "explicit_only" and rng.random() < 0.4:
            as_ = "header"                  # (what WCS.to_header() gives: no NAXISn cards)
        yield {"order": order, "shape": shape, "kind": kind, "algo": algo, "shift": shift, "crpix_seed": rng.randrange(1000),
               "as": as_,
               "shape_out": so,
               "footprint": rng.random() < 0.5,
               "pre": ([rng.randint(0, 3) for _ in shape] if rng.random() < 0.3 else None)}


def make_wcs(order, shape, seed, with_shape=True):
    rng = random.Random(seed)
    n = len(order)
    w = WCS(naxis=n)
    w.wcs.ctype = [AXES[a][0] for a in order]
    w.wcs.cunit = [AXES[a][1] for a in order]
    w.wcs.cdelt = [AXES[a][2] for a in order]
    w.wcs.crval = [AXES[a][3] for a in order]
    w.wcs.crpix = [rng.choice([1, 2, 1.5, 3]) for _ in order]
    w.wcs.set()
    if with_shape:
        w.array_shape = tuple(shape)
    return w


def run(case):
    tags = [f"ndim={len(case['shape'])}", f"kind={case['kind']}", f"algo={case['algo']}", f"as={case['as']}",
            f"shape_out={case['shape_out']}", f"footprint={case['footprint']}"]
    res = {"tags": tags, "oracle": None, "impl": {"err": None}, "model_req": None, "nontrivial": repr(case)}
    fails = []
    from ndcube import NDCube
    shape = tuple(case["shape"])
    nd = len(shape)
    w = make_wcs(case["order"], shape, case["crpix_seed"])
    # source data of the usual dtypes (the payload is integer-valued): the result must hold the values, and no value
    # (NaN) without coverage, whatever the source dtype
    dtype = ["float64", "float64", "int64", "int16", "float32"][case["crpix_seed"] % 5]
    data = C.payload(shape, 0).astype(dtype)
    tags.append(f"dtype={dtype}")
    cube = NDCube(data.copy(), wcs=w, unit=u.ct, meta={"origin": "c20"})
    if case.get("pre"):
        # the source is itself the result of slicing a larger cube by ranges (other starts on every axis): the same
        # data and the same coordinates as the fresh cube above, reached through the wrapper slicing leaves behind
        starts = list(case["pre"])
        big_shape = tuple(s0 + n + 1 for s0, n in zip(starts, shape))
        w_big = make_wcs(case["order"], big_shape, case["crpix_seed"])
        w_big.wcs.crpix = w_big.wcs.crpix + np.array(starts[::-1], dtype=float)
        w_big.wcs.set()
        big = np.full(big_shape, -7).astype(dtype)
        box = tuple(slice(s0, s0 + n) for s0, n in zip(starts, shape))
        big[box] = data
        cube = NDCube(big, wcs=w_big, unit=u.ct, meta={"origin": "c20"})[box]
        tags.append("source=sliced")
    cube.global_coords.add("g", "custom:g", 2 * u.kg)
    # ---- target
    t_order = list(case["order"])
    out_shape = list(shape)
    if case["kind"] == "permuted":
        i = t_order.index("RA") if "RA" in t_order else 0
        if nd >= 3:
            j = 0 if i > 0 else nd - 1
            # move a non-celestial axis to the other side of the pair
            ax = t_order.pop(j)
            t_order.insert(nd - 1 - j if j == 0 else 0, ax)
        else:
            t_order = t_order[::-1]
    elif case["kind"] == "other_types":
        t_order = [("FREQ" if a == "WAVE" or (a == "TIME" and "WAVE" not in t_order) else a) for a in t_order]
        if nd == 2 and "RA" in t_order:
            t_order = ["RA", "DEC"]
    if case["shape_out"] in ("other", "override"):
        out_shape = [s + 1 if k == 0 else max(1, s - 1) for k, s in enumerate(shape)]
    # "override": the target advertises its own array shape (the source's) and a different shape_out is requested
    own_shape = list(shape) if case["shape_out"] == "override" else list(out_shape)
    # ("explicit_only": the target itself carries no shape - e.g. a header without NAXISn - and shape_out is given)
    t = make_wcs(t_order, own_shape, case["crpix_seed"], with_shape=case["shape_out"] not in ("missing", "explicit_only"))
    if case["kind"] == "other_types" and nd == 2 and "RA" in t_order:
        t.wcs.ctype = ["GLON-TAN", "GLAT-TAN"]
        t.wcs.set()
    d_pix = np.array(case["shift"][::-1], dtype=float)      # pixel order
    t.wcs.crpix = t.wcs.crpix + d_pix
    if case["kind"] == "rescale":
        cd = np.array(t.wcs.cdelt); cd[0] *= 2; t.wcs.cdelt = cd
    t.wcs.set()
    if case["as"] == "lowlevel":
        target = SlicedLowLevelWCS(t, Ellipsis)
    elif case["as"] == "header":
        hdr = dict(t.to_header())
        if case["shape_out"] not in ("missing", "explicit_only"):
            for k, s in enumerate(own_shape[::-1]):
                hdr[f"NAXIS{k + 1}"] = s
            hdr["NAXIS"] = nd
        if case["crpix_seed"] % 2:
            from astropy.io import fits
            hdr = fits.Header(hdr)                 # an astropy Header rather than a plain dict
        target = hdr
    else:
        target = t
    kw = {"algorithm": case["algo"], "return_footprint": case["footprint"]}
    if case["shape_out"] in ("explicit", "other", "override", "explicit_only"):
        # a tuple, a list, or a tuple of numpy integers (what `array.shape` arithmetic gives)
        kw["shape_out"] = [tuple, list, lambda x: tuple(np.int64(v) for v in x)][case["crpix_seed"] % 3](out_shape)
    # ---- expectations
    src_types = [str(x) for x in w.world_axis_physical_types]
    tgt_types = [str(x) for x in t.world_axis_physical_types]
    cel_only = nd == 2 and all("pos." in x for x in tgt_types)
    refuse = None
    if case["algo"] == "nearest":
        refuse = "unknown algorithm"
    elif case["algo"] in ("adaptive", "exact") and not cel_only:
        refuse = "adaptive / exact need a 2-D celestial target"
    elif src_types != tgt_types:
        refuse = "physical types (or their order) differ"
    elif case["shape_out"] == "missing" and not (case["as"] == "header" and False):
        refuse = "no output shape available"
    before = (np.array(cube.data, copy=True), dict(cube.meta), cube.unit)
    target_before = (None if t.array_shape is None else tuple(t.array_shape), t.to_header_string(), C.freeze(target) if isinstance(target, dict) or hasattr(target, "cards") else None,
                     C.freeze(kw.get("shape_out")))
    try:
        if case["crpix_seed"] % 4 == 1:
            # the documented parameters in their documented order, given positionally
            tags.append("positional")
            out = cube.reproject_to(target, kw["algorithm"], kw.get("shape_out"), kw["return_footprint"])
        else:
            out = cube.reproject_to(target, **kw)
        fp = None
        from ndcube import NDCube as _NDCube
        shape_bad = None
        if case["footprint"]:
            if not (isinstance(out, tuple) and len(out) == 2):
                shape_bad = f"return_footprint=True returned a {type(out).__name__}, not (cube, footprint)"
            else:
                out, fp = out
        if shape_bad is None and not isinstance(out, _NDCube):
            shape_bad = f"the call returned a {type(out).__name__}{' of length ' + str(len(out)) if isinstance(out, tuple) else ''}, not a cube"
        status = "ok"
    except Exception as e:
        status = err_kind(e)
        res["impl"]["err"] = status
        msg = f"{type(e).__name__}: {str(e)[:120]}"
    # accepted or refused, the request leaves the caller's target (its declared shape included) and shape_out as given
    target_after = (None if t.array_shape is None else tuple(t.array_shape), t.to_header_string(), C.freeze(target) if isinstance(target, dict) or hasattr(target, "cards") else None,
                    C.freeze(kw.get("shape_out")))
    if target_after != target_before:
        fails.append(f"reproject_to edited the target / shape_out the caller passed in (declared array shape {target_before[0]} -> {target_after[0]})")
    if refuse:
        if status == "ok":
            fails.append(f"request should be refused ({refuse}) but returned {('a cube of shape ' + str(out.data.shape)) if hasattr(out, 'data') else type(out).__name__}")
        elif status != "ValueError":
            fails.append(f"ill-posed request ({refuse}) raised {msg}")
    elif status != "ok":
        fails.append(f"well-posed request raised {msg}")
    elif shape_bad:
        fails.append(shape_bad)
    else:
        got = np.asarray(out.data, dtype=float)
        if tuple(got.shape) != tuple(out_shape):
            fails.append(f"result shape {got.shape}, requested output shape {tuple(out_shape)}")
        if out.unit != cube.unit:
            fails.append(f"result unit {out.unit}, source unit {cube.unit}")
        if out.meta != cube.meta:
            fails.append("meta not carried over")
        if dict(out.global_coords) != dict(cube.global_coords):
            fails.append("global coords not carried over")
        oll = out.wcs.low_level_wcs
        tl = t
        for p in ([0.5] * nd, [float(k) for k in range(nd)], [1.25 * (nd - k) for k in range(nd)]):
            a = np.atleast_1d(oll.pixel_to_world_values(*p)); b = np.atleast_1d(tl.pixel_to_world_values(*p))
            if not np.allclose(np.asarray(a, dtype=float), np.asarray(b, dtype=float), rtol=1e-12, equal_nan=True):
                fails.append("the result's wcs is not the requested target")
                break
        if oll.pixel_n_dim != nd or [str(x) for x in oll.world_axis_physical_types] != tgt_types:
            fails.append("the result's wcs does not have the target's axes")
        # (with "override" the target advertises another shape than the one requested: its own declaration stays)
        if case["shape_out"] != "override" and oll.array_shape is not None and tuple(int(x) for x in oll.array_shape) != tuple(got.shape):
            fails.append(f"the result's wcs declares array shape {tuple(oll.array_shape)} for data of shape {tuple(got.shape)}")
        if fp is not None and tuple(np.asarray(fp).shape) != tuple(out_shape):
            fails.append(f"footprint shape {np.asarray(fp).shape}, requested output shape {tuple(out_shape)}")
        if case["kind"] in ("same", "shift") and not fails:
            s_arr = [-d for d in case["shift"]]
            want = np.full(out_shape, np.nan)
            foot = np.zeros(out_shape)
            for j in np.ndindex(*out_shape):
                src = tuple(jj + ss for jj, ss in zip(j, s_arr))
                if all(0 <= x < n for x, n in zip(src, shape)):
                    want[j] = data[src]; foot[j] = 1
            tol = 1e-6      # (integer-valued data: 1e-6 still identifies the sample; the pixel-to-pixel map is accurate to ~1e-11)
            if case["algo"] == "adaptive":
                # reproject's adaptive algorithm is an anti-aliased resampling: it blanks the edges of the
                # source by default and smooths, so only closeness (half a data step) is demanded of it
                want = np.where(np.isnan(got), np.nan, want)
                tol = 0.5
            if case["algo"] == "interpolation" or not any(case["shift"]):
                if not np.allclose(got, want, rtol=0, atol=tol, equal_nan=True):
                    bad = np.argwhere(~np.isclose(got, want, rtol=0, atol=tol, equal_nan=True))[0]
                    fails.append(f"target pixel {bad.tolist()} holds {got[tuple(bad)]}, the source has {want[tuple(bad)]} at the same world position (shift {s_arr})")
                if fp is not None and case["algo"] == "interpolation":
                    fpa = np.asarray(fp, dtype=float)
                    if not np.array_equal(fpa > 0, foot > 0):
                        fails.append("footprint does not mark exactly the covered target pixels")
                    elif not np.all(fpa[foot == 0] == 0):
                        fails.append(f"footprint is {np.unique(fpa[foot == 0]).tolist()[:3]} (not zero) where the source has no coverage")
        if not (np.array_equal(before[0], np.asarray(cube.data)) and before[1] == cube.meta and before[2] == cube.unit):
            fails.append("the source cube changed")
        # a header is read when it is given: the same header object edited in place and given again is another target
        if case["as"] == "header" and not fails and case["crpix_seed"] % 2 == 0:
            try:
                target["CRPIX1"] = float(target["CRPIX1"]) + 1.0
                t2 = WCS(header=dict(target)) if not hasattr(target, "cards") else WCS(header=target.copy())
                out2 = cube.reproject_to(target, **kw)
                out2 = out2[0] if isinstance(out2, tuple) else out2
                o2 = out2.wcs.low_level_wcs
                p = [0.5] * nd
                a = np.asarray(np.atleast_1d(o2.pixel_to_world_values(*p)), dtype=float)
                b = np.asarray(np.atleast_1d(t2.pixel_to_world_values(*p)), dtype=float)
                if not np.allclose(a, b, rtol=1e-12, equal_nan=True):
                    fails.append("the same header object edited in place (CRPIX1 + 1) and given again: the result's wcs is not the edited target")
                tags.append("header-edited-in-place")
            except Exception as e:
                fails.append(f"second call with the header edited in place raised {type(e).__name__}: {str(e)[:100]}")
        res["obs_vals"] = got.tolist() if case["kind"] in ("same", "shift") and case["algo"] == "interpolation" else None
    res["obs"] = {"status": status, "shape": None if (status != "ok" or not hasattr(out, "data")) else list(np.asarray(out.data).shape)}
    res["model_req"] = {"op": "reproject", "algo": case["algo"], "srcTypes": src_types, "tgtTypes": tgt_types,
                        "tgtPixDim": nd, "tgtWorldDim": nd, "tgtCelestialOnly": cel_only,
                        "shapeOut": list(out_shape) if case["shape_out"] in ("explicit", "other", "override", "explicit_only") else None,
                        "tgtArrayShape": None if case["shape_out"] in ("missing", "explicit_only") else list(own_shape)}
    if case["kind"] in ("same", "shift") and case["algo"] == "interpolation":
        probes = [list(j) for j in np.ndindex(*out_shape)][:200]
        res["model_req"].update({"shift": [-d for d in case["shift"]], "srcShape": list(shape), "probes": probes})
        res["probes"] = probes
    if fails:
        res["oracle"] = "; ".join(fails[:2])
    return res


def compare(case, r, m):
    o = r.get("obs")
    if not o:
        return None
    d = m["decision"]
    if "err" in d:
        if o["status"] == "ok":
            return f"model refuses ({d['err']}), implementation returned shape {o['shape']}"
        if o["status"] != d["err"]:
            return f"refusal kind: implementation {o['status']} vs model {d['err']}"
        return None
    if o["status"] != "ok":
        return f"model accepts with shape {d['shape']}, implementation raised {o['status']}"
    if o["shape"] != d["shape"]:
        return f"shape: implementation {o['shape']} vs model {d['shape']}"
    if r.get("obs_vals") is not None and "values" in m:
        got = np.asarray(r["obs_vals"], dtype=float)
        for p, mv in zip(r["probes"], m["values"]):
            g = got[tuple(p)]
            want = np.nan if mv is None else (mv[0] / mv[1] if isinstance(mv, list) else float(mv))
            if not (np.isnan(g) and np.isnan(want)) and not np.isclose(g, want, rtol=0, atol=1e-6):
                return f"target pixel {p}: implementation {g} vs model {want}"
    return None


def signature(case, failure):
    return "other:" + failure[:60]


def shrink(case):
    if case["footprint"]:
        yield {**case, "footprint": False}
    if case["as"] != "wcs":
        yield {**case, "as": "wcs"}
    if any(case["shift"]):
        for k in range(len(case["shift"])):
            if case["shift"][k]:
                s = list(case["shift"]); s[k] = 0
                yield {**case, "shift": s}
