import NdcubeModel.Driver
def main : IO Unit := Ndcube.Driver.main
