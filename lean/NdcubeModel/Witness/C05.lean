import NdcubeModel.Props.C05
import NdcubeModel.Witness.C04

/-! Non-vacuity for C05: the coupled, truthful WCS of C04's witness (world 0 = p0 + p1,
world 1 = p1, world 2 = p2) and an extra-coords layout with two tables on one cube axis. -/
namespace Ndcube.C05.Witness
open Ndcube
open Ndcube.C04.Witness (w0 w0_truthful)

-- the hypothesis of `awc_value` is met by a concrete WCS …
example : C05.Truthful w0 := w0_truthful
-- … and its conclusion is about concrete numbers: element a = [3, 2] (array order) of the
-- coordinate array of world axis 0, which depends on pixel axes 0 and 1
example : corrPixels w0.corr 3 0 = [0, 1] ∧ corrPixels w0.corr 3 2 = [2] := by decide
example : gridPixel w0.corr 3 (splitMatrix w0.corr 3) false 0 [3, 2] = [2, 3, 0] ∧
    (w0.p2w (gridPixel w0.corr 3 (splitMatrix w0.corr 3) false 0 [3, 2]))[0]? = some 5 := by decide +kernel
-- pixel corners are half a pixel lower
example : gridPixel w0.corr 3 (splitMatrix w0.corr 3) true 1 [4] = [-1/2, 7/2, 0] := by decide +kernel
-- shape: world 0 spans array axes {1, 2}, world 2 spans array axis {0}
example : coordArrayAxes w0.corr 3 3 none 0 = [1, 2] ∧ coordArrayAxes w0.corr 3 3 none 2 = [0] := by decide
-- selection by integer axes of either sign: array axis 2 (= −1) is pixel axis 0, which only world 0 sees
example : (worldIndicesInts w0.corr 3 3 3 none [2]).toOption = some [0] ∧
    (worldIndicesInts w0.corr 3 3 3 none [-1]).toOption = some [0] ∧
    (worldIndicesInts w0.corr 3 3 3 none [1, -3]).toOption = some [0, 1, 2] ∧
    (worldIndicesInts w0.corr 3 3 3 none [3]).toOption = none := by decide
-- extra coords: three tables, the first two on cube pixel axis 2, the third on cube pixel axis 0
-- (mapping (2, 2, 0)); array axis 0 of the 3-D cube is cube pixel axis 2: both tables are returned
example : (worldIndicesInts [[true, false, false], [false, true, false], [false, false, true]] 3 3 3 (some [2, 2, 0]) [0]).toOption
    = some [0, 1] := by decide
example : pixelsOfCubeAxis 3 (some [2, 2, 0]) 2 = [0, 1] := by decide

end Ndcube.C05.Witness
