"""C02 — slicing keeps extra coordinates on the right elements, in the same order."""
import random
import numpy as np

import common as C
import wcsfam as W
import ecs as E
from core import err_kind

ID = "C02"
MODEL_OP = "slice_chain (ExtraCoords.__getitem__, mapping)"
RULE = ("cubes of 1-4 dims (axis lengths 2-5) with 0-4 extra coordinates in any axis assignment: Quantity / Time / 1-D "
        "SkyCoord tables (several may share an axis), separable 2-axis Quantity tables, 2-D and meshed SkyCoord tables, "
        "or a WCS-backed ExtraCoords (separable FITS, any mapping the setter accepts); chains of 1-3 valid basic index "
        "items (ints of both signs, slices with open / negative / over-long bounds, Ellipsis, short tuples) that leave "
        "a non-empty cube; a sample of cases is re-run in two fresh interpreters with different PYTHONHASHSEED. "
        "Non-trivial = at least one extra coordinate and one integer item; distinct = whole case")
TRUSTED = ["the unsliced cube's extra-coords WCS evaluated at the source element is the reference for values",
           "numpy basic indexing of np.indices gives the source element of every surviving element"]
ASSUMPTIONS = ["results with a zero-length axis are not generated (a lookup table cannot be empty)",
               "values compared at rtol/atol 1e-9 through the high-level objects (Time relative to a fixed epoch)"]
FAMILIES = ["probe", "probe_coupled", "fits_sep", "fits_cel"]


def corpus():
    return C.read_corpus(ID)


def generate(rng, tier):
    n = 400 if tier == "quick" else 12000
    n_fresh = 10 if tier == "quick" else 60
    for k in range(n):
        nd = rng.choice([1, 2, 2, 3, 3, 4])
        shape = [rng.randint(2, 5) for _ in range(nd)]
        ecs, shape = E.gen_layout(rng, nd, shape)
        chain = E.gen_chain(rng, shape, rng.choice([1, 1, 2, 3]))
        if nd >= 2 and rng.random() < 0.08:
            # a meshed SkyCoord table on two long axes under a chain of range-only slices
            a0, a1 = sorted(rng.sample(range(nd), 2))
            shape[a0] = shape[a1] = 5
            ecs = [e for e in ecs if e["kind"] not in ("wcs", "sky2mesh", "sky2d")][:2] + [{"kind": "sky2mesh", "axes": [a0, a1]}]
            chain = E.gen_chain(rng, shape, rng.choice([2, 3]), pattern="ranges")
        yield {"shape": shape, "fam": rng.choice(FAMILIES), "wseed": rng.randrange(10**6), "ecs": ecs, "chain": chain,
               "fresh": k < n_fresh * 3 and k % 3 == 0 and len(ecs) >= 2}


def apply_chain(cube, chain, npint=False):
    for items in chain:
        cube = cube[C.to_py_index(items, npint=npint)]
    return cube


def observe_order(case):
    """What must be identical from run to run (called in fresh interpreters too)."""
    cube = E.build_cube(case["shape"], case["fam"], case["wseed"], case["ecs"])
    s = apply_chain(cube, case["chain"], C.npint_of(case))
    ec = s.extra_coords
    return {"keys": list(ec.keys() or []), "mapping": [int(m) for m in ec.mapping],
            "types": E.ec_types(s), "combined": [str(t) for t in s.combined_wcs.low_level_wcs.world_axis_physical_types]}


def lut_requests(case, cube):
    """The lookup-table layout in the model's terms."""
    luts, id_names = [], {}
    nd = len(case["shape"])
    k_id = 0
    for k, ec in E.table_order(case["ecs"]):
        if ec["kind"] == "wcs":
            # one table per independent group of the WCS's pixel axes (a coupled celestial pair is one
            # coupled 2-axis table)
            ew = cube.extra_coords.wcs
            names = list(ew.world_axis_names)
            corr = np.asarray(ew.axis_correlation_matrix, dtype=bool)
            done = set()
            for j in range(corr.shape[1]):
                if j in done:
                    continue
                pix, worlds, grew = {j}, set(), True
                while grew:
                    grew = False
                    for i in range(corr.shape[0]):
                        if i not in worlds and any(corr[i, p] for p in pix):
                            worlds.add(i); grew = True
                            for p in range(corr.shape[1]):
                                if corr[i, p] and p not in pix:
                                    pix.add(p)
                done |= pix
                luts.append({"axes": [nd - 1 - ec["mapping"][p] for p in sorted(pix)], "id": k_id, "sep": len(pix) == 1})
                id_names[k_id] = [names[i] for i in sorted(worlds)]
                k_id += 1
            continue
        luts.append({"axes": list(ec["axes"]), "id": k_id, "sep": ec["kind"] in E.SEPARABLE})
        id_names[k_id] = E.names_of(k, ec)
        k_id += 1
    return luts, id_names


def run(case):
    rng = random.Random(case["wseed"] + 2)
    kinds = [e["kind"] for e in case["ecs"]]
    n_int = sum(1 for items in case["chain"] for i in items if isinstance(i, int))
    tags = [f"ndim={len(case['shape'])}", f"necs={len(case['ecs'])}", f"chain={len(case['chain'])}", f"fam={case['fam']}"] + \
           [f"ec={k}" for k in kinds] + [f"item={C.item_kind(i)}" for items in case["chain"] for i in items] + \
           (["shared-axis"] if len({tuple(e.get('axes', [])) for e in case['ecs']}) < len(case["ecs"]) else [])
    res = {"tags": tags, "oracle": None, "impl": {"err": None}, "model_req": None}
    fails = []
    observing = False
    try:
        cube = E.build_cube(case["shape"], case["fam"], case["wseed"], case["ecs"])
        nd = cube.data.ndim
        deps = E.coord_deps(case["ecs"], cube)
        orig_types = E.ec_types(cube)
        orig_names = list(cube.extra_coords.keys() or [])
        if case["ecs"] and n_int:
            res["nontrivial"] = repr(sorted(case.items(), key=str))
        if [d[0] for d in deps] != orig_names:
            raise RuntimeError(f"layout names {deps} vs cube keys {orig_names}")
        if case["wseed"] % 3 == 2:
            # refused requests first (an integer one past the end of an axis, ranges on the others): a refusal
            # leaves the cube and its extra coordinates as they were
            for a in range(nd):
                bad = [slice(1, None)] * nd
                bad[a] = int(cube.data.shape[a])
                try:
                    cube[tuple(bad)]
                except Exception:
                    pass
            res["tags"].append("after-refused-requests")
        try:
            s = apply_chain(cube, case["chain"], C.npint_of(case))
            ec = s.extra_coords
            keys = list(ec.keys() or [])
            mapping = [int(m) for m in ec.mapping]
        except Exception as e:
            res["impl"]["err"] = err_kind(e)
            fails.append(f"slicing a cube with extra coords by a valid index raised {type(e).__name__}: {str(e)[:120]}")
            raise StopIteration
        observing = True
        # which source element each surviving element is
        idx = np.indices(cube.data.shape)
        src = [apply_np(ix, case["chain"]) for ix in idx]
        if tuple(s.data.shape) != tuple(src[0].shape):
            fails.append(f"sliced data shape {s.data.shape}, numpy gives {src[0].shape}")
            raise StopIteration
        surv = E.surviving_axes(nd, [C.to_py_index(it) for it in case["chain"]])
        want_names = [nm for nm, axes in deps if any(a in surv for a in axes)]
        if keys != want_names:
            fails.append(f"extra coords after slicing are {keys}; the original order with the dropped ones removed is {want_names}")
            raise StopIteration
        nd2 = len(surv)
        # the celestial frames (with their attributes: an equinox, an obstime) the remaining coordinates declare are
        # frames the source declared
        src_frames, got_frames = E.sky_frames_of(cube), E.sky_frames_of(s)
        if any(f not in src_frames for f in got_frames):
            fails.append(f"the sliced cube's extra coordinates declare the frame(s) {got_frames}, the source has {src_frames}")
        # mapping: one entry per (coordinate table, surviving axis)
        want_map = []
        seen = set()
        for k, ecd in E.table_order(case["ecs"]):
            if ecd["kind"] == "wcs":
                for m in ecd["mapping"]:
                    a = nd - 1 - m
                    if a in surv:
                        want_map.append(nd2 - 1 - surv.index(a))
            else:
                for a in ecd["axes"]:
                    if a in surv:
                        want_map.append(nd2 - 1 - surv.index(a))
        if mapping != want_map:
            fails.append(f"mapping after slicing is {mapping}; the surviving axes renumbered give {want_map}")
        types = E.ec_types(s)
        for nm in keys:
            if types.get(nm) != orig_types.get(nm):
                fails.append(f"physical type of {nm} changed from {orig_types.get(nm)} to {types.get(nm)}")
        # values at every (sampled) surviving element
        if keys and not fails:
            els = C.all_indices(s.data.shape, 40, rng)
            got, _ = E.ec_values(s, els)
            src_els = [[int(a[tuple(e)]) for a in src] for e in els]
            want, _ = E.ec_values(cube, src_els)
            for nm in keys:
                g, w = got[nm], want[nm]
                bad = ~np.isclose(g, w, rtol=1e-9, atol=1e-9, equal_nan=False)
                if bad.any():
                    i = int(np.argmax(bad))
                    fails.append(f"{nm} at element {els[i]} (source element {src_els[i]}) is {g[i]}, the original has {w[i]}")
                    break
        # the other spelling of the same request: the extra coords sliced directly, with the trailing whole axes left
        # out of the item (cube[...] always hands over one entry per axis; a user need not)
        if len(case["chain"]) == 1 and not fails and getattr(cube.extra_coords, "_lookup_tables", None):
            py = list(C.to_py_index(case["chain"][0], npint=C.npint_of(case)))
            if Ellipsis not in py:
                while len(py) > 1 and isinstance(py[-1], slice) and py[-1] == slice(None):
                    py.pop()
                direct = cube.extra_coords[tuple(py) if len(py) > 1 else py[0]]
                lut = lambda e: [(tuple(int(a) for a in (ax if isinstance(ax, tuple) else (ax,))), tuple(t.names or ())) for ax, t in e._lookup_tables]
                if lut(direct) != lut(ec) or list(direct.keys() or []) != keys:
                    fails.append(f"cube.extra_coords[{py}] holds {lut(direct)}, the extra coords of cube[{py}] hold {lut(ec)}")
        res["obs"] = {"keys": keys, "mapping": mapping, "shape": list(s.data.shape),
                      "lut_axes": [[int(a) for a in (ax if isinstance(ax, tuple) else (ax,))] for ax, _ in getattr(ec, "_lookup_tables", [])]}
        luts, id_names = lut_requests(case, cube)
        pll = cube.wcs.low_level_wcs
        res["model_req"] = {"op": "slice_chain", "shape": list(case["shape"]),
                            "wcs": {"pixDim": int(pll.pixel_n_dim), "worldDim": int(pll.world_n_dim), "corr": W.corr_matrix(pll),
                                    "shape": list(case["shape"])},
                            "luts": luts, "steps": [{"items": it} for it in case["chain"]]}
        res["id_names"] = {str(k): v for k, v in id_names.items()}
        if case.get("fresh") and not fails:
            here = observe_order(case)
            for hs in (1, 4242):
                there = E.fresh_observe("props.C02", case, hs)
                if there != here:
                    fails.append(f"a fresh interpreter (PYTHONHASHSEED={hs}) reports {there}, this one {here}")
                    break
            res["tags"].append("fresh-interpreters")
    except StopIteration:
        pass
    except Exception as e:
        if not observing:
            raise
        # the slices themselves were accepted: coordinates that cannot be evaluated afterwards are not the source's
        fails.append(f"evaluating the extra coordinates of the sliced cube raised {type(e).__name__}: {str(e)[:120]}")
    if fails:
        res["oracle"] = "; ".join(fails[:2])
    return res


def apply_np(a, chain):
    for items in chain:
        a = a[C.to_py_index(items)]
    return a


def compare(case, r, m):
    if r["impl"]["err"] or "obs" not in r:
        return None
    o = r["obs"]
    bad_steps = [s for s in m["steps"] if "err" in s]
    if bad_steps:
        return f"implementation sliced, model refuses a step with {bad_steps[0]['err']}"
    if o["shape"] != m["shape"]:
        return f"shape: implementation {o['shape']} vs model {m['shape']}"
    names = []
    sep_ids = {l["id"] for l in r["model_req"]["luts"] if l["sep"]}
    for l in m["luts"]:
        nm = r["id_names"][str(l["id"])]
        names += [nm[c] for c in l["comps"]] if l["id"] in sep_ids else nm
    if names != o["keys"]:
        return f"order of surviving coordinates: implementation {o['keys']} vs model {names}"
    if o["mapping"] != m["mapping"]:
        return f"mapping: implementation {o['mapping']} vs model {m['mapping']}"
    if case["ecs"] and case["ecs"][0]["kind"] != "wcs" and o["lut_axes"] != [l["axes"] for l in m["luts"]]:
        return f"lookup-table axes: implementation {o['lut_axes']} vs model {[l['axes'] for l in m['luts']]}"
    return None


def signature(case, failure):
    return "other:" + failure[:60]


def shrink(case):
    if len(case["chain"]) > 1:
        for i in range(len(case["chain"])):
            c = {**case, "chain": case["chain"][:i] + case["chain"][i + 1:]}
            try:
                shape = tuple(case["shape"])
                a = np.empty(shape)
                for it in c["chain"]:
                    a = a[C.to_py_index(it)]
                if a.ndim >= 1 and a.size > 0:
                    yield c
            except Exception:
                pass
    for i in range(len(case["ecs"])):
        yield {**case, "ecs": case["ecs"][:i] + case["ecs"][i + 1:]}
    if case["fam"] != "probe":
        yield {**case, "fam": "probe"}
    if case.get("fresh"):
        yield {**case, "fresh": False}
