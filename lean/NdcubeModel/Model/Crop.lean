import NdcubeModel.Model.Wcs

/-!
# Cropping by world points

Mirrors `get_crop_item_from_points` (ndcube/utils/cube.py) after the `fix:` commits that clip
the box at the array's ends: per point, the pixel axes that receive an input, the per-point sub-WCS
(`SlicedLowLevelWCS` with `0` on the axes without input), `world_to_array_index_values`
(`floor(x + 1/2)`), and per axis `min .. max + 1` over the points that address it.
World values are rationals here; the coordinate functions stay parameters.
-/

namespace Ndcube

/-- astropy's `_toindex`: `floor(x + 0.5)` -/
def nearest (x : Rat) : Int := (x + 1 / 2).floor

def listMin (i : Int) (is : List Int) : Int := is.foldl min i
def listMax (i : Int) (is : List Int) : Int := is.foldl max i

/-- the item of one array axis of length `n` from the indices of the points that address it:
the box is clipped at both ends of the array (the start by the `fix:` commit e173fdc, the end by
the later one that makes a one-pixel extent at the end of an axis recognisable) -/
def cropAxis (keepdims : Bool) (n : Nat) : List Int → Item
  | [] => Item.all
  | i :: is =>
    let lo := max (listMin i is) 0
    let hi := min (max (listMax i is + 1) 0) n
    if hi - lo = 1 ∧ keepdims = false then .int lo else .slice (some lo) (some hi) none

/-- all the points that address an axis of length `n` lie off it (before the start, or at or
beyond the end) -/
def cropAxisOutside (n : Nat) : List Int → Bool
  | [] => false
  | i :: is =>
    let lo := max (listMin i is) 0
    let hi := max (listMax i is + 1) 0
    decide (hi ≤ lo) || decide ((n : Int) ≤ lo)

/-- `item` of `get_crop_item_from_points` from the per-axis index lists (array order) for an
array of the given shape; `ValueError` when all points are off the array along some axis or
when the result would be a single element. -/
def cropItem (shape : List Nat) (per : List (List Int)) (keepdims : Bool) : Except Err (List Item) :=
  let items := List.zipWith (cropAxis keepdims) shape per
  if (List.zipWith cropAxisOutside shape per).any id then .error .valueError
  else if items.all Item.isInt then .error .valueError else .ok items

/-- pixel axes correlated with a world axis whose coordinate is supplied -/
def pixWithInput (corr : List (List Bool)) (pixDim worldDim : Nat) (given : List Bool) : List Nat :=
  (List.range pixDim).filter fun k => (List.range worldDim).any fun i => given.getD i false && corrAt corr i k

/-- the slices (pixel order) of the per-point sub-WCS: `0` on the axes without input -/
def subSlices (pixDim : Nat) (pin : List Nat) : List Item :=
  (List.range pixDim).map fun k => if pin.contains k then Item.all else .int 0

/-- the world vector handed to the full WCS by the sub-WCS's `world_to_pixel_values`: supplied
values on the kept world axes, the dropped-dimension values elsewhere -/
def subWorld (w : LLWcs Rat) (world : List (Option Rat)) (pin : List Nat) : List Rat :=
  let sp := subSlices w.pixDim pin
  let base := w.p2w (underPix sp (List.replicate pin.length 0))
  let wk := worldKeep w.corr w.worldDim pin
  (List.range w.worldDim).map fun i =>
    if wk.contains i then (world.getD i none).getD 0 else base.getD i 0

/-- pixel position (full pixel vector) the implementation derives for one point; `ValueError`
when the supplied coordinates are not exactly the world axes the sub-WCS keeps -/
def pointPixel (w : LLWcs Rat) (world : List (Option Rat)) : Except Err (List Rat) :=
  let given := world.map Option.isSome
  let pin := pixWithInput w.corr w.pixDim w.worldDim given
  let wk := worldKeep w.corr w.worldDim pin
  if wk ≠ (List.range w.worldDim).filter (fun i => given.getD i false) then .error .valueError
  else .ok (w.w2p (subWorld w world pin))

/-- indices contributed by one point: (array axis, index) for every axis with input -/
def pointIndices (w : LLWcs Rat) (world : List (Option Rat)) : Except Err (List (Nat × Int)) := do
  let px ← pointPixel w world
  let given := world.map Option.isSome
  let pin := pixWithInput w.corr w.pixDim w.worldDim given
  pure (pin.reverse.map fun k => (w.pixDim - 1 - k, nearest (px.getD k 0)))

/-- collect the indices of all points per array axis -/
def collect (ndim : Nat) (pts : List (List (Nat × Int))) : List (List Int) :=
  (List.range ndim).map fun a => pts.flatMap fun pt => (pt.filter (·.1 == a)).map (·.2)

/-- the whole item; all-`None` points are a no-op -/
def cropPoints (w : LLWcs Rat) (shape : List Nat) (points : List (List (Option Rat))) (keepdims : Bool) :
    Except Err (List Item) :=
  if points.all (fun p => p.all Option.isNone) then .ok (List.replicate w.pixDim Item.all) else do
  let pts ← (points.filter fun p => !p.all Option.isNone).mapM (pointIndices w)
  cropItem shape (collect w.pixDim pts) keepdims

end Ndcube
