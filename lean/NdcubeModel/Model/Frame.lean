import NdcubeModel.Model.Py

/-!
# Frame model: which payloads a derived object shares with its source

A heap of payload cells; an object is a record of cell addresses (data, mask, uncertainty,
meta, coordinates).  Every public operation *derives* a new object whose payload cells are
either the source's (a numpy view / the same Python object) or freshly allocated, according
to a fixed policy per kind of operation; none of them writes to an existing cell.  The only
writes in a history are the user's writes into the data of a result.
-/

namespace Ndcube

inductive Payload where | data | mask | unc | metaD | coords
deriving Repr, DecidableEq

/-- kinds of deriving operations, by how they treat the payloads -/
inductive OpKind where
  | slice        -- cube[item], crop, squeeze, explode, sequence / collection slicing: numpy views
  | arithmetic   -- + - * / ** unary -, to(): new data, deep copies of everything else
  | rebin        -- new data / mask / uncertainty arrays
  | reproject    -- new data, target wcs, copied meta
  | query        -- read-only question: no new object kept
deriving Repr, DecidableEq

/-- `true`: the result's payload is the source's cell (shared); `false`: a fresh cell -/
def shares : OpKind → Payload → Bool
  | .slice, .data => true
  | .slice, .mask => true
  | .slice, .unc => true
  | .slice, .metaD => true        -- astropy passes the same meta object on
  | .slice, .coords => false     -- a new sliced WCS / ExtraCoords object
  | .arithmetic, _ => false
  | .rebin, .metaD => true
  | .rebin, _ => false
  | .reproject, _ => false
  | .query, _ => true

structure Obj where
  cell : Payload → Nat
  born : Nat                -- value of the allocation counter when the object was created
  kind : OpKind             -- how it was derived

structure Heap where
  val : Nat → Nat
  next : Nat
  objs : List Obj

inductive Step where
  | derive (src : Nat) (op : OpKind)
  | write (obj : Nat) (v : Nat)      -- the user writes `v` into the data of object `obj`

def payloads : List Payload := [.data, .mask, .unc, .metaD, .coords]

def idxOfPayload : Payload → Nat
  | .data => 0 | .mask => 1 | .unc => 2 | .metaD => 3 | .coords => 4

/-- derive: shared payloads keep the source's cell, the others get cells `next + k` holding a
copy of the source's value -/
def deriveObj (h : Heap) (src : Obj) (op : OpKind) : Heap :=
  let cellOf : Payload → Nat := fun p => if shares op p then src.cell p else h.next + idxOfPayload p
  { val := fun a => if h.next ≤ a ∧ a < h.next + 5 then
        (match payloads.find? (fun p => h.next + idxOfPayload p == a) with
         | some p => h.val (src.cell p)
         | none => 0)
      else h.val a
    next := h.next + 5
    objs := h.objs ++ [{ cell := cellOf, born := h.next, kind := op }] }

def Heap.step (h : Heap) : Step → Heap
  | .derive s op =>
    match h.objs[s]? with
    | some src => deriveObj h src op
    | none => h
  | .write o v =>
    match h.objs[o]? with
    | some ob => if ob.kind = .arithmetic then { h with val := fun a => if a = ob.cell .data then v else h.val a } else h
    | none => h

def Heap.run (h : Heap) (steps : List Step) : Heap := steps.foldl Heap.step h

/-- what can be observed of object `i` -/
def Heap.observe (h : Heap) (i : Nat) : Option (List Nat) :=
  (h.objs[i]?).map fun o => payloads.map fun p => h.val (o.cell p)

/-- initial heap: one root object with cells 0..4 -/
def Heap.init (vals : Nat → Nat) : Heap :=
  { val := vals, next := 5, objs := [{ cell := idxOfPayload, born := 0, kind := .rebin }] }

end Ndcube
