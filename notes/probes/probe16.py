from common import *
from ndcube.wcs.tools import unwrap_wcs_to_fitswcs
from ndcube.wcs.wrappers import ResampledLowLevelWCS
def base(rot=True):
    w = WCS(naxis=2)
    w.wcs.ctype = 'HPLN-TAN','HPLT-TAN'; w.wcs.cunit='deg','deg'; w.wcs.cdelt=0.01,0.02; w.wcs.crpix=2,3; w.wcs.crval=0,0
    if rot: w.wcs.pc=[[0.8,-0.6],[0.6,0.8]]
    w.array_shape=(6,8)
    return w
for rot in (False, True):
  for f,o in [([2,3],[0.5,1.0]),([2,2],[0.5,0.5]),([2,3],[0,0]),([2,2],[0,0])]:
    r = ResampledLowLevelWCS(base(rot), f, o)
    g = np.indices((2,4))[::-1].astype(float)
    a = [x.copy() for x in r.pixel_to_world_values(*g)]
    fw,_ = unwrap_wcs_to_fitswcs(r)
    b = fw.pixel_to_world_values(*g)
    d = [float(np.abs(((x-y)+180)%360-180).max()) for x,y in zip(a,b)]
    print("rot" if rot else "sep", f,o, ["%.2e"%v for v in d])
