import warnings; warnings.filterwarnings("ignore")
import numpy as np, astropy.units as u
from astropy.wcs import WCS
from astropy.time import Time
from astropy.coordinates import SkyCoord
from astropy.nddata import StdDevUncertainty, VarianceUncertainty, UnknownUncertainty
from ndcube import NDCube, NDCubeSequence, NDCollection, ExtraCoords
def wcs3(shape=None):
    w = WCS(naxis=3)
    w.wcs.ctype = 'HPLT-TAN','HPLN-TAN','WAVE'
    w.wcs.cunit = 'deg','deg','Angstrom'
    w.wcs.cdelt = 0.5,0.4,0.2
    w.wcs.crpix = 2,2,0
    w.wcs.crval = 0.5,1,10
    if shape: w.array_shape = shape
    return w
def wlin(n, shape=None):
    w = WCS(naxis=n)
    w.wcs.ctype = ['WAVE','TIME','FREQ','STOKES'][:n]
    w.wcs.cunit = ['Angstrom','s','Hz',''][:n]
    w.wcs.cdelt = [0.2,0.5,3,1][:n]
    w.wcs.crpix = [0,1,2,1][:n]
    w.wcs.crval = [10,0,5,1][:n]
    if shape: w.array_shape = shape
    return w
def tryit(label, f):
    try:
        r = f()
        print(label, "->", r)
        return r
    except Exception as e:
        print(label, "RAISED", type(e).__name__, str(e)[:200])
