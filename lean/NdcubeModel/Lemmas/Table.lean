import NdcubeModel.Model.Table

namespace Ndcube

theorem filter_range_lt (n m : Nat) (h : m ≤ n) : (List.range n).filter (fun k => decide (k < m)) = List.range m := by
  induction n with
  | zero => have : m = 0 := by omega
            subst this; rfl
  | succ n ih =>
    rw [List.range_succ, List.filter_append]
    by_cases hm : m ≤ n
    · rw [ih hm]
      have : ¬ (n < m) := by omega
      simp [this]
    · have hm' : m = n + 1 := by omega
      subst hm'
      have h1 : (List.range n).filter (fun k => decide (k < n + 1)) = List.range n := by
        apply List.filter_eq_self.mpr
        intro k hk
        have := List.mem_range.mp hk
        simp; omega
      rw [h1, List.range_succ]
      simp

end Ndcube
