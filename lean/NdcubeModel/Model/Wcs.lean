import NdcubeModel.Model.NdIndex

/-!
# Abstract low-level WCS and astropy's `SlicedLowLevelWCS`

`LLWcs ω` is an APE-14 low-level WCS whose coordinate functions are *parameters*: every
theorem is stated `∀ w : LLWcs ω`, so it covers every WCS family.  Pixel vectors are in WCS
(pixel) order, i.e. reversed array order, exactly as in astropy.
-/

namespace Ndcube

structure LLWcs (ω : Type) where
  pixDim   : Nat
  worldDim : Nat
  /-- pixel (WCS order) → world values -/
  p2w      : List Rat → List ω
  /-- world values → pixel (WCS order) -/
  w2p      : List ω → List Rat
  /-- `axis_correlation_matrix`: `worldDim` rows of `pixDim` booleans -/
  corr     : List (List Bool)
  /-- `array_shape` (numpy order), may be absent -/
  shape    : Option (List Nat)

/-- `convert_between_array_and_pixel_axes`: reflection `n-1-a`. -/
def reflectAxis (n a : Nat) : Nat := n - 1 - a

/-- Select the listed positions of a list (positions out of range are skipped). -/
def selectIdx {α} (idx : List Nat) (l : List α) : List α := idx.filterMap fun i => l[i]?

def corrAt (corr : List (List Bool)) (iw ip : Nat) : Bool := (corr.getD iw []).getD ip false

/-! ## SlicedLowLevelWCS over a non-sliced base

`slices` are the sanitised, non-negative items in **pixel** order (`_slices_pixel`). -/

/-- `_pixel_keep`: positions (counted from `k`) of the items that are not integers. -/
def pixelKeepFrom (k : Nat) : List Item → List Nat
  | [] => []
  | it :: its => if it.isInt then pixelKeepFrom (k + 1) its else k :: pixelKeepFrom (k + 1) its

/-- `_pixel_keep`: pixel axes whose item is not an integer. -/
def pixelKeep (slices : List Item) : List Nat := pixelKeepFrom 0 slices

/-- `_world_keep`: world axes correlated with at least one kept pixel axis. -/
def worldKeep (corr : List (List Bool)) (worldDim : Nat) (pk : List Nat) : List Nat :=
  (List.range worldDim).filter fun iw => pk.any fun ip => corrAt corr iw ip

/-- The start a slice item adds to the pixel coordinate (0 for `None`). -/
def Item.startOff : Item → Int
  | .slice (.some s) _ _ => s
  | _ => 0

/-- `_pixel_to_world_values_all`: the pixel vector handed to the underlying WCS.  Both lists
are in the same (pixel) order; `q` has one entry per kept (non-integer) axis. -/
def underPix : List Item → List Rat → List Rat
  | [], _ => []
  | .int i :: its, q => (i : Rat) :: underPix its q
  | it :: its, q => (q.headD 0 + (it.startOff : Rat)) :: underPix its q.tail

/-- numpy's shape of `broadcast_to(0, shape)[slices]` (array order for both). -/
def slicedShape : List Nat → List Item → List Nat
  | _ :: ns, .int _ :: its => slicedShape ns its
  | n :: ns, .slice s e _ :: its =>
      let (lo, hi) := sliceBounds n s e
      (hi - lo) :: slicedShape ns its
  | _, _ => []

/-- `SlicedLowLevelWCS(w, slices)` with `slicesArr` in array order; `ValueError` when no
pixel or no world axis would be left. -/
def slicedWcs {ω} (w : LLWcs ω) (slicesArr : List Item) : Except Err (LLWcs ω) :=
  let sp := slicesArr.reverse
  let pk := pixelKeep sp
  let wk := worldKeep w.corr w.worldDim pk
  if pk.length = 0 ∨ wk.length = 0 then .error .valueError else
  .ok { pixDim := pk.length
        worldDim := wk.length
        p2w := fun q => selectIdx wk (w.p2w (underPix sp q))
        w2p := fun _ => []   -- the inverse of a sliced WCS is modelled in `Crop.lean`
        corr := wk.map fun iw => pk.map fun ip => corrAt w.corr iw ip
        shape := w.shape.map fun sh => slicedShape sh slicesArr }

/-- World values of the dropped world axes (`dropped_world_dimensions["value"]`): the base
evaluated with 0 on every kept pixel axis. -/
def droppedWorld {ω} (w : LLWcs ω) (slicesArr : List Item) : List (Nat × ω) :=
  let sp := slicesArr.reverse
  let pk := pixelKeep sp
  let wk := worldKeep w.corr w.worldDim pk
  let all := w.p2w (underPix sp (List.replicate pk.length 0))
  ((List.range w.worldDim).filter fun i => !wk.contains i).filterMap fun i =>
    (all[i]?).map fun v => (i, v)

/-! ## `combine_slices` (re-slicing an already sliced WCS) -/

/-- astropy's `combine_slices(slice1, slice2)`; `slice1` is never an int. -/
def combineSlices : Item → Item → Except Err Item
  | .slice s1 e1 st1, it2 =>
    if st1.isSome then .error .valueError else
    match it2 with
    | .int i2 =>
      match s1 with
      | .none => .ok (.int i2)
      | .some a => .ok (.int (i2 + a))
    | .slice s2 e2 st2 =>
      if st2.isSome then .error .valueError else
      match s1 with
      | .none =>
        match e1 with
        | .none => .ok (.slice s2 e2 .none)
        | .some b1 =>
          match e2 with
          | .none => .ok (.slice s2 (.some b1) .none)
          | .some b2 => .ok (.slice s2 (.some (min b1 b2)) .none)
      | .some a =>
        let start : Int := match s2 with
          | .none => a
          | .some a2 => a + a2
        let stop : Option Int := match e2 with
          | .none => e1
          | .some b2 =>
            match e1 with
            | .none => .some (b2 + a)
            | .some b1 => .some (min b1 (b2 + a))
        .ok (.slice (.some start) stop .none)
    | _ => .error .indexError
  | _, _ => .error .indexError

/-- Slices array (array order) of `SlicedLowLevelWCS(SlicedLowLevelWCS(w, orig), new)`:
each non-integer entry of `orig` is combined with the next entry of `new`. -/
def combineSlicesArr : List Item → List Item → Except Err (List Item)
  | [], _ => .ok []
  | .int i :: os, ns => do
    let rest ← combineSlicesArr os ns
    pure (.int i :: rest)
  | o :: os, n :: ns => do
    let c ← combineSlices o n
    let rest ← combineSlicesArr os ns
    pure (c :: rest)
  | _ :: _, [] => .error .indexError

end Ndcube
