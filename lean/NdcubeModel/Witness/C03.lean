import NdcubeModel.Props.C03

/-! Non-vacuity for C03: a truthful WCS with a coupled pair, and slices that drop / keep it. -/
namespace Ndcube.C03.Witness
open Ndcube

/-- world 0 = pixel 0; worlds 1, 2 are a coupled pair over pixels 1 and 2 -/
def w0 : LLWcs Rat :=
  { pixDim := 3, worldDim := 3
    p2w := fun p => [p.getD 0 0, p.getD 1 0 + p.getD 2 0, p.getD 1 0 - p.getD 2 0]
    w2p := fun _ => []
    corr := [[true, false, false], [false, true, true], [false, true, true]]
    shape := some [3, 4, 5] }

theorem w0_truthful : C05.Truthful w0 := by
  intro i p p' hp hp' h
  have h0 := h 0; have h1 := h 1; have h2 := h 2
  match i with
  | 0 =>
    have := h0 (by decide) (by decide)
    simp [w0, List.getD, this]
  | 1 =>
    have a := h1 (by decide) (by decide); have b := h2 (by decide) (by decide)
    simp [w0, List.getD, a, b]
  | 2 =>
    have a := h1 (by decide) (by decide); have b := h2 (by decide) (by decide)
    simp [w0, List.getD, a, b]
  | n + 3 => simp [w0]

/-- array-order items `[1, 2, :]`: both pixel axes of the coupled pair are integers -/
def sl0 : List Item := [.int 1, .int 2, Item.all]

example : sl0.length = w0.pixDim ∧ (1 ∉ worldKeep w0.corr w0.worldDim (pixelKeep sl0.reverse)) ∧
    (2 ∉ worldKeep w0.corr w0.worldDim (pixelKeep sl0.reverse)) ∧
    (0 ∈ worldKeep w0.corr w0.worldDim (pixelKeep sl0.reverse)) := by decide

example : (droppedWorld w0 sl0) = [(1, 3), (2, 1)] := by decide +kernel

/-- only one axis of the pair indexed away: the pair is not listed -/
example : droppedWorld w0 [.int 1, Item.all, Item.all] = [] := by decide +kernel

example : (({ internal := [] } : GlobalCoordsM).add "a" "custom:a" (fun _ => true)).toOption.map (·.internal)
    = some [("a", "custom:a")] := by decide

end Ndcube.C03.Witness
