import NdcubeModel.Props.C12

/-! Non-vacuity for C12: concrete cubes on which the hypotheses hold and the code path is the
three-part one (first / middle / last cube). -/
namespace Ndcube.C12.Witness
open Ndcube

def cubes : List (List Nat) := [[10, 11], [20, 21, 22], [30], [40, 41]]

example : (iacPieces (cubes.map List.length) 1 7).toOption =
    some [⟨0, some 1, none⟩, ⟨1, none, none⟩, ⟨2, none, none⟩, ⟨3, some 0, some 1⟩] := by decide
example : ((([⟨0, some 1, none⟩, ⟨1, none, none⟩, ⟨2, none, none⟩, ⟨3, some 0, some 1⟩] : List Piece).map
    (applyPiece cubes)).flatten) = pySlice cubes.flatten (some (-7)) (some 7) := by decide
example : locate (cubes.map List.length) 5 = some (2, 0) := by decide
example : ∀ c ∈ cubes, c ≠ [] := by decide
/-- the pre-fix behaviour (negative index resolved against the first cube) is *not* what the
concatenation gives: -1 is the last element of the last cube. -/
example : cubes.flatten[(7 : Nat)]? = some 41 ∧ (cubes.getD 0 [])[(1 : Nat)]? = some 11 := by decide

end Ndcube.C12.Witness
