import NdcubeModel.Model.ExtraCoords
import NdcubeModel.Props.C05

/-!
# C03 — coordinates dropped by slicing survive as global coordinates
-/

namespace Ndcube.C03
open Ndcube

theorem underPix_length (sp : List Item) (q : List Rat) : (underPix sp q).length = sp.length := by
  induction sp generalizing q with
  | nil => rfl
  | cons it its ih =>
    cases it <;> simp [underPix, ih]

/-- an integer item fixes its pixel coordinate, whatever the free coordinates are -/
theorem underPix_int (sp : List Item) (q : List Rat) (k : Nat) (i : Int) (h : sp[k]? = some (.int i)) :
    (underPix sp q)[k]? = some (i : Rat) := by
  induction sp generalizing q k with
  | nil => simp at h
  | cons it its ih =>
    cases k with
    | zero =>
      simp only [List.getElem?_cons_zero, Option.some.injEq] at h
      subst h; simp [underPix]
    | succ k =>
      simp only [List.getElem?_cons_succ] at h
      cases it <;> simp [underPix, ih _ k h]

theorem pixelKeepFrom_mem (sp : List Item) (s k : Nat) :
    k ∈ pixelKeepFrom s sp ↔ ∃ j, k = s + j ∧ ∃ it, sp[j]? = some it ∧ it.isInt = false := by
  induction sp generalizing s with
  | nil => simp [pixelKeepFrom]
  | cons it its ih =>
    simp only [pixelKeepFrom]
    by_cases hi : it.isInt = true
    · simp only [hi, if_true, ih (s + 1)]
      constructor
      · rintro ⟨j, rfl, it', h1, h2⟩
        exact ⟨j + 1, by omega, it', by simpa using h1, h2⟩
      · rintro ⟨j, rfl, it', h1, h2⟩
        cases j with
        | zero => simp at h1; subst h1; simp [hi] at h2
        | succ j => exact ⟨j, by omega, it', by simpa using h1, h2⟩
    · have hi' : it.isInt = false := by simpa using hi
      simp only [hi', Bool.false_eq_true, if_false, List.mem_cons, ih (s + 1)]
      constructor
      · rintro (rfl | ⟨j, rfl, it', h1, h2⟩)
        · exact ⟨0, by omega, it, by simp, hi'⟩
        · exact ⟨j + 1, by omega, it', by simpa using h1, h2⟩
      · rintro ⟨j, rfl, it', h1, h2⟩
        cases j with
        | zero => left; omega
        | succ j => right; exact ⟨j, by omega, it', by simpa using h1, h2⟩

/-- **Value of a dropped world coordinate.**  If world axis `i` is not kept by the slice (none of
its pixel axes survives) then, under a truthful correlation matrix, the WCS gives the *same*
value for it at every position of the sliced cube: the value recorded in `global_coords`
(computed with zeros on the surviving axes) is the value at the indices that were sliced away,
independently of where on the surviving axes one looks. -/
theorem dropped_value {ω} (w : LLWcs ω) (hT : C05.Truthful w) (slicesArr : List Item)
    (hlen : slicesArr.length = w.pixDim)
    (hint : ∀ it ∈ slicesArr, it.isInt = true ∨ ∃ s e st, it = .slice s e st)
    (i : Nat) (hi : i ∉ worldKeep w.corr w.worldDim (pixelKeep slicesArr.reverse)) (hiw : i < w.worldDim)
    (q q' : List Rat) :
    (w.p2w (underPix slicesArr.reverse q))[i]? = (w.p2w (underPix slicesArr.reverse q'))[i]? := by
  apply hT i _ _ (by rw [underPix_length]; simpa using hlen) (by rw [underPix_length]; simpa using hlen)
  intro k hk hcorr
  -- pixel axis k is correlated with a dropped world axis, hence it is not kept: its item is an int
  have hnotkeep : k ∉ pixelKeep slicesArr.reverse := by
    intro hmem
    apply hi
    simp only [worldKeep, List.mem_filter, List.mem_range, List.any_eq_true]
    exact ⟨hiw, k, hmem, hcorr⟩
  have hklt : k < slicesArr.reverse.length := by simpa [hlen] using hk
  have hitem : ∃ n : Int, slicesArr.reverse[k]? = some (.int n) := by
    have hget := List.getElem?_eq_getElem hklt
    have hmemit : slicesArr.reverse[k] ∈ slicesArr := List.mem_reverse.mp (List.getElem_mem hklt)
    rcases hint _ hmemit with hisint | ⟨s, e, st, hs⟩
    · cases hx : slicesArr.reverse[k] with
      | int n => exact ⟨n, by rw [hget, hx]⟩
      | slice _ _ _ => rw [hx] at hisint; simp [Item.isInt] at hisint
      | ellipsis => rw [hx] at hisint; simp [Item.isInt] at hisint
      | none => rw [hx] at hisint; simp [Item.isInt] at hisint
    · exfalso
      apply hnotkeep
      simp only [pixelKeep]
      rw [pixelKeepFrom_mem]
      exact ⟨k, by omega, _, hget, by rw [hs]; rfl⟩
  obtain ⟨n, hn⟩ := hitem
  rw [underPix_int _ q k n hn, underPix_int _ q' k n hn]

/-- **Listed iff nothing survives**: a world coordinate of the primary WCS is listed as dropped
exactly when none of the pixel axes it is correlated with is kept by the slice — so when only
one axis of a coupled pair is indexed away the pair is *not* listed. -/
theorem dropped_iff (corr : List (List Bool)) (worldDim : Nat) (pk : List Nat) (i : Nat) (hi : i < worldDim) :
    i ∉ worldKeep corr worldDim pk ↔ ∀ k ∈ pk, corrAt corr i k = false := by
  simp only [worldKeep, List.mem_filter, List.mem_range, hi, true_and, List.any_eq_true, not_exists,
    not_and, Bool.not_eq_true]

/-- **User coordinates**: adding a coordinate makes it present with its physical type; a duplicate
name or an invalid physical type is refused and nothing changes; removing deletes exactly that
name. -/
theorem add_remove (g : GlobalCoordsM) (name ptype : String) (valid : String → Bool) :
    (g.internal.any (·.1 == name) = true → g.add name ptype valid = .error .valueError) ∧
    (g.internal.any (·.1 == name) = false → valid ptype = false → g.add name ptype valid = .error .valueError) ∧
    (g.internal.any (·.1 == name) = false → valid ptype = true →
      g.add name ptype valid = .ok { internal := g.internal ++ [(name, ptype)] }) ∧
    (g.internal.any (·.1 == name) = false → g.remove name = .error .keyError) := by
  refine ⟨?_, ?_, ?_, ?_⟩
  · intro h; simp [GlobalCoordsM.add, h]
  · intro h1 h2; simp [GlobalCoordsM.add, h1, h2]
  · intro h1 h2; simp [GlobalCoordsM.add, h1, h2]
  · intro h; simp [GlobalCoordsM.remove, h]

/-- Removing a name leaves every other user coordinate as it was, in order. -/
theorem remove_others (g g' : GlobalCoordsM) (name : String) (h : g.remove name = .ok g') :
    g'.internal = g.internal.filter (·.1 != name) := by
  simp only [GlobalCoordsM.remove] at h
  split at h
  · cases h; rfl
  · cases h

end Ndcube.C03
