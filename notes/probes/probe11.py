from common import *
import itertools
def closed(d, un, m, op, ignores):
    # d,un,m: blocks along axis0 (members), returns std
    d=d.astype(float); 
    if ignores or m is None: mm = np.zeros(d.shape,bool)
    else: mm = m.copy()
    if op in (np.nansum, np.nanmean): mm = mm | np.isnan(d)
    v = np.where(mm, 0, un**2).sum(axis=0)
    if op in (np.mean, np.nanmean):
        n = (~mm).sum(axis=0); return np.sqrt(v)/np.clip(n,1,None)
    return np.sqrt(v)
bad=0; tot=0
rng = np.random.default_rng(0)
for trial in range(60):
    n = 4
    d = rng.integers(1,9,size=(n,)).astype(float)
    un = rng.integers(1,5,size=(n,)).astype(float)
    m = rng.random(n)<0.4
    nanpos = rng.integers(-1,n)
    for op in (np.sum,np.mean,np.nansum,np.nanmean):
        for ign in (False,True):
            for usemask in (None,'arr'):
                dd = d.copy()
                if op in (np.nansum,np.nanmean) and nanpos>=0: dd[nanpos]=np.nan
                mask = None if usemask is None else m.copy()
                if mask is not None and mask.all() : continue
                c = NDCube(dd.copy(), wcs=wlin(1,(n,)), uncertainty=StdDevUncertainty(un.copy()), mask=mask)
                try:
                    r = c.rebin((n,), operation=op, operation_ignores_mask=ign, propagate_uncertainties=True)
                    got = r.uncertainty.array
                except Exception as e:
                    got = f"ERR {type(e).__name__} {e}"
                exp = closed(dd.reshape(n,1), un.reshape(n,1), None if mask is None else mask.reshape(n,1), op, ign)
                tot+=1
                ok = (not isinstance(got,str)) and np.allclose(got, exp, equal_nan=True)
                if not ok:
                    bad+=1
                    if bad<12: print(op.__name__, ign, usemask, dd, un, mask, "got", got, "exp", exp)
print(bad, tot)
