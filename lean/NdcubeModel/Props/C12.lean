import NdcubeModel.Lemmas.Seq
import NdcubeModel.Lemmas.Index

/-!
# C12 — index_as_cube behaves like indexing the concatenation along the common axis

The 1-D statements are about lists of cubes `cubes : List (List α)` (the common axis of each
cube) and their concatenation `cubes.flatten`; all lengths, all numbers of cubes, all integer
and slice bounds in ℤ ∪ {None}.  The N-d statement follows because the items of the other
axes are handed unchanged to every piece (`iac_other_axes`) and every piece is a C01 slice of
its source cube.
-/

namespace Ndcube.C12
open Ndcube
variable {α : Type}

/-- **Integer on the common axis**: for `-L ≤ i < L` the code's decomposition names a cube `s`
and an offset `o` inside it, and element `o` of cube `s` is element `i mod L` of the
concatenation. -/
theorem iac_int (cubes : List (List α)) (i : Int)
    (h : -((cubes.map List.length).sum : Int) ≤ i ∧ i < (cubes.map List.length).sum) :
    let total := (cubes.map List.length).sum
    let i' : Nat := (if i < 0 then i + total else i).toNat
    ∃ s o, locate (cubes.map List.length) i' = some (s, o) ∧ s < cubes.length ∧
      o < (cubes.getD s []).length ∧ cubes.flatten[i']? = (cubes.getD s [])[o]? ∧
      normIndex total i = .ok i' := by
  intro total i'
  have hi' : i' < total := by
    simp only [i', total]; split <;> omega
  obtain ⟨s, o, hloc, hs, ho, _⟩ := locate_spec (cubes.map List.length) i' hi'
  refine ⟨s, o, hloc, by simpa using hs, ?_, getElem_flatten_locate cubes i' s o hloc, ?_⟩
  · have hs' : s < cubes.length := by simpa using hs
    simpa [List.getD, List.getElem?_map, List.getElem?_eq_getElem hs'] using ho
  · simp only [normIndex, i', total]
    by_cases h0 : 0 ≤ i
    · have : ¬ (i < 0) := by omega
      simp [h0, this, h.2]
    · have : i < 0 := by omega
      simp [h0, this, h.1]

/-- Positions past either end have no cube: the model (like the repaired code) raises
`IndexError`. -/
theorem iac_int_out_of_range (s : Seq) (ca : Nat) (item : List Item) (i : Int)
    (hca : s.commonAxis = some ca) (hit : item.getD ca Item.all = .int i)
    (hlen : item.length = s.ndimCube)
    (hout : ¬ (-(((s.shapes.map fun sh => sh.getD ca 0).sum : Nat) : Int) ≤ i ∧
               i < ((s.shapes.map fun sh => sh.getD ca 0).sum : Nat))) :
    iacGetitem s (.tuple item) = .error .indexError := by
  simp only [iacGetitem, hca, hlen, Nat.sub_self, List.replicate_zero, List.append_nil, hit]
  have : ¬ (Item.int i = Item.all) := by simp [Item.all]
  rw [if_neg this, if_pos hout]

/-- Steps other than 1 on the common axis are refused, not ignored. -/
theorem iac_step_refused (s : Seq) (ca : Nat) (item : List Item) (a b : Option Int) (k : Int)
    (hca : s.commonAxis = some ca) (hit : item.getD ca Item.all = .slice a b (some k))
    (hlen : item.length = s.ndimCube) (hk : k ≠ 1) :
    iacGetitem s (.tuple item) = .error .indexError := by
  simp only [iacGetitem, hca, hlen, Nat.sub_self, List.replicate_zero, List.append_nil, hit]
  have : ¬ (Item.slice a b (some k) = Item.all) := by simp [Item.all]
  rw [if_neg this]
  simp [hk]

/-- **Slice on the common axis** (the heart of C12): for every start / stop in ℤ ∪ {None},
with `(lo, hi)` the numpy-normalised bounds against the concatenated length: if the range is
empty numpy's result is empty (and the code returns no cube); otherwise the pieces the code
builds, applied to their cubes and joined in order, are exactly numpy's slice of the
concatenation. -/
theorem iac_slice_concat (cubes : List (List α)) (start stop : Option Int) :
    let total := (cubes.map List.length).sum
    let lo := (sliceBounds total start stop).1
    let hi := (sliceBounds total start stop).2
    (hi ≤ lo → pySlice cubes.flatten start stop = []) ∧
    (lo < hi → ∃ ps, iacPieces (cubes.map List.length) lo hi = .ok ps ∧
        (ps.map (applyPiece cubes)).flatten = pySlice cubes.flatten start stop) := by
  intro total lo hi
  have hlen : cubes.flatten.length = total := by simp [total, List.length_flatten]
  have hhi : hi ≤ total := clampBound_le total stop total (Nat.le_refl _)
  constructor
  · intro h
    simp only [pySlice, hlen]
    have : (sliceBounds total start stop).2 - (sliceBounds total start stop).1 = 0 := by
      simp only [lo, hi] at h; omega
    simp [this]
  · intro h
    obtain ⟨ps, hps, hflat⟩ := iacPieces_concat cubes lo hi h hhi
    exact ⟨ps, hps, by simp only [pySlice, hlen]; exact hflat⟩

/-- **Members**: when no cube is empty, every piece contributes at least one element and the
pieces name strictly increasing cubes — so exactly the contributing cubes appear, in order. -/
theorem iac_slice_members (cubes : List (List α)) (lo hi : Nat) (h1 : lo < hi)
    (h2 : hi ≤ (cubes.map List.length).sum) (hne : ∀ c ∈ cubes, c ≠ [])
    (ps : List Piece) (hps : iacPieces (cubes.map List.length) lo hi = .ok ps) :
    (ps.map Piece.cube).Pairwise (· < ·) ∧ ∀ p ∈ ps, applyPiece cubes p ≠ [] := by
  obtain ⟨s0, o0, hl0, hs0, ho0, hsum0⟩ := locate_spec (cubes.map List.length) lo (by omega)
  obtain ⟨s1, o1, hl1, hs1, ho1, hsum1⟩ := locate_spec (cubes.map List.length) (hi - 1) (by omega)
  have hmono := locate_mono _ lo (hi - 1) s0 o0 s1 o1 (by omega) hl0 hl1
  simp only [List.length_map] at hs0 hs1
  have hget : ∀ k, k < cubes.length → (cubes.map List.length).getD k 0 = (cubes.getD k []).length := by
    intro k hk
    simp [List.getD, List.getElem?_map, List.getElem?_eq_getElem hk]
  rw [hget s0 hs0] at ho0
  rw [hget s1 hs1] at ho1
  simp only [iacPieces, hl0, hl1] at hps
  split at hps
  · -- one cube
    rename_i heq
    cases hps
    have hs : s0 = s1 := by omega
    subst hs
    have ho : o0 ≤ o1 := by omega
    refine ⟨by simp, ?_⟩
    intro p hp
    simp only [List.mem_singleton] at hp
    subst hp
    simp only [applyPiece, Option.getD_some, ne_eq]
    intro hnil
    have := congrArg List.length hnil
    simp only [List.length_take, List.length_drop, List.length_nil] at this
    omega
  · rename_i hneq
    cases hps
    have hlt : s0 < s1 := by omega
    constructor
    · have hn : s1 = s0 + 1 + (s1 - s0 - 1) := by omega
      have := chain_sorted s0 (s1 - s0 - 1)
      rw [← hn] at this
      simpa [List.map_append, List.map_map, Function.comp_def] using this
    · intro p hp
      simp only [List.mem_append, List.mem_singleton, List.mem_map, List.mem_range, List.mem_cons,
        List.not_mem_nil, or_false] at hp
      rcases hp with (rfl | ⟨k, hk, rfl⟩) | rfl
      · simp only [applyPiece, Option.getD_some, Option.getD_none, ne_eq]
        intro hnil
        have := congrArg List.length hnil
        simp only [List.length_take, List.length_drop, List.length_nil] at this
        omega
      · have hk' : s0 + 1 + k < cubes.length := by omega
        have hmem : cubes.getD (s0 + 1 + k) [] ∈ cubes := by
          simp [List.getD, List.getElem?_eq_getElem hk']
        have := hne _ hmem
        simp only [applyPiece, Option.getD_none, List.drop_zero, Nat.sub_zero, List.take_length, ne_eq]
        exact this
      · simp only [applyPiece, Option.getD_some, List.drop_zero, Nat.sub_zero, ne_eq]
        intro hnil
        have := congrArg List.length hnil
        simp only [List.length_take, List.length_nil] at this
        omega

/-- **Other axes**: each piece's item is the user's item with only the common-axis entry
replaced, so the items of the other axes reach every cube unchanged. -/
theorem iac_other_axes (item : List Item) (ca : Nat) (p : Piece) (j : Nat) (hj : j ≠ ca) :
    (item.set ca p.item).getD j Item.all = item.getD j Item.all := by
  simp [List.getD, List.getElem?_set, Ne.symm hj]

/-- The item a piece applies on the common axis is the Python slice it stands for:
`cube[piece.item]` keeps `cube[lo:hi]`. -/
theorem piece_item_spec (c : List α) (p : Piece) :
    (match p.item with
      | .slice a b _ => pySlice c a b
      | _ => []) = applyPiece [c] { p with cube := 0 } := by
  simp only [Piece.item, applyPiece, List.getD_cons_zero]
  exact pySlice_nat c p.lo p.hi

end Ndcube.C12
