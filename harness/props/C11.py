"""C11 — sequence slicing and exploding equal doing it to the list and to every cube."""
import random
import numpy as np

import common as C
from core import err_kind

ID = "C11"
MODEL_OP = "seq_getitem / seq_explode / seq_shape"
RULE = ("sequences of 1-4 cubes of 1-3 dims, equal or ragged along the common axis, common axis any axis or None; "
        "indices over (sequence axis + cube axes): ints of both signs (also out of range), slices with any step on the "
        "sequence axis, Ellipsis at any position, short tuples, bare items; explode along every axis (negative too); "
        "two-step chains (slice/explode then slice/explode). Non-trivial = not the identity index; distinct = "
        "(shapes, common axis, operation, index/axis, second step)")
TRUSTED = ["Python list indexing and numpy indexing as references", "C01 for the per-cube effect of an item"]
ASSUMPTIONS = ["cubes of a sequence differ in length only along the common axis",
               "shape/cube_like_shape are observed on non-empty results only"]


def corpus():
    return C.read_corpus(ID)


def gen_seq(rng):
    n = rng.randint(1, 4)
    nd = rng.randint(1, 3)
    ca = rng.choice([None] + list(range(nd)))
    base = [rng.randint(1, 3) for _ in range(nd)]
    shapes = []
    for _ in range(n):
        sh = list(base)
        if ca is not None and rng.random() < 0.6:
            sh[ca] = rng.randint(1, 4)
        shapes.append(sh)
    return shapes, ca


def seq_axis_item(rng, n):
    n = max(n, 1)
    r = rng.random()
    if r < 0.3:
        return rng.randint(-n - 1, n)
    if r < 0.45:
        return C.sl()
    step = rng.choice([None, None, 1, 2, -1, -2, 3])
    return C.sl(C.gen_bound(rng, n), C.gen_bound(rng, n), step)


def cube_axis_item(rng, n):
    n = max(n, 1)
    r = rng.random()
    if r < 0.3:
        return rng.randint(-n, n - 1)
    if r < 0.5:
        return C.sl()
    return C.sl(C.gen_bound(rng, n, 1), C.gen_bound(rng, n, 1))


def gen_index(rng, shapes):
    n, nd = len(shapes), len(shapes[0])
    r = rng.random()
    if r < 0.15:
        return {"single": seq_axis_item(rng, n)}
    if r < 0.2:
        return {"single": "..."}
    items = [seq_axis_item(rng, n)] + [cube_axis_item(rng, min(s[a] for s in shapes)) for a in range(nd)]
    r = rng.random()
    if r < 0.3:
        i = rng.randrange(len(items) + 1)
        j = rng.randint(i, len(items))
        items = items[:i] + ["..."] + items[j:]
    elif r < 0.55:
        items = items[:rng.randint(1, len(items))]
    return {"tuple": items}


def gen_step(rng, shapes, ca):
    if rng.random() < 0.3:
        nd = len(shapes[0])
        return {"op": "explode", "axis": rng.randint(-nd, nd - 1)}
    return {"op": "getitem", "index": gen_index(rng, shapes)}


def generate(rng, tier):
    n = 1500 if tier == "quick" else 150000
    for _ in range(n):
        shapes, ca = gen_seq(rng)
        case = {"shapes": shapes, "ca": ca, "fam": rng.choice(["probe", "probe", "fits_sep", "probe_coupled"]),
                "wseed": rng.randrange(10**6), "step1": gen_step(rng, shapes, ca), "step2": None}
        if rng.random() < 0.25:
            case["step2"] = {"seed": rng.randrange(10**6)}
        yield case
    # systematic small part: every sequence-axis item for 3 cubes, Ellipsis positions for 2-D cubes
    shapes = [[2, 2], [3, 2], [1, 2]]
    for ca in (None, 0, 1):
        sh = shapes if ca == 0 else [[2, 2]] * 3
        bounds = [None, -4, -3, -1, 0, 1, 3, 4]
        for a in bounds:
            for b in bounds:
                for st in (None, 2, -1):
                    yield {"shapes": sh, "ca": ca, "fam": "probe", "wseed": 1, "step2": None,
                           "step1": {"op": "getitem", "index": {"tuple": [C.sl(a, b, st), C.sl(), 0]}}}
        for items in (["...", 0], [C.sl(), "...", 0], ["...", 0, C.sl()], [0, "..."], ["..."], [C.sl(), 0, "..."],
                      ["...", C.sl(), 0, 0], [C.sl(0, 2), "...", 1]):
            yield {"shapes": sh, "ca": ca, "fam": "probe", "wseed": 1, "step2": None,
                   "step1": {"op": "getitem", "index": {"tuple": items}}}
        for ax in (-2, -1, 0, 1):
            yield {"shapes": sh, "ca": ca, "fam": "probe", "wseed": 1, "step2": None, "step1": {"op": "explode", "axis": ax}}

    # 3-D cubes, every common axis, items that stop short of the common axis or drop axes in front of it (and their
    # full-length and Ellipsis spellings): the common axis of the result moves down by the axes dropped before it
    sh3 = [[2, 3, 4], [2, 3, 2], [2, 3, 3]]
    for ca in (None, 0, 1, 2):
        sh = sh3 if ca == 2 else ([[4, 3, 2], [2, 3, 2], [3, 3, 2]] if ca == 0 else ([[2, 4, 3], [2, 2, 3], [2, 3, 3]] if ca == 1 else [[2, 3, 4]] * 3))
        for items in ([C.sl(), 1], [C.sl(0, 3), -1], [C.sl(), C.sl(), 1], [C.sl(), 1, 0], [C.sl(), 1, C.sl(), C.sl()],
                      [C.sl(), 1, "..."], [C.sl(1, None), C.sl(), 1, C.sl()], [C.sl(), 0, 1], [C.sl(), C.sl(0, 1), 1]):
            yield {"shapes": sh, "ca": ca, "fam": "probe", "wseed": 1, "step2": None,
                   "step1": {"op": "getitem", "index": {"tuple": items}}}


# ---------------------------------------------------------------- oracle helpers
def expand(items, total):
    """Independent Ellipsis expansion (oracle side)."""
    if items.count("...") > 1:
        return None
    if "..." in items:
        i = items.index("...")
        items = items[:i] + [C.sl()] * (total - (len(items) - 1)) + items[i + 1:]
    return items


def describe(seq_like):
    """Canonical description of an implementation result (cube or sequence)."""
    from ndcube import NDCube
    if isinstance(seq_like, NDCube):
        return {"kind": "cube", "pieces": [piece_of(seq_like)]}
    d = {"kind": "seq", "pieces": [piece_of(c) for c in seq_like.data], "commonAxis": seq_like._common_axis}
    return d


def piece_of(c):
    a = np.asarray(C.materialize(c.data))
    return {"shape": list(a.shape), "flat": a.ravel().tolist()}


def check_shapes(seq, fails):
    """shape / cube_like_shape / array_axis_physical_types describe the cubes actually held."""
    cubes = seq.data
    if not cubes:
        return
    first = list(cubes[0].data.shape)
    exp = [len(cubes)] + first
    ca = seq._common_axis
    if ca is not None and ca < len(first):
        lens = [c.data.shape[ca] for c in cubes]
        if len(set(lens)) != 1:
            exp[ca + 1] = tuple(lens)
    got = list(seq.shape)
    if [tuple(x) if isinstance(x, tuple) else int(x) for x in got] != exp:
        fails.append(f"shape {got} does not describe the cubes held {exp}")
    if ca is not None and ca < len(first):
        cl = list(first); cl[ca] = sum(c.data.shape[ca] for c in cubes)
        if [int(x) for x in seq.cube_like_shape] != cl:
            fails.append(f"cube_like_shape {seq.cube_like_shape} != {cl}")
    aapt = seq.array_axis_physical_types
    if aapt[0] != ("meta.obs.sequence",) or list(aapt[1:]) != list(cubes[0].array_axis_physical_types):
        fails.append("array_axis_physical_types does not describe the cubes held")


NPINT = [False]          # set per case by run(): integers of a tuple index are passed as numpy integers


def apply_step(seq, cubes_src, step, rng, exact):
    """Run one step on the implementation and evaluate the oracle for it.
    Returns (result or None, err or None, failure or None, model_req)."""
    from ndcube import NDCube, NDCubeSequence
    cubes = list(seq.data)
    n = len(cubes)
    nd = cubes[0].data.ndim if cubes else 0
    ca = seq._common_axis
    shapes = [list(c.data.shape) for c in cubes]
    mseq = {"shapes": shapes, "commonAxis": ca}
    fails = []
    if step["op"] == "explode":
        ax = step["axis"]
        req = {"op": "seq_explode", "seq": mseq, "axis": ax}
        try:
            out, err = seq.explode_along_axis(np.int64(ax) if NPINT[0] else ax), None
        except Exception as e:
            out, err = None, err_kind(e)
        a = ax + nd if ax < 0 else ax
        if nd <= 1 and any(c.data.shape[a] > 0 for c in cubes):
            if err is None:
                fails.append("exploding 1-D cubes returned a result (scalar cubes are not supported)")
            return out, err, "; ".join(fails) or None, req
        if err:
            return None, err, f"explode_along_axis({ax}) raised {err}", req
        exp = [(k, i) for k, c in enumerate(cubes) for i in range(c.data.shape[a])]
        if len(out.data) != len(exp):
            fails.append(f"explode returned {len(out.data)} cubes, expected {len(exp)} (every slice of every cube)")
        if type(out) is not type(seq):
            fails.append(f"explode_along_axis({ax}) returned a {type(out).__name__}, the sequence is a {type(seq).__name__}")
        else:
            for (k, i), got in zip(exp, out.data):
                want = cubes[k].data[(slice(None),) * a + (i,)]
                if got.data.shape != want.shape or not np.array_equal(got.data, want):
                    fails.append(f"exploded piece for cube {k} index {i} holds other data"); break
        eca = None if (ca is None or ca == a) else (ca - 1 if ca > a else ca)
        if out._common_axis != eca:
            fails.append(f"common axis after explode {out._common_axis}, expected {eca}")
        if out.meta is not seq.meta:
            fails.append("sequence meta not kept by explode")
        return out, None, "; ".join(fails) or None, req
    # getitem
    index = step["index"]
    req = {"op": "seq_getitem", "seq": mseq, "index": index}
    if "single" in index:
        items, pyidx = [index["single"]], C.to_py_item(index["single"])
    else:
        items, pyidx = list(index["tuple"]), C.to_py_index(index["tuple"], npint=NPINT[0])
    try:
        out, err = seq[pyidx], None
    except Exception as e:
        out, err = None, err_kind(e)
    full = expand(items, 1 + nd)
    if full is None or any(i is None for i in items) or len(full) > 1 + nd:
        if err is None:
            fails.append(f"malformed index {items} accepted")
        return None, err, "; ".join(fails) or None, req
    it0, rest = full[0], full[1:]
    # list semantics on the sequence axis
    try:
        sel = list(range(n))[C.to_py_item(it0)]
        lerr = None
    except IndexError:
        sel, lerr = None, "IndexError"
    except ValueError:
        sel, lerr = None, "ValueError"
    if lerr:
        if err is None:
            fails.append(f"Python list raises {lerr} for {it0}, the sequence returned a result")
        return None, err, "; ".join(fails) or None, req
    is_int = not isinstance(it0, dict)
    sel_list = [sel] if is_int else sel
    tuple_form = "tuple" in index or index.get("single") == "..."
    prest = C.to_py_index(rest)
    # per-cube effect of the rest of the index
    refs, rerr, scalar = [], None, False
    if tuple_form:
        for k in sel_list:
            try:
                r = cubes[k].data[prest]
            except IndexError:
                rerr = "IndexError"; break
            if np.ndim(r) == 0:
                scalar = True
            refs.append(r)
    else:
        refs = [cubes[k].data for k in sel_list]
    if rerr or scalar:
        if err is None:
            fails.append(f"cube index {rest}: numpy {'raises ' + rerr if rerr else 'gives a scalar'} but the sequence returned a result")
        return None, err, "; ".join(fails) or None, req
    if any(isinstance(i, dict) and i["s"][2] not in (None, 1) for i in rest) and tuple_form:
        if err is None:
            fails.append("stepped cube item accepted")
        return None, err, "; ".join(fails) or None, req
    if err:
        return None, err, f"valid index {items} refused with {err}", req
    if is_int:
        if not isinstance(out, NDCube):
            fails.append(f"integer on the sequence axis returned {type(out).__name__}")
        else:
            if not tuple_form and out is not cubes[sel]:
                fails.append("seq[int] is not the cube object held")
            if out.data.shape != refs[0].shape or not np.array_equal(out.data, refs[0]):
                fails.append("cube data differs from list[int][rest]")
    else:
        if not isinstance(out, NDCubeSequence):
            fails.append(f"slice on the sequence axis returned {type(out).__name__}")
        elif type(out) is not type(seq):
            fails.append(f"the result is a {type(out).__name__}, the sequence is a {type(seq).__name__}")
        else:
            if len(out.data) != len(refs):
                fails.append(f"{len(out.data)} cubes selected, Python list gives {len(refs)}")
            else:
                for k, got, want in zip(sel_list, out.data, refs):
                    if not tuple_form and got is not cubes[k]:
                        fails.append("seq[slice] does not hold the cube objects themselves"); break
                    if got.data.shape != want.shape or not np.array_equal(got.data, want):
                        fails.append(f"cube {k}: data differs from cube[rest]"); break
            if out.meta is not seq.meta:
                fails.append("sequence meta not kept")
            if tuple_form:
                drop = [not isinstance(i, dict) for i in rest]
                eca = None if ca is None else (None if (ca < len(drop) and drop[ca]) else ca - sum(drop[:ca]))
            else:
                eca = ca
            if out._common_axis != eca:
                fails.append(f"common axis {out._common_axis}, expected {eca}")
    if not fails and out is not None:
        for p in ([out] if isinstance(out, NDCube) else out.data)[:3]:
            f = C.world_lockstep(p, cubes_src, rng, exact, limit=8)
            if f:
                fails.append(f); break
    return out, None, "; ".join(fails[:3]) or None, req


def run(case):
    from ndcube import NDCubeSequence
    rng = random.Random(case["wseed"] + 3)
    NPINT[0] = C.npint_of(case)
    seq, cubes = C.build_sequence(case["shapes"], case["ca"], case["fam"], case["wseed"])
    exact = case["fam"].startswith("probe")
    s1 = case["step1"]
    tags = [f"ncubes={len(case['shapes'])}", f"ndim={len(case['shapes'][0])}", f"ca={case['ca']}", f"op={s1['op']}",
            "ragged=%s" % (len({tuple(s) for s in case["shapes"]}) > 1)]
    if s1["op"] == "getitem":
        its = s1["index"].get("tuple", [s1["index"].get("single")])
        tags += ["seqitem=" + C.item_kind(its[0])] + (["ellipsis"] if "..." in its else [])
    res = {"tags": tags, "oracle": None, "nontrivial": repr((case["shapes"], case["ca"], s1, case.get("step2")))}
    if case["wseed"] % 3 == 0:
        # requests that are refused (explode along an axis that does not exist, on the sequence and on its cubes)
        # leave the sequence and the cubes it holds exactly as they were
        nd_ = len(case["shapes"][0])
        metas = [dict(c.meta) for c in cubes]
        for obj in [seq] + list(cubes):
            try:
                obj.explode_along_axis(nd_)
            except Exception:
                pass
        if [dict(c.meta) for c in cubes] != metas or seq.meta != {"seq": 1}:
            res["oracle"] = f"a refused explode_along_axis({nd_}) changed the meta of the cubes held: {[dict(c.meta) for c in cubes]} (was {metas})"
            return res
        tags.append("after-refused-requests")
    try:
        out, err, fail, req = apply_step(seq, cubes, s1, rng, exact)
        res["impl"] = {"err": err}
        res["model_req"] = req
        tags.append("outcome=" + (err or "ok"))
        if fail:
            res["oracle"] = fail
            return res
        if out is not None and not err:
            fails = []
            if isinstance(out, NDCubeSequence):
                check_shapes(out, fails)
            res["obs"] = describe(out)
            if fails:
                res["oracle"] = "; ".join(fails)
                return res
            # second step on the result (chains of slice/explode)
            if case.get("step2") and isinstance(out, NDCubeSequence) and out.data:
                r2 = random.Random(case["step2"]["seed"])
                s2 = gen_step(r2, [list(c.data.shape) for c in out.data], out._common_axis)
                out2, err2, fail2, req2 = apply_step(out, cubes, s2, rng, exact)
                tags.append("chain=" + (err2 or "ok"))
                if fail2:
                    res["oracle"] = f"second step {s2}: {fail2}"
                    return res
                if out2 is not None and not err2 and isinstance(out2, NDCubeSequence):
                    check_shapes(out2, fails)
                    if fails:
                        res["oracle"] = f"second step {s2}: " + "; ".join(fails)
                        return res
                res["second"] = {"err": err2, "obs": describe(out2) if (out2 is not None and not err2) else None,
                                 "inter": res["obs"]}
                res["extra_reqs"] = [req2]
    except Exception as e:
        import traceback
        res["oracle"] = f"observing {s1} raised {type(e).__name__}: {str(e)[:200]}"
        res["trace"] = traceback.format_exc()[-800:]
        res.setdefault("impl", {"err": None})
        res.setdefault("model_req", None)
    return res


def _cmp(shapes_src, obs, err, m):
    if err:
        if "err" not in m:
            return f"implementation raised {err}, model returns {m.get('kind')}"
        return None if m["err"] == err else f"implementation raised {err}, model says {m['err']}"
    if "err" in m:
        return f"implementation returned a result, model says {m['err']}"
    if obs is None:
        return None
    if obs["kind"] != m["kind"]:
        return f"kind: implementation {obs['kind']} vs model {m['kind']}"
    mp = [m] if m["kind"] == "cube" else m["pieces"]
    if m["kind"] == "seq" and m["commonAxis"] != obs["commonAxis"]:
        return f"common axis: implementation {obs['commonAxis']} vs model {m['commonAxis']}"
    if len(mp) != len(obs["pieces"]):
        return f"number of cubes: implementation {len(obs['pieces'])} vs model {len(mp)}"
    for k, (p, got) in enumerate(zip(mp, obs["pieces"])):
        src = shapes_src[p["cube"]]
        want = src if p["item"] is None else src[C.to_py_index(p["item"])]
        if list(want.shape) != got["shape"] or not np.array_equal(np.asarray(got["flat"]), want.ravel()):
            return f"cube {k}: implementation holds other elements than the model's cube {p['cube']} item {p['item']}"
    return None


def compare(case, r, m):
    srcs = [np.asarray(C.payload(tuple(sh), k)) for k, sh in enumerate(case["shapes"])]
    return _cmp(srcs, r.get("obs"), r["impl"]["err"], m)


def compare_extra(case, r, k, m):
    """Second step of a chain: the model answers relative to the sequence the first step returned,
    whose cubes are the first step's pieces."""
    sec = r["second"]
    inter = [np.asarray(p["flat"]).reshape(p["shape"]) for p in sec["inter"]["pieces"]]
    d = _cmp(inter, sec["obs"], sec["err"], m)
    return ("second step: " + d) if d else None


def signature(case, failure):
    return "other:" + failure[:60]


def shrink(case):
    if case.get("step2"):
        yield {**case, "step2": None}
    if case["fam"] != "probe":
        yield {**case, "fam": "probe"}
    shapes = case["shapes"]
    if len(shapes) > 1:
        for k in range(len(shapes)):
            yield {**case, "shapes": shapes[:k] + shapes[k + 1:]}
