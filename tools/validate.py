#!/usr/bin/env python3-vt
"""Validate MANIFEST.json and every evidence file against the schemas in /root/.vp."""
import glob, json, os, sys
import jsonschema
ROOT = os.path.dirname(os.path.dirname(os.path.abspath(__file__)))
ok = True
def check(path, schema):
    global ok
    try:
        jsonschema.validate(json.load(open(path)), json.load(open(schema)))
        print("valid  ", os.path.relpath(path, ROOT))
    except Exception as e:
        ok = False
        print("INVALID", os.path.relpath(path, ROOT), str(e)[:300])
check(os.path.join(ROOT, "MANIFEST.json"), "/root/.vp/MANIFEST.schema.json")
for p in sorted(glob.glob(os.path.join(ROOT, "evidence", "*.json"))):
    check(p, "/root/.vp/EVIDENCE.schema.json")
sys.exit(0 if ok else 1)
