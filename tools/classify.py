import sys, collections, re, random, warnings, importlib
sys.path.insert(0,'/verif/harness'); warnings.filterwarnings("ignore")
pid=sys.argv[1]; n=int(sys.argv[2]); seed=int(sys.argv[3]) if len(sys.argv)>3 else 0
m=importlib.import_module("props."+pid)
rng=random.Random(seed)
cnt=collections.Counter(); ex={}
for i,c in enumerate(m.generate(rng,"quick")):
    if i>=n: break
    if "fresh" in c: c["fresh"]=False
    r=m.run(c)
    if r["oracle"]:
        sig=m.signature(c,r["oracle"])
        k=sig if not sig.startswith("other") else re.sub(r"[0-9.\-]+","N",r["oracle"][:90])
        cnt[k]+=1; ex.setdefault(k,(c,r["oracle"]))
for k,v in cnt.most_common(): print(v,k); print("   ",ex[k][0]); print("   ",ex[k][1][:400])
