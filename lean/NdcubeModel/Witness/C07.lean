import NdcubeModel.Props.C07

/-! Non-vacuity for C07: a history with a slice of an arithmetic result that is then written to. -/
namespace Ndcube.C07.Witness
open Ndcube

def h0 : Heap := Heap.init (fun a => 100 + a)
def hist : List Step := [.derive 0 .slice, .derive 0 .arithmetic, .derive 2 .slice, .write 2 999]

example : (h0.run hist).objs.length = 4 := by decide
-- the root and the first slice are untouched by the write into the arithmetic result …
example : (h0.run hist).observe 0 = h0.observe 0 ∧ (h0.run hist).observe 1 = (h0.run (hist.take 3)).observe 1 := by decide
-- … while the view taken from the arithmetic result sees it (it is a younger object)
example : ((h0.run hist).observe 3).map (·.headD 0) = some 999 := by decide
example : ((h0.run hist).objs.getD 2 (h0.objs.getD 0 ⟨fun _ => 0, 0, .query⟩)).kind = .arithmetic := by decide

end Ndcube.C07.Witness
