/-!
# Python / numpy indexing semantics used by ndcube

Executable, import-free model of the parts of Python that the ndcube properties depend
on: exception kinds, index items, `slice.indices`, integer normalisation, Ellipsis
expansion and astropy's `sanitize_slices` (plus ndcube's `None` check).

Mirrors:
* `ndcube/mixins/ndslicing.py`  `NDCubeSlicingMixin.__getitem__` (None check, negative
  normalisation)
* `astropy/wcs/wcsapi/wrappers/sliced_wcs.py`  `sanitize_slices`
* CPython `PySlice_AdjustIndices` (`slice.indices`)
-/

namespace Ndcube

/-- Exception kinds, mapped from Python exception classes by the harness. -/
inductive Err where
  | indexError | valueError | typeError | unitsError | keyError
  | attributeError | notImplemented | other
deriving DecidableEq, Repr, Inhabited

def Err.name : Err → String
  | .indexError => "IndexError" | .valueError => "ValueError" | .typeError => "TypeError"
  | .unitsError => "UnitsError" | .keyError => "KeyError"
  | .attributeError => "AttributeError" | .notImplemented => "NotImplementedError"
  | .other => "Other"

/-- One entry of a Python index tuple. -/
inductive Item where
  | int (i : Int)
  | slice (start stop step : Option Int)
  | ellipsis
  | none
deriving DecidableEq, Repr, Inhabited

def Item.isInt : Item → Bool
  | .int _ => true
  | _ => false

/-- `slice(None)` -/
def Item.all : Item := .slice .none .none .none

/-! ## Integer index normalisation -/

/-- Python's `seq[i]` index normalisation: `IndexError` outside `[-n, n)`. -/
def normIndex (n : Nat) (i : Int) : Except Err Nat :=
  if 0 ≤ i then
    if i < n then .ok i.toNat else .error .indexError
  else
    if -(n : Int) ≤ i then .ok (i + n).toNat else .error .indexError

/-! ## `slice.indices` -/

/-- Clamp one bound of a step-1 slice against length `n` (CPython `PySlice_AdjustIndices`,
positive step). -/
def clampBound (n : Nat) (b : Option Int) (dflt : Nat) : Nat :=
  match b with
  | .none => dflt
  | .some b =>
    if b < 0 then (if b + n < 0 then 0 else (b + n).toNat)
    else (if b > n then n else b.toNat)

/-- `slice(start, stop).indices(n)` for step 1, as `(lo, hi)` with `lo, hi ≤ n`. -/
def sliceBounds (n : Nat) (start stop : Option Int) : Nat × Nat :=
  (clampBound n start 0, clampBound n stop n)

/-- Python list slicing `l[start:stop]` (step 1). -/
def pySlice {α} (l : List α) (start stop : Option Int) : List α :=
  let (lo, hi) := sliceBounds l.length start stop
  (l.drop lo).take (hi - lo)

/-- CPython's adjustment of one slice bound (`PySlice_AdjustIndices`). -/
def adjBound (n lower upper : Int) (b : Option Int) (dflt : Int) : Int :=
  match b with
  | .none => dflt
  | .some b => if b < 0 then max (b + n) lower else min b upper

/-- `slice(start, stop, step).indices(n)` for any non-zero step, as the list of selected
positions (CPython semantics, both signs of step). -/
def sliceIndices (n : Nat) (start stop step : Option Int) : Except Err (List Nat) :=
  let st : Int := step.getD 1
  if st = 0 then .error .valueError else
  let nI : Int := n
  let lower : Int := if st > 0 then 0 else -1
  let upper : Int := if st > 0 then nI else nI - 1
  let s := adjBound nI lower upper start (if st > 0 then lower else upper)
  let e := adjBound nI lower upper stop (if st > 0 then upper else lower)
  let count : Nat :=
    if st > 0 then (if s < e then ((e - s - 1) / st + 1).toNat else 0)
    else (if e < s then ((s - e - 1) / (-st) + 1).toNat else 0)
  .ok ((List.range count).map fun (k : Nat) => (s + (k : Int) * st).toNat)

/-- Python list slicing with any step. -/
def pySliceStep {α} (l : List α) (start stop step : Option Int) : Except Err (List α) := do
  let idx ← sliceIndices l.length start stop step
  pure (idx.filterMap fun i => l[i]?)

/-! ## `sanitize_slices` and ndcube's `None` check -/

def countEllipsis (items : List Item) : Nat := (items.filter (· == .ellipsis)).length

/-- Replace the (single) Ellipsis by `k` full slices. -/
def expandEllipsis (k : Nat) : List Item → List Item
  | [] => []
  | .ellipsis :: rest => List.replicate k Item.all ++ rest
  | it :: rest => it :: expandEllipsis k rest

/-- The per-entry validity test of `sanitize_slices` (after Ellipsis expansion). -/
def checkEntry : Item → Except Err Unit
  | .int _ => .ok ()
  | .slice _ _ step =>
    match step with
    | .none => .ok ()
    | .some s => if s = 0 ∨ s = 1 then .ok () else .error .indexError
  | .ellipsis => .error .indexError
  | .none => .error .indexError

/-- astropy's `sanitize_slices(item, ndim)` preceded by ndcube's `None` check: a list of
exactly `ndim` int / slice entries or the exception the code raises. -/
def sanitize (ndim : Nat) (items : List Item) : Except Err (List Item) :=
  if items.any (· == .none) then .error .indexError else
  if items.length > ndim then .error .valueError else
  if countEllipsis items > 1 then .error .indexError else
  let items :=
    if countEllipsis items = 1 then expandEllipsis (ndim - (items.length - 1)) items else items
  match items.mapM checkEntry with
  | .error e => .error e
  | .ok _ => .ok (items ++ List.replicate (ndim - items.length) Item.all)

/-- One slice bound under ndcube's `_normalize_negative_indices`: `max(b + n, 0)` if negative. -/
def normBound (n : Nat) : Option Int → Option Int
  | .none => .none
  | .some b => if b < 0 then .some (max (b + n) 0) else .some b

/-- ndcube's `_normalize_negative_indices` on one axis of length `n`. -/
def normalizeNegative (n : Nat) : Item → Except Err Item
  | .int i =>
    if i < 0 then (if i < -(n : Int) then .error .indexError else .ok (.int (i + n)))
    else .ok (.int i)
  | .slice s e st => .ok (.slice (normBound n s) (normBound n e) st)
  | it => .ok it

end Ndcube
