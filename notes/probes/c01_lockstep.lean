/-! scratch (design round): sliced-WCS lock-step with an abstract base `p2w` -/

inductive AxisRes where
  | kept (start len : Nat)
  | dropped (idx : Nat)
deriving Repr, DecidableEq

def srcIndex : List AxisRes → List Nat → List Nat
  | [], _ => []
  | .dropped i :: rs, r => i :: srcIndex rs r
  | .kept s _ :: rs, x :: r => (s + x) :: srcIndex rs r
  | .kept s _ :: rs, [] => s :: srcIndex rs []

def srcPix : List AxisRes → List Rat → List Rat
  | [], _ => []
  | .dropped i :: rs, r => (i : Rat) :: srcPix rs r
  | .kept s _ :: rs, x :: r => (x + (s : Rat)) :: srcPix rs r
  | .kept s _ :: rs, [] => (s : Rat) :: srcPix rs []

structure LLWcs (ω : Type) where
  p2w : List Rat → List ω

def sliced {ω} (w : LLWcs ω) (axes : List AxisRes) (keep : List Nat) [Inhabited ω] : LLWcs ω :=
  { p2w := fun q => keep.map fun i => (w.p2w ((srcPix axes q.reverse).reverse))[i]! }

theorem srcPix_cast (axes : List AxisRes) (r : List Nat) :
    srcPix axes (r.map (fun (n : Nat) => (n : Rat))) = (srcIndex axes r).map (fun (n : Nat) => (n : Rat)) := by
  induction axes generalizing r with
  | nil => simp [srcPix, srcIndex]
  | cons a as ih =>
    cases a with
    | dropped i => simp [srcPix, srcIndex, ih]
    | kept s l =>
      cases r with
      | nil => simpa [srcPix, srcIndex] using ih []
      | cons x r => simp [srcPix, srcIndex, ih, Rat.add_comm]

theorem lockstep {ω} [Inhabited ω] (w : LLWcs ω) (axes : List AxisRes) (keep : List Nat) (r : List Nat) :
    (sliced w axes keep).p2w ((r.map (fun (n : Nat) => (n : Rat))).reverse)
      = keep.map fun i => (w.p2w (((srcIndex axes r).map (fun (n : Nat) => (n : Rat))).reverse))[i]! := by
  simp [sliced, srcPix_cast]
