"""C19 — lookup-table coordinates reproduce their tables."""
import random
from fractions import Fraction
import numpy as np
import astropy.units as u
from astropy.time import Time
from astropy.coordinates import SkyCoord

import common as C
import wcsfam as W
import ecs as E
from core import err_kind

ID = "C19"
MODEL_OP = "table_coord (interp1 / inv1 / sliceTable / meshChain / interpolateTable)"
RULE = ("table coordinates built from Quantity (units m, pix, s, deg, dimensionless), multi-table Quantity, Time, 1-D SkyCoord, "
        "meshed SkyCoord and 2-D SkyCoord tables of length 1-8 with increasing / decreasing / non-monotonic dyadic content, alone "
        "or joined with & (1-3 members); evaluated at every integer pixel, at in-between positions (eighths) and outside the "
        "table; inverse on strictly monotonic tables; declared names / physical types / units; slices with open, negative and "
        "over-long bounds; interpolate on grids inside the range (equal and unequal lengths); ExtraCoords.resample with "
        "factors / offsets on a cube. Non-trivial = always; distinct = whole case")
TRUSTED = ["numpy indexing / numpy.interp-style explicit (bi)linear formulas on the generating tables are the reference"]
ASSUMPTIONS = ["table values are dyadic rationals so that linear interpolation is exact in doubles (compared at 1e-9 anyway)",
               "Time tables are compared through their low-level value (seconds from the reference = first entry)",
               "for a length-1 table only the integer pixel and positions at least one pixel away are evaluated"]
T0 = Time("2021-03-04T05:06:07", scale="utc")
UNITS = ["m", "pix", "s", "deg", ""]


def corpus():
    return C.read_corpus(ID)


def gen_table(rng, n, content):
    if content == "nonmono":
        return [rng.randint(-20, 20) / 4 for _ in range(n)]
    v, out = rng.randint(-8, 8) / 4, []
    for _ in range(n):
        out.append(v)
        v += rng.choice([0.25, 0.5, 1, 2, 3.5])
    return out[::-1] if content == "desc" else out


def gen_member(rng, k):
    kind = rng.choice(["quantity", "quantity", "quantity2", "time", "sky1", "sky2mesh"])
    content = rng.choice(["mono", "mono", "desc", "nonmono"])
    n = rng.choice([1, 2, 3, 4, 5, 6, 8])
    m = {"kind": kind, "unit": rng.choice(UNITS), "content": content}
    if kind in ("quantity",):
        m["tables"] = [gen_table(rng, n, content)]
    elif kind == "time":
        m["tables"] = [gen_table(rng, n, "mono" if content == "nonmono" else content)]
        m["scale"] = rng.choice(["utc", "utc", "tai", "tt"])
    elif kind == "quantity2":
        n2 = n if rng.random() < 0.6 else rng.choice([2, 3, 5])
        m["tables"] = [gen_table(rng, n, content), gen_table(rng, n2, rng.choice(["mono", "nonmono"]))]
    else:       # sky1 / sky2mesh: longitudes kept inside [0, 360)
        m["tables"] = [[x + 30 for x in gen_table(rng, n, content)], [x / 2 for x in gen_table(rng, n, "nonmono")]]
    return m


def generate(rng, tier):
    n = 400 if tier == "quick" else 25000
    for _ in range(n):
        r = rng.random()
        if r < 0.1:
            n1, n2 = rng.randint(1, 4), rng.randint(2, 4)
            members = [{"kind": "sky2d", "unit": "deg", "content": "nonmono",
                        "tables": [[[rng.randint(0, 40) / 4 for _ in range(n2)] for _ in range(n1)],
                                   [[rng.randint(-20, 20) / 8 for _ in range(n2)] for _ in range(n1)]]}]
        else:
            members = [gen_member(rng, k) for k in range(rng.choice([1, 1, 2, 3]))]
        yield {"members": members, "seed": rng.randrange(10**6)}


def n_inputs(m):
    return {"quantity": 1, "time": 1, "sky1": 1, "quantity2": 2, "sky2mesh": 2, "sky2d": 2}[m["kind"]]


def columns(m):
    """(table, pixel input within the member) for every world output of a separable member."""
    k = m["kind"]
    if k in ("quantity", "time"):
        return [(m["tables"][0], 0)]
    if k == "sky1":
        return [(m["tables"][0], 0), (m["tables"][1], 0)]
    return [(m["tables"][0], 0), (m["tables"][1], 1)]


def t0_of(m):
    """reference instant of a Time member in the member's own time scale"""
    return Time(T0.isot, scale=m.get("scale", "utc"))


def sky_frames_ok(coord, case, label, fails):
    """SkyCoord members keep the frame (with its attributes) they were given in"""
    subs = getattr(coord, "_table_coords", [coord])
    for k, (m, sub) in enumerate(zip(case["members"], subs)):
        if m["kind"].startswith("sky"):
            want = build_member(m, k).table.frame
            if not isinstance(sub.table, SkyCoord) or not sub.table.frame.is_equivalent_frame(want):
                fails.append(f"{label}: SkyCoord member {k} is in {getattr(sub.table, 'frame', None)!r}, it was given in {want!r}")


def time_instants_ok(coord, case, positions_of, label, fails):
    """Every Time member of `coord` (a table coordinate made from the case's members by slicing or
    interpolating) must hold, as *instants*, the source table read at `positions_of(member input index)`."""
    subs = getattr(coord, "_table_coords", [coord])
    p = 0
    for m, sub in zip(case["members"], subs):
        if m["kind"] == "time":
            pos = positions_of(p)
            want = t0_of(m) + np.array([interp_ref(m["tables"][0], x) for x in pos]) * u.s
            got = sub.table
            if got.shape != want.shape:
                fails.append(f"{label}: Time table has {got.shape} entries, expected {want.shape}")
            elif len(pos) and np.max(np.abs((got - want).to_value(u.s))) > 1e-5:
                fails.append(f"{label}: Time table is {got.isot.tolist()} ({got.scale}), the source read at {list(pos)} gives "
                             f"{want.isot.tolist()} ({want.scale}): not the same instants")
        p += n_inputs(m)


def sky_ptypes(k):
    """the frame's own physical types, or (every second member) custom ones"""
    return ["pos.eq.ra", "pos.eq.dec"] if k % 2 == 0 else [f"custom:pos.slit.lon{k}", f"custom:pos.slit.lat{k}"]


def declared(case):
    names, types, units = [], [], []
    for k, m in enumerate(case["members"]):
        if m["kind"] == "quantity":
            names += [f"q{k}"]; types += [f"custom:q{k}"]; units += [u.Unit(m["unit"]).to_string()]
        elif m["kind"] == "quantity2":
            names += [f"qa{k}", f"qb{k}"]; types += [f"custom:qa{k}", f"custom:qb{k}"]; units += [u.Unit(m["unit"]).to_string()] * 2
        elif m["kind"] == "time":
            names += [f"t{k}"]; types += ["time"]; units += ["s"]
        else:
            names += [f"lon{k}", f"lat{k}"]; types += sky_ptypes(k)
            units += [x.unit.to_string() for x in E.other_angle_units(1 * u.deg, 1 * u.deg, k + 1)]     # as stored
    return names, types, units


def declared_ok(w, case, label, fails, angles_free=False):
    """a WCS made from the case's coordinate (sliced, interpolated ...) still declares what the coordinate was given
    (`angles_free`: an interpolated SkyCoord is rebuilt in its frame's own angular unit - any angular unit is accepted
    there, the values being compared as physical angles)"""
    names, types, units = declared(case)
    if angles_free:
        got_units = [u.Unit(x) for x in w.world_axis_units]
        if len(got_units) == len(units):
            units = [g.to_string() if (u.Unit(x).physical_type == "angle" and g.physical_type == "angle") else x
                     for x, g in zip(units, got_units)]
    if list(w.world_axis_names) != names:
        fails.append(f"{label}: world_axis_names {list(w.world_axis_names)}, given {names}")
    elif [str(t) for t in w.world_axis_physical_types] != types:
        fails.append(f"{label}: world_axis_physical_types {list(w.world_axis_physical_types)}, given {types}")
    elif len(w.world_axis_units) != len(units) or any(u.Unit(x) != u.Unit(y) for x, y in zip(w.world_axis_units, units)):
        fails.append(f"{label}: world_axis_units {list(w.world_axis_units)}, given {units}")


def build_member(m, k):
    from ndcube.extra_coords.table_coord import QuantityTableCoordinate, SkyCoordTableCoordinate, TimeTableCoordinate
    kind = m["kind"]
    if kind == "quantity":
        return QuantityTableCoordinate(np.array(m["tables"][0]) * u.Unit(m["unit"]), names=f"q{k}", physical_types=f"custom:q{k}")
    if kind == "quantity2":
        un = u.Unit(m["unit"])
        # the tables of one coordinate may be given in different, equivalent units (the second here, for every second
        # member): the numbers of `tables` are the physical values in the first table's unit
        alt = {"m": u.cm, "s": u.ms, "deg": u.arcmin}.get(m["unit"]) if k % 2 == 0 else None
        second = (np.array(m["tables"][1]) * un).to(alt) if alt is not None else np.array(m["tables"][1]) * un
        return QuantityTableCoordinate(np.array(m["tables"][0]) * un, second,
                                       names=[f"qa{k}", f"qb{k}"], physical_types=[f"custom:qa{k}", f"custom:qb{k}"])
    if kind == "time":
        return TimeTableCoordinate(t0_of(m) + np.array(m["tables"][0]) * u.s, names=f"t{k}", physical_types="time")
    # ICRS, or (every third member) a frame with a non-default attribute
    # (the angles are stored in degrees, or - by member position and seed - in hour angle / radian or arcsec / arcmin)
    sc = SkyCoord(*E.other_angle_units(np.array(m["tables"][0]) * u.deg, np.array(m["tables"][1]) * u.deg, k + 1),
                  **({"frame": "icrs"} if k % 3 != 1 else {"frame": "fk5", "equinox": "J1975"}))
    return SkyCoordTableCoordinate(sc, mesh=(kind == "sky2mesh"), names=[f"lon{k}", f"lat{k}"],
                                   physical_types=sky_ptypes(k))


def build(case):
    coords = [build_member(m, k) for k, m in enumerate(case["members"])]
    c = coords[0]
    for d in coords[1:]:
        c = c & d
    return c, coords


def interp_ref(t, x):
    n = len(t)
    if x < 0 or x > n - 1:
        return np.nan
    i = int(np.floor(x))
    if i == x:
        return float(t[i])
    return float(t[i] + (x - i) * (t[i + 1] - t[i]))


def bilinear_ref(T, x, y):
    T = np.asarray(T, dtype=float)
    n1, n2 = T.shape
    if x < 0 or x > n1 - 1 or y < 0 or y > n2 - 1:
        return np.nan
    i, j = min(int(np.floor(x)), max(n1 - 2, 0)), min(int(np.floor(y)), max(n2 - 2, 0))
    a, b = x - i, y - j
    i2, j2 = min(i + 1, n1 - 1), min(j + 1, n2 - 1)
    return float((1 - a) * (1 - b) * T[i, j] + a * (1 - b) * T[i2, j] + (1 - a) * b * T[i, j2] + a * b * T[i2, j2])


def expected_world(case, pix):
    out, p = [], 0
    for m in case["members"]:
        ni = n_inputs(m)
        mp = pix[p:p + ni]; p += ni
        if m["kind"] == "sky2d":
            out += [bilinear_ref(m["tables"][0], mp[0], mp[1]), bilinear_ref(m["tables"][1], mp[0], mp[1])]
        else:
            for t, inp in columns(m):
                v = interp_ref(t, mp[inp])
                if m["kind"] == "time" and not np.isnan(v):
                    v -= t[0]
                out.append(v)
    return out


def positions(rng, case):
    """pixel vectors: every integer combination (capped), in-between and outside positions."""
    lens = []
    for m in case["members"]:
        if m["kind"] == "sky2d":
            lens += [len(m["tables"][0]), len(m["tables"][0][0])]
        else:
            cols = columns(m)
            per_input = {}
            for t, inp in cols:
                per_input[inp] = len(t)
            lens += [per_input[i] for i in range(n_inputs(m))]
    pts = []
    for _ in range(12):
        pts.append([float(rng.randrange(n)) for n in lens])
    pts.append([0.0] * len(lens)); pts.append([float(n - 1) for n in lens])
    for _ in range(10):
        pts.append([(rng.randrange(n - 1) + rng.choice([0.125, 0.25, 0.5, 0.75, 0.875])) if n > 1 else 0.0 for n in lens])
    for _ in range(6):
        pts.append([rng.choice([-1.0, -1.5, n, n + 0.5, n - 1 + 1.25]) if rng.random() < 0.5 else float(rng.randrange(n)) for n in lens])
    return pts, lens


def frac(x):
    f = Fraction(float(x))
    return int(f) if f.denominator == 1 else [f.numerator, f.denominator]


def p2w(w, pix, raw=False):
    """world values at a pixel; angles in degrees whatever angular unit the WCS declares for them (a SkyCoord table
    may be stored in hour angle, radian, arcsec ...: its values are physical)"""
    out = w.pixel_to_world_values(*pix)
    out = [out] if w.world_n_dim == 1 and not isinstance(out, (tuple, list)) else list(out)
    out = [float(np.asarray(x)) for x in out]
    if raw:
        return out                       # (in the units the WCS declares)
    for j, un in enumerate(w.world_axis_units):
        try:
            q = u.Unit(un)
            if q.physical_type == "angle" and q != u.deg:
                out[j] = out[j] * float(q.to(u.deg))
        except Exception:
            pass
    return out


def same(a, b, atol=1e-9):
    a, b = np.asarray(a, dtype=float), np.asarray(b, dtype=float)
    return a.shape == b.shape and bool(np.allclose(a, b, rtol=1e-9, atol=atol, equal_nan=True))


def gen_slice(rng, n):
    for _ in range(20):
        a = None if rng.random() < 0.3 else rng.randint(-n - 1, n + 1)
        b = None if rng.random() < 0.3 else rng.randint(-n - 1, n + 1)
        if len(range(n)[slice(a, b)]) > 0:
            return a, b
    return None, None


def run(case):
    rng = random.Random(case["seed"])
    kinds = [m["kind"] for m in case["members"]]
    tags = [f"members={len(kinds)}"] + [f"kind={k}" for k in kinds] + [f"unit={m['unit'] or 'dimensionless'}" for m in case["members"] if m["kind"].startswith("quantity")] + \
           [f"content={m['content']}" for m in case["members"]] + \
           [f"len={len(m['tables'][0])}" for m in case["members"]]
    res = {"tags": tags, "oracle": None, "impl": {"err": None}, "model_req": None, "nontrivial": repr(case)}
    fails = []
    # a Time survives interpolation only to the precision of a double MJD (about a microsecond)
    tol = 1e-5 if "time" in kinds else 1e-9
    try:
        coord, members = build(case)
        w = coord.wcs
    except Exception as e:
        res["impl"]["err"] = err_kind(e)
        res["oracle"] = f"building the WCS of the table coordinate raised {type(e).__name__}: {str(e)[:140]}"
        return res
    obs = {}
    # (1) values at integer pixels, in between, outside
    pts, lens = positions(rng, case)
    vals = []
    for p in pts:
        if any(n == 1 and x != 0.0 and abs(x) < 1 for n, x in zip(lens, p)):
            continue
        got = p2w(w, p)
        want = expected_world(case, p)
        vals.append((p, got))
        if not same(got, want):
            fails.append(f"pixel {p}: WCS gives {got}, the tables give {want}")
            break
    obs["values"] = vals
    # (3) declared names / types / units
    declared_ok(w, case, "the coordinate's WCS", fails)
    # (2) inverse on strictly monotonic 1-input members
    invertible = all(m["kind"] in ("quantity", "time") and m["content"] in ("mono", "desc") for m in case["members"])
    inv_obs = None
    if invertible and not fails:
        inv_obs = []
        for _ in range(6):
            ix = [rng.randrange(n) if m["kind"] != "time" or n < 3 else rng.randrange(1, n - 1) for n, m in zip(lens, case["members"])]
            if any(m["kind"] == "time" and n < 3 for n, m in zip(lens, case["members"])):
                break            # (the end entries of a Time table are not exactly representable)
            world = expected_world(case, [float(i) for i in ix])
            try:
                back = w.world_to_pixel_values(*world)
                back = [back] if w.pixel_n_dim == 1 and not isinstance(back, (tuple, list)) else list(back)
                back = [float(np.asarray(x)) for x in back]
            except Exception as e:
                fails.append(f"world_to_pixel_values of table entries raised {type(e).__name__}: {str(e)[:100]}")
                break
            inv_obs.append((ix, back))
            if not same(back, ix):
                fails.append(f"entries at pixels {ix} map back to {back}")
                break
        tags.append("inverse")
    obs["inv"] = inv_obs
    # (4) slicing
    sl_obs = None
    if "sky2d" not in kinds and not fails:
        items, offs, newlens = [], [], []
        for n in lens:
            a, b = gen_slice(rng, n)
            items.append(slice(a, b))
            r = range(n)[slice(a, b)]
            offs.append(r[0]); newlens.append(len(r))
        # both inputs of a meshed SkyCoord table must keep equal lengths
        p = 0
        for m in case["members"]:
            if m["kind"] == "sky2mesh":
                items[p + 1] = items[p]; offs[p + 1] = offs[p]; newlens[p + 1] = newlens[p]
            p += n_inputs(m)
        try:
            sc = coord[tuple(items)] if len(items) > 1 else coord[items[0]]
            sw = sc.wcs
            declared_ok(sw, case, f"coord[{items}]", fails)
            sky_frames_ok(sc, case, f"coord[{items}]", fails)
            sl_vals = []
            for _ in range(8):
                q = [float(rng.randrange(n)) if rng.random() < 0.5 or n == 1 else rng.randrange(n - 1) + rng.choice([0.25, 0.5]) for n in newlens]
                got = p2w(sw, q)
                want = expected_world(case, [a + o for a, o in zip(q, offs)])
                # a Time table keeps its reference time when sliced
                sl_vals.append((q, got))
                if not same(got, want):
                    fails.append(f"coord[{items}] at pixel {q} gives {got}, the original at {[a + o for a, o in zip(q, offs)]} gives {want}")
                    break
            sl_obs = {"items": [[s.start, s.stop] for s in items], "offs": offs, "vals": sl_vals}
            tags.append("slice")
            # interpolate() of the sliced coordinate: positions count from the start of the sliced table
            if not fails and all(n > 1 for n in newlens):
                glen = rng.randint(1, 3)
                g2 = [sorted(rng.randrange(0, 4 * (n - 1) + 1) / 4 for _ in range(glen)) for n in newlens]
                arrs = [np.array(g, dtype=float) for g in g2]
                ic = sc.interpolate(arrs) if len(case["members"]) > 1 else (sc.interpolate(*arrs) if case["members"][0]["kind"] != "time" else sc.interpolate(arrs[0]))
                iw = ic.wcs
                for j in range(glen):
                    got = p2w(iw, [float(j)] * len(g2))
                    want = expected_world(case, [g[j] + o for g, o in zip(g2, offs)])
                    p2, wi = 0, 0
                    for m in case["members"]:
                        if m["kind"] == "time":
                            want[wi] = want[wi] + m["tables"][0][0] - interp_ref(m["tables"][0], g2[p2][0] + offs[p2])
                        p2 += n_inputs(m); wi += len(columns(m))
                    if not same(got, want, tol):
                        fails.append(f"coord[{items}].interpolate({g2}) entry {j} is {got}, the sliced tables interpolated there give {want}")
                        break
                if not fails:
                    time_instants_ok(ic, case, lambda p: [g + offs[p] for g in g2[p]], f"coord[{items}].interpolate({g2})", fails)
                tags.append("interpolate-of-slice")
            # a slice of the sliced coordinate (a meshed SkyCoord table composes its slices lazily)
            if not fails:
                items2, offs2, lens2 = [], [], []
                for n in newlens:
                    a, b = gen_slice(rng, n)
                    items2.append(slice(a, b))
                    r = range(n)[slice(a, b)]
                    offs2.append(r[0]); lens2.append(len(r))
                p = 0
                for m in case["members"]:
                    if m["kind"] == "sky2mesh" and rng.random() < 0.5:
                        items2[p + 1] = items2[p]; offs2[p + 1] = offs2[p]; lens2[p + 1] = lens2[p]
                    p += n_inputs(m)
                sc2 = sc[tuple(items2)] if len(items2) > 1 else sc[items2[0]]
                sw2 = sc2.wcs
                declared_ok(sw2, case, f"coord[{items}][{items2}]", fails)
                for _ in range(6):
                    q = [float(rng.randrange(n)) if rng.random() < 0.5 or n == 1 else rng.randrange(n - 1) + rng.choice([0.25, 0.5]) for n in lens2]
                    got = p2w(sw2, q)
                    at = [a + o + o2 for a, o, o2 in zip(q, offs, offs2)]
                    want = expected_world(case, at)
                    if not same(got, want):
                        fails.append(f"coord[{items}][{items2}] at pixel {q} gives {got}, the original at {at} gives {want}")
                        break
                # beyond the end of the twice-sliced table there is no value
                q = [float(n) for n in lens2]
                got = p2w(sw2, q)
                if not fails and not all(np.isnan(x) for x in got):
                    fails.append(f"coord[{items}][{items2}] has {lens2} entries but gives {got} at pixel {q}")
                tags.append("slice-of-slice")
                # the slice each meshed component keeps lazily after the two steps (model: meshChain)
                kept, chains = [], []
                subs = getattr(sc2, "_table_coords", [sc2])
                p = 0
                for m, sub in zip(case["members"], subs):
                    if m["kind"] == "sky2mesh" and getattr(sub, "mesh", False):
                        for c in range(2):
                            n0 = len(m["tables"][c])
                            slc = sub._slice[c]
                            lo, hi = slc.indices(n0)[:2]
                            kept.append([int(lo), int(hi)])
                            chains.append({"n": n0, "items": [[items[p + c].start, items[p + c].stop], [items2[p + c].start, items2[p + c].stop]]})
                    p += n_inputs(m)
                sl_obs["mesh_kept"] = kept
                sl_obs["mesh_chains"] = chains
        except Exception as e:
            fails.append(f"coord[{items}] raised {type(e).__name__}: {str(e)[:120]}")
    obs["slice"] = sl_obs
    # (5) interpolate
    it_obs = None
    if "sky2d" not in kinds and all(n > 1 for n in lens) and not fails:
        grids = []
        glen = rng.randint(1, 4)
        for n in lens:
            k = glen if rng.random() < 0.7 else rng.randint(1, 4)
            grids.append(sorted(rng.randrange(0, 8 * (n - 1) + 1) / 8 for _ in range(k)))
        p = 0
        for m in case["members"]:
            if m["kind"] == "sky2mesh":
                grids[p + 1] = [min(g, lens[p + 1] - 1) for g in grids[p]][:len(grids[p])]
                grids[p] = grids[p][:len(grids[p + 1])]
            p += n_inputs(m)
        unequal_q2 = unequal_mesh = False
        p = 0
        for m in case["members"]:
            if m["kind"] == "quantity2" and len(grids[p]) != len(grids[p + 1]):
                unequal_q2 = True
            if m["kind"] == "sky2mesh" and len(grids[p]) > 1 and rng.random() < 0.25:
                grids[p + 1] = grids[p + 1][:-1]         # the two axes of a meshed table are independent
                unequal_mesh = True
            p += n_inputs(m)
        try:
            # array-like grids: numpy arrays, lists or tuples of positions
            gconv = [lambda g: np.array(g, dtype=float), list, tuple][case["seed"] % 3]
            arrs = [gconv(g) for g in grids]
            ic = coord.interpolate(arrs) if len(case["members"]) > 1 else (coord.interpolate(*arrs) if case["members"][0]["kind"] != "time" else coord.interpolate(arrs[0]))
            iw = ic.wcs
            declared_ok(iw, case, f"interpolate({grids})", fails, angles_free=True)
            it_vals = []
            for _ in range(6):
                ks = [rng.randrange(len(g)) for g in grids]
                got = p2w(iw, [float(k) for k in ks])
                want = expected_world(case, [g[k] for g, k in zip(grids, ks)])
                # the interpolated Time table has its own first entry as reference
                p2, wi = 0, 0
                for m in case["members"]:
                    if m["kind"] == "time":
                        want[wi] = want[wi] + m["tables"][0][0] - interp_ref(m["tables"][0], grids[p2][0])
                    p2 += n_inputs(m); wi += len(columns(m))
                it_vals.append((ks, got))
                if not same(got, want, tol):
                    fails.append(f"interpolate({grids}) entry {ks} is {got}, linear interpolation of the tables gives {want}")
                    break
            it_obs = {"grids": grids, "vals": it_vals}
            if not fails:
                time_instants_ok(ic, case, lambda p: grids[p], f"interpolate({grids})", fails)
            if not fails:
                sky_frames_ok(ic, case, f"interpolate({grids})", fails)
            tags.append("interpolate" + ("-unequal-grids" if len({len(g) for g in grids}) > 1 else ""))
        except Exception as e:
            fails.append(("[quantity2 grids of different lengths] " if unequal_q2 else "[sky2mesh grids of different lengths] " if unequal_mesh else "") +
                         f"interpolate({grids}) raised {type(e).__name__}: {str(e)[:120]}")
    obs["interp"] = it_obs
    # (4c) an integer on one table of a multi-table Quantity coordinate: what remains is the coordinate of the other
    #      table alone - in that table's own unit, with its own name and physical type
    if len(case["members"]) == 1 and kinds == ["quantity2"] and not fails:
        m0 = case["members"][0]
        full = build_member(m0, 0)
        for keep in (0, 1):
            nk, nd_ = len(m0["tables"][keep]), len(m0["tables"][1 - keep])
            if nk < 2:
                continue
            lo = rng.randrange(0, nk - 1)
            item = [None, None]
            item[keep] = slice(lo, None)
            item[1 - keep] = rng.randrange(-nd_, nd_)
            try:
                subc = full[tuple(item)]
                sw_ = subc.wcs
                tab_q = full.table[keep]                         # the kept table as it was given (own unit)
                want_unit = tab_q.unit.to_string()
                if [u.Unit(x).to_string() for x in sw_.world_axis_units] != [want_unit]:
                    fails.append(f"coord[{item}]: declares units {list(sw_.world_axis_units)}, the remaining table is in {want_unit}")
                elif list(sw_.world_axis_names) != [["qa0", "qb0"][keep]] or [str(t) for t in sw_.world_axis_physical_types] != [["custom:qa0", "custom:qb0"][keep]]:
                    fails.append(f"coord[{item}]: declares {list(sw_.world_axis_names)} / {list(sw_.world_axis_physical_types)}")
                else:
                    for x in range(nk - lo):
                        got = p2w(sw_, [float(x)], raw=True)
                        if not same(got, [float(tab_q.value[lo + x])]):
                            fails.append(f"coord[{item}] at pixel {x} gives {got} {want_unit}, the table entry is {tab_q[lo + x]}")
                            break
                tags.append("int-on-one-table")
            except Exception as e:
                fails.append(f"coord[{item}] raised {type(e).__name__}: {str(e)[:120]}")
            if fails:
                break
    # (6) ExtraCoords.resample on a cube
    one_d = [m for m in case["members"] if m["kind"] in ("quantity", "time", "sky1")]
    if one_d and not fails:
        from ndcube import NDCube
        shape = [len(m["tables"][0]) for m in one_d]
        if all(s > 1 for s in shape):
            cube = NDCube(np.zeros(shape), wcs=W.make_probe(random.Random(1), shape))
            for k, m in enumerate(one_d):
                cube.extra_coords.add(build_member(m, k).names, k, build_member(m, k))
            # (a WCS set by hand on table-built extra coords is refused, and leaves them as they were)
            try:
                cube.extra_coords.wcs = cube.wcs
                fails.append("extra_coords.wcs set by hand on table-built extra coords was accepted")
            except AttributeError:
                pass
            factor = [rng.choice([1, 2, 0.5, 1.5]) for _ in shape]
            offset = [rng.choice([0, 0.5, 1]) for _ in shape]
            # the scalar spellings: one number standing for every axis (factor, offset, or both)
            f_arg, o_arg = factor, offset
            scal = rng.random()
            if scal < 0.4:
                o = rng.choice([x for x in (0.5, 1, 1.5, 0) if x <= min(shape) - 1])    # (the first sample lies on the tables)
                offset = [o] * len(shape); o_arg = o
                factor = [rng.choice([2, 3, 1]) for _ in shape] if scal < 0.2 else factor
                f_arg = factor
                if scal < 0.1:
                    f = rng.choice([2, 3])
                    factor = [f] * len(shape); f_arg = f
                tags.append("resample-scalar-spelling")
            try:
                rec = cube.extra_coords.resample(f_arg, o_arg, ndcube=cube)
                rw = rec.wcs
                rmap = [int(x) for x in rec.mapping]
                sub = {"members": one_d}
                for _ in range(6):
                    counts = [len([c + j * f for j in range(int(d / f) + 3) if c + j * f <= d - 1]) for c, d, f in zip(offset, shape, factor)]
                    if any(c == 0 for c in counts):
                        break
                    ks = [rng.randrange(c) for c in counts]            # array order
                    pix_new = [float(ks[len(shape) - 1 - m]) for m in rmap]
                    got = p2w(rw, pix_new)
                    pos = [offset[a] + ks[a] * factor[a] for a in range(len(shape))]
                    want = expected_world(sub, pos)
                    wi = 0
                    for a, m in enumerate(one_d):
                        if m["kind"] == "time":
                            want[wi] = want[wi] + m["tables"][0][0] - interp_ref(m["tables"][0], offset[a])
                        wi += len(columns(m))
                    if not same(got, want, tol):
                        fails.append(f"resample(factor={factor}, offset={offset}) entry {ks} is {got}, the tables at offset + k*factor = {pos} give {want}")
                        break
                tags.append("resample")
            except Exception as e:
                fails.append(f"ExtraCoords.resample(factor={factor}, offset={offset}) raised {type(e).__name__}: {str(e)[:120]}")
    # (7) a WCS, once built, keeps describing its tables: the same coordinate objects joined again the other way round
    # (and their WCS built) must not change what the first WCS reports, as high-level objects and as values
    if len(members) >= 2 and not fails:
        try:
            zero = [0.0] * w.pixel_n_dim
            objs = lambda: [repr(o) for o in (lambda r: r if isinstance(r, (list, tuple)) else [r])(w.pixel_to_world(*zero))]
            before_o, before_v = objs(), p2w(w, zero, raw=True)
            c2 = members[-1]
            for d in members[-2::-1]:
                c2 = c2 & d
            c2.wcs
            after_o, after_v = objs(), p2w(w, zero, raw=True)
            if after_o != before_o or not same(after_v, before_v):
                fails.append(f"after the same tables were joined in reverse order the first WCS reports {after_o} at pixel 0, "
                             f"before it reported {before_o}")
            tags.append("rejoined")
        except Exception as e:
            fails.append(f"the first WCS, after its tables were joined again in reverse order, raised {type(e).__name__}: {str(e)[:120]}")
    # ---- model request (separable members only)
    if "sky2d" not in kinds:
        tables, slots = [], []       # one model table per world output; slots: pixel input index in the joined vector
        p = 0
        for m in case["members"]:
            for t, inp in columns(m):
                tables.append([frac(x) for x in t]); slots.append(p + inp)
            p += n_inputs(m)
        res["slots"] = slots
        res["time_out"] = [i for i, (m, c) in enumerate((m, c) for m in case["members"] for c in columns(m)) if m["kind"] == "time"]
        res["model_req"] = {"op": "table_coord", "tables": tables,
                            "pix": [[frac(p[s]) for s in slots] for p, _ in obs["values"]],
                            "inv": [[] for _ in tables] if not obs["inv"] else
                                   [[frac(interp_ref([float(Fraction(*x)) if isinstance(x, list) else x for x in t], ix[s])) for ix, _ in obs["inv"]] for t, s in zip(tables, slots)],
                            "slices": [[None, None]] * len(tables) if not obs["slice"] else [obs["slice"]["items"][s] for s in slots],
                            "meshChains": (obs["slice"] or {}).get("mesh_chains", []),
                            "grids": [[] for _ in tables] if not obs["interp"] else [[frac(g) for g in obs["interp"]["grids"][s]] for s in slots]}
    res["obs"] = obs
    if fails:
        res["oracle"] = "; ".join(fails[:2])
    return res


def unfrac(x):
    if x is None:
        return np.nan
    return x[0] / x[1] if isinstance(x, list) else float(x)


def compare(case, r, m):
    o = r.get("obs")
    if not o:
        return None
    first = {}
    for i in r["time_out"]:
        first[i] = unfrac(r["model_req"]["tables"][i][0])
    for (p, got), mv in zip(o["values"], m["values"]):
        want = [unfrac(x) - first.get(i, 0.0) for i, x in enumerate(mv)]
        if not same(got, want):
            return f"pixel {p}: implementation {got} vs model {want}"
    if o["inv"]:
        for k, (ix, back) in enumerate(o["inv"]):
            want = [unfrac(m["inv"][t][k]) for t in range(len(m["inv"]))]
            if not same(back, want):
                return f"inverse at entries {ix}: implementation {back} vs model {want}"
    if o["slice"]:
        # the model's sliced tables must start where the implementation's sliced coordinate starts
        for t, (tab, s) in enumerate(zip(m["sliced"], r["slots"])):
            full = [unfrac(x) for x in r["model_req"]["tables"][t]]
            off = o["slice"]["offs"][s]
            if [unfrac(x) for x in tab] != full[off:off + len(tab)] or not tab:
                return f"sliced table {t}: model {tab} is not the original from offset {off}"
    if o["slice"] and o["slice"].get("mesh_kept"):
        for ch, kept, mk in zip(o["slice"]["mesh_chains"], o["slice"]["mesh_kept"], m["meshChains"]):
            empty_i, empty_m = kept[1] <= kept[0], mk[1] <= mk[0]
            if empty_i != empty_m or (not empty_i and list(kept) != list(mk)):
                return f"meshed component of {ch['n']} entries sliced by {ch['items']}: implementation keeps {kept}, model {mk}"
    if o["interp"]:
        for (ks, got) in o["interp"]["vals"]:
            want = []
            for t, s in enumerate(r["slots"]):
                v = unfrac(m["interpolated"][t][ks[s]])
                if t in first:
                    v -= unfrac(m["interpolated"][t][0])
                want.append(v)
            if not same(got, want, 1e-5 if r["time_out"] else 1e-9):
                return f"interpolate entry {ks}: implementation {got} vs model {want}"
    return None


def signature(case, failure):
    if failure.startswith("[quantity2 grids of different lengths]") and "must all be same shape" in failure:
        return "quantity-multi-table-interpolate:unequal-grid-lengths-refused"
    if failure.startswith("[sky2mesh grids of different lengths]") and "must all be same shape" in failure:
        return "meshed-skycoord-interpolate:unequal-grid-lengths-refused"
    return "other:" + failure[:60]


def shrink(case):
    ms = case["members"]
    if len(ms) > 1:
        for i in range(len(ms)):
            yield {**case, "members": ms[:i] + ms[i + 1:]}
    for s in range(3):
        yield {**case, "seed": case["seed"] + s + 1}
