"""C14 — WCS wrappers are exact, invertible re-parameterisations."""
import itertools, random
from fractions import Fraction
import numpy as np

import common as C
import wcsfam as W
from core import err_kind

ID = "C14"
MODEL_OP = "resampled / reordered / compound"
RULE = ("inner WCS from the exact probe family (separable / coupled / more or fewer world than pixel axes), FITS (separable, celestial, rotated, celestial with one pixel axis sliced away) and gWCS, each optionally wrapped once already by a reordering or resampling wrapper; orders given as list / tuple / ndarray "
        "tables, 1-4 dims; resampling: integer and fractional factors, scalar or per-axis, offsets, wrong lengths; "
        "reordering: every pixel and world permutation for <= 3 axes (sampled for 4), non-permutations; compound: 2-3 "
        "members with mappings that share, duplicate or separate pixel axes, wrong lengths, disagreeing shapes, pixel bounds that agree / differ at one end / at both ends on shared axes, "
        "consistent and inconsistent world inputs; pixel inputs as scalars, 1-D and N-D arrays. "
        "Non-trivial = accepted wrapper with a non-identity parameter; distinct = the whole case")
TRUSTED = ["the inner WCS evaluated directly is the reference", "numpy broadcasting of array inputs"]
ASSUMPTIONS = ["round trips on FITS / gWCS inner WCS are compared at atol 1e-6 pixels (their own inverse is iterative / tabular)",
               "np.allclose(atol=1e-8) of the compound shared-axis check is modelled as exact equality on the exact probe WCS"]


def corpus():
    return C.read_corpus(ID)


def frac(q):
    f = Fraction(q).limit_denominator(64)
    return int(f) if f.denominator == 1 else [f.numerator, f.denominator]


def unfrac(t):
    return t[0] / t[1] if isinstance(t, list) else t


def gen_pixels(rng, nd, shape):
    pts = []
    for _ in range(4):
        pts.append([rng.choice([0, 1, 2, 0.5, 1.25, -0.5, 3]) for _ in range(nd)])
    return pts


def generate(rng, tier):
    n = 1000 if tier == "quick" else 60000
    fams = ["probe", "probe_coupled", "fits_sep", "fits_cel", "fits_rot", "gwcs"]
    for _ in range(n):
        kind = rng.choice(["resampled", "resampled", "reordered", "compound", "compound"])
        nd = rng.choice([1, 2, 2, 3, 3, 4])
        shape = [rng.choice([2, 3, 4, 6]) for _ in range(nd)]
        case = {"kind": kind, "shape": shape, "fam": rng.choice(fams), "wseed": rng.randrange(10**6),
                "with_shape": rng.random() < 0.8, "pixels": gen_pixels(rng, nd, shape),
                "input_form": rng.choice(["scalar", "1d", "nd"])}
        if kind != "compound" and rng.random() < 0.3:
            # already-wrapped inner WCS: the inner WCS is itself a reordering / resampling wrapper
            case["prewrap"] = rng.choice(["reordered", "resampled"])
        if kind == "reordered":
            case["order_type"] = rng.choice(["list", "list", "tuple", "ndarray"])
        if kind != "compound" and rng.random() < 0.3:
            # inner WCS whose pixel and world counts differ (already-wrapped / non-square families)
            case["fam"] = rng.choice(["probe_extra", "probe_drop", "fits_sliced"])
        if kind == "resampled":
            fchoices = [1, 2, 3, 0.5, 2.5, 4, 1.5]
            if rng.random() < 0.25:
                case["factor"] = rng.choice(fchoices)
            else:
                case["factor"] = [rng.choice(fchoices) for _ in range(nd)]
            if rng.random() < 0.3:
                case["offset"] = rng.choice([0, 0.5, 1, -0.5])
            else:
                case["offset"] = [rng.choice([0, 0.5, 1, 1.5, -0.5]) for _ in range(nd)]
            r = rng.random()
            if r < 0.06 and isinstance(case["factor"], list):
                case["factor"] = case["factor"] + [1]
            elif r < 0.12 and isinstance(case["offset"], list):
                case["offset"] = case["offset"][:-1] if nd > 1 else case["offset"] + [0]
            case["bounds"] = rng.random() < 0.4
        elif kind == "reordered":
            po = list(range(nd)); rng.shuffle(po)
            case["pixel_order"] = po
            case["world_order"] = "perm"
            case["wperm_seed"] = rng.randrange(10**6)
            r = rng.random()
            if r < 0.07:
                case["pixel_order"] = po[:-1] + [po[0]] if nd > 1 else [1]
            elif r < 0.12:
                case["world_order"] = "bad"
        else:
            case["fam"] = rng.choice(["probe", "probe_coupled"])
            m = rng.choice([2, 2, 3])
            mshapes = []
            for _ in range(m):
                k = rng.choice([1, 1, 2])
                mshapes.append([rng.choice([2, 3, 4]) for _ in range(k)])
            total = sum(len(s) for s in mshapes)
            nin = rng.randint(1, total)
            mapping = [rng.randrange(nin) for _ in range(total)]
            # make sure every input is used unless we deliberately leave a gap
            for i in range(nin):
                if i not in mapping:
                    mapping[rng.randrange(total)] = i
            if rng.random() < 0.15 and m >= 2:
                # targeted: the last member has two pixel axes on one input that an earlier member uses as well
                # (what combined_wcs builds for two extra-coordinate tables on one array axis)
                mshapes[-1] = [rng.choice([2, 3, 4]) for _ in range(2)]
                total = sum(len(s) for s in mshapes)
                nin = max(1, total - 2)
                mapping = list(range(total - 2)) + [0, 0]
                case["force_inconsistent"] = True
            r = rng.random()
            if r < 0.08 and not case.get("force_inconsistent"):
                mapping = mapping[:-1] if total > 1 else mapping + [0]
            case["members"] = mshapes
            case["member_kinds"] = [rng.choice(["square", "square", "extra_world", "drop_world"]) for _ in mshapes]
            case["mapping"] = mapping
            case["fix_shapes"] = rng.random() < 0.85      # make shared axes agree in length
            case["inconsistent"] = rng.random() < 0.3 or bool(case.get("force_inconsistent"))
            case["pixels"] = [[rng.choice([0, 1, 2, 0.5, 1.25]) for _ in range(max(mapping) + 1)] for _ in range(4)]
            # pixel bounds of the members: none / all equal on shared axes / differing at one end / at both ends
            case["bounds_mode"] = rng.choice([None, None, "equal", "equal", "one_end", "both_ends", "some_none"])
        yield case


def prewrap(ll, case):
    """The inner WCS wrapped once already (deterministic in the case)."""
    from ndcube.wcs.wrappers import ResampledLowLevelWCS, ReorderedLowLevelWCS
    how = case.get("prewrap")
    if not how:
        return ll
    r = random.Random(case["wseed"] + 17)
    if how == "reordered":
        po = list(range(ll.pixel_n_dim)); r.shuffle(po)
        wo = list(range(ll.world_n_dim)); r.shuffle(wo)
        return ReorderedLowLevelWCS(ll, po, wo)
    # (factors that keep the once-wrapped pixel shape integral: the model's WCS description carries an integer shape)
    ps = ll.pixel_shape
    f = [r.choice([x for x in (1, 2, 0.5) if ps is None or float(ps[k] / x).is_integer()]) for k in range(ll.pixel_n_dim)]
    o = [r.choice([0, 0.5, 1]) for _ in range(ll.pixel_n_dim)]
    return ResampledLowLevelWCS(ll, f, o)


def eval_p2w(wcs, pts, form):
    """Evaluate pixel_to_world_values at the given points passing scalars, 1-D or N-D arrays."""
    ll = W.low_level(wcs)
    pts = np.asarray(pts, dtype=float)
    npix = pts.shape[1]
    if form == "scalar":
        out = []
        for p in pts:
            r = ll.pixel_to_world_values(*p)
            r = [r] if ll.world_n_dim == 1 and not isinstance(r, (tuple, list)) else list(r)
            out.append([float(np.asarray(x)) for x in r])
        return np.array(out)
    cols = [pts[:, i] for i in range(npix)]
    if form == "nd" and npix > 1 and len(pts) % 2 == 0:
        cols = [c.reshape(2, -1) for c in cols]
    r = ll.pixel_to_world_values(*cols)
    r = [r] if ll.world_n_dim == 1 and not isinstance(r, (tuple, list)) else list(r)
    return np.stack([np.asarray(x, dtype=float).reshape(-1) for x in r], axis=1)


def eval_w2p(wcs, worlds):
    ll = W.low_level(wcs)
    out = []
    for wv in worlds:
        r = ll.world_to_pixel_values(*wv)
        r = [r] if ll.pixel_n_dim == 1 and not isinstance(r, (tuple, list)) else list(r)
        out.append([float(np.asarray(x)) for x in r])
    return np.array(out)


def wdesc(ll, with_shape):
    return {"pixDim": int(ll.pixel_n_dim), "worldDim": int(ll.world_n_dim), "corr": W.corr_matrix(ll),
            "shape": None if ll.array_shape is None else [int(x) for x in ll.array_shape]}


def run(case):
    from ndcube.wcs.wrappers import ResampledLowLevelWCS, ReorderedLowLevelWCS, CompoundLowLevelWCS
    rng = random.Random(case["wseed"])
    kind = case["kind"]
    tags = [f"kind={kind}", f"fam={case['fam']}", f"ndim={len(case['shape'])}", f"form={case['input_form']}"]
    res = {"tags": tags, "oracle": None, "model_req": None, "impl": {"err": None}}
    exact = case["fam"].startswith("probe")
    tol = dict(rtol=1e-9, atol=1e-9)
    fails = []
    try:
        if kind == "resampled":
            shape = tuple(case["shape"])
            nd = len(shape)
            inner = W.make_wcs(rng, shape, case["fam"], case["with_shape"])
            if case["bounds"] and isinstance(inner, W.ProbeWCS):
                inner._bounds = [(-0.5, s - 0.5) for s in shape[::-1]]
            ll = prewrap(W.low_level(inner), case)
            f, o = case["factor"], case["offset"]
            fl = [f] * nd if not isinstance(f, list) else f
            ol = [o] * nd if not isinstance(o, list) else o
            res["model_req"] = {"op": "resampled", "wcs": wdesc(ll, True), "factor": {"scalar": frac(f)} if not isinstance(f, list) else {"list": [frac(x) for x in f]},
                                "offset": {"scalar": frac(o)} if not isinstance(o, list) else {"list": [frac(x) for x in o]},
                                "pixels": [[frac(x) for x in p] for p in case["pixels"]],
                                "bounds": None if ll.pixel_bounds is None else [[frac(a), frac(b)] for a, b in ll.pixel_bounds]}
            try:
                wr, err = ResampledLowLevelWCS(ll, f if not isinstance(f, list) else list(f), o if not isinstance(o, list) else list(o)), None
            except Exception as e:
                wr, err = None, err_kind(e)
            res["impl"]["err"] = err
            bad = len(fl) != nd or len(ol) != nd
            if bad:
                if err != "ValueError":
                    fails.append(f"factor/offset of wrong length gave {err or 'a wrapper'}")
                raise StopIteration
            if err:
                fails.append(f"valid factor {f} offset {o} refused with {err}")
                raise StopIteration
            res["nontrivial"] = repr(sorted(case.items(), key=str))
            pts = np.array(case["pixels"], dtype=float)
            got = eval_p2w(wr, pts, case["input_form"])
            under = pts * np.array(fl) + np.array(ol)
            want = eval_p2w(ll, under, "scalar")
            if got.shape != want.shape or not (np.array_equal(got, want, equal_nan=True) if exact else np.allclose(got, want, equal_nan=True, **tol)):
                fails.append(f"pixel {pts[0].tolist()} maps to {got[0].tolist()}, inner WCS at p*factor+offset gives {want[0].tolist()}")
            res["obs"] = {"world": got.tolist(), "pixDim": int(wr.pixel_n_dim), "worldDim": int(wr.world_n_dim)}
            # round trip (only where the inner WCS gives finite values)
            fin = np.isfinite(got).all(axis=1)
            if fin.any() and (not isinstance(inner, W.ProbeWCS) or inner.Ainv is not None):
                back = eval_w2p(wr, got[fin])
                if not np.allclose(back, pts[fin], atol=1e-6, rtol=0):
                    fails.append(f"round trip of pixel {pts[fin][0].tolist()} gives {back[0].tolist()}")
            # shape and bounds
            ps = wr.pixel_shape
            if ll.pixel_shape is None:
                if ps is not None:
                    fails.append("pixel_shape invented")
            else:
                exp = [s / q for s, q in zip(ll.pixel_shape, fl)]
                if ps is None or not np.allclose([float(x) for x in ps], exp, rtol=1e-12):
                    fails.append(f"pixel_shape {ps} != underlying/factor {exp}")
                elif any((abs(e - round(e)) < 1e-12) and not isinstance(x, (int, np.integer)) for x, e in zip(ps, exp)):
                    fails.append(f"integral pixel_shape entries are not ints: {ps}")
                res["obs"]["pixelShape"] = [float(x) for x in ps] if ps is not None else None
            pb = wr.pixel_bounds
            if ll.pixel_bounds is not None:
                expb = [((a - c) / q, (b - c) / q) for (a, b), q, c in zip(ll.pixel_bounds, fl, ol)]
                if pb is None or not np.allclose(np.array(pb, dtype=float), np.array(expb)):
                    fails.append(f"pixel_bounds {pb} != (bounds-offset)/factor {expb}")
                res["obs"]["bounds"] = None if pb is None else [[float(a), float(b)] for a, b in pb]
            elif pb is not None:
                fails.append("pixel_bounds invented")
            if not np.array_equal(np.asarray(wr.axis_correlation_matrix), np.asarray(ll.axis_correlation_matrix)):
                fails.append("correlation matrix changed by resampling")
            for name in ("world_axis_physical_types", "world_axis_units", "world_axis_names", "pixel_axis_names", "world_axis_object_components"):
                if list(getattr(wr, name)) != list(getattr(ll, name)):
                    fails.append(f"{name} changed by resampling: {list(getattr(wr, name))}")
            if wr.pixel_n_dim != ll.pixel_n_dim or wr.world_n_dim != ll.world_n_dim:
                fails.append("dimensions changed by resampling")
            ash = wr.array_shape
            if ps is not None and (ash is None or [float(x) for x in ash] != [float(x) for x in ps][::-1]):
                fails.append(f"array_shape {ash} is not pixel_shape {ps} reversed")
        elif kind == "reordered":
            shape = tuple(case["shape"])
            nd = len(shape)
            inner = W.make_wcs(rng, shape, case["fam"], case["with_shape"])
            ll = prewrap(W.low_level(inner), case)
            po = case["pixel_order"]
            wn = ll.world_n_dim
            wo = list(range(wn)); random.Random(case["wperm_seed"]).shuffle(wo)
            if case["world_order"] == "bad":
                wo = wo[:-1] + [wn]
            types = [str(t) for t in ll.world_axis_physical_types]
            res["model_req"] = {"op": "reordered", "wcs": wdesc(ll, True), "types": types, "pixelOrder": po, "worldOrder": wo,
                                "pixels": [[frac(x) for x in p] for p in case["pixels"]]}
            try:
                conv = {"list": list, "tuple": tuple, "ndarray": np.array}[case.get("order_type", "list")]
                wr, err = ReorderedLowLevelWCS(ll, conv(po), conv(wo)), None
            except Exception as e:
                wr, err = None, err_kind(e)
            res["impl"]["err"] = err
            isperm = sorted(po) == list(range(nd)) and sorted(wo) == list(range(wn))
            if not isperm:
                if err != "ValueError":
                    fails.append(f"orders {po} / {wo} that are not permutations gave {err or 'a wrapper'}")
                raise StopIteration
            if err:
                fails.append(f"valid orders {po} / {wo} refused with {err}")
                raise StopIteration
            if po != list(range(nd)) or wo != list(range(wn)):
                res["nontrivial"] = repr(sorted(case.items(), key=str))
            q = np.array(case["pixels"], dtype=float)                 # inputs of the wrapper
            # wrapper pixel axis k is inner pixel axis po[k]  =>  inner vector p with p[po[k]] = q[k]
            p = np.zeros_like(q)
            for k, a in enumerate(po):
                p[:, a] = q[:, k]
            got = eval_p2w(wr, q, case["input_form"])
            base = eval_p2w(ll, p, "scalar")
            want = base[:, wo]
            if got.shape != want.shape or not (np.array_equal(got, want, equal_nan=True) if exact else np.allclose(got, want, equal_nan=True, **tol)):
                fails.append(f"permuted evaluation differs: wrapper {got[0].tolist()} vs inner re-ordered {want[0].tolist()}")
            res["obs"] = {"world": got.tolist(), "types": [str(t) for t in wr.world_axis_physical_types],
                          "corr": W.corr_matrix(wr), "pixelShape": None if wr.pixel_shape is None else [int(x) for x in wr.pixel_shape]}
            for name in ("world_axis_physical_types", "world_axis_units", "world_axis_names", "world_axis_object_components"):
                a, b = list(getattr(wr, name)), list(getattr(ll, name))
                if a != [b[i] for i in wo]:
                    fails.append(f"{name} not re-ordered with the world order: {a}")
            if list(wr.pixel_axis_names) != [list(ll.pixel_axis_names)[i] for i in po]:
                fails.append("pixel_axis_names not re-ordered with the pixel order")
            if ll.pixel_shape is not None and list(wr.pixel_shape) != [ll.pixel_shape[i] for i in po]:
                fails.append(f"pixel_shape {wr.pixel_shape} not re-ordered with the pixel order")
            expc = np.asarray(ll.axis_correlation_matrix)[wo][:, po]
            if not np.array_equal(np.asarray(wr.axis_correlation_matrix), expc):
                fails.append("correlation matrix not re-ordered consistently")
            fin = np.isfinite(got).all(axis=1)
            if fin.any() and (not isinstance(inner, W.ProbeWCS) or inner.Ainv is not None):
                back = eval_w2p(wr, got[fin])
                if not np.allclose(back, q[fin], atol=1e-6, rtol=0):
                    fails.append(f"round trip of {q[fin][0].tolist()} gives {back[0].tolist()} (orders {po}/{wo})")
        else:
            mapping = list(case["mapping"])
            members = _members(case)
            total = sum(m.pixel_n_dim for m in members)
            res["model_req"] = {"op": "compound", "members": [wdesc(m, True) for m in members], "mapping": mapping,
                                "pixels": [[frac(x) for x in p] for p in case["pixels"]]}
            if case.get("bounds_mode"):
                res["model_req"]["bounds"] = [None if m.pixel_bounds is None else [[frac(a), frac(b)] for a, b in m.pixel_bounds] for m in members]
                tags.append(f"bounds={case['bounds_mode']}")
            try:
                wr, err = CompoundLowLevelWCS(*members, mapping=mapping), None
            except Exception as e:
                wr, err = None, err_kind(e)
            res["impl"]["err"] = err
            if len(mapping) != total:
                if err != "ValueError":
                    fails.append(f"mapping of wrong length gave {err or 'a wrapper'}")
                raise StopIteration
            # shape agreement on shared axes
            # (a member without a declared shape takes no part in the shape comparison: the compound then has none)
            shapeless = any(m.pixel_shape is None for m in members)
            pshape = [x for m in members for x in (m.pixel_shape if m.pixel_shape is not None else [None] * m.pixel_n_dim)]
            gap = any(i not in mapping for i in range(max(mapping) + 1))
            disagree = gap or (not shapeless and any(pshape[i] != pshape[mapping.index(mapping[i])] for i in range(total)))
            if not disagree and all(m.pixel_bounds is not None for m in members):
                pb = [tuple(b) for m in members for b in m.pixel_bounds]
                if any(pb[i] != pb[mapping.index(mapping[i])] for i in range(total)):
                    disagree = True
                    tags.append("bounds-disagree")
            if disagree:
                if err != "ValueError":
                    fails.append(f"mapping {mapping} leaves an input unused / members disagree in shape or bounds on a shared axis but the wrapper was {err or 'accepted'}")
                raise StopIteration
            if err:
                fails.append(f"valid mapping {mapping} refused with {err}")
                raise StopIteration
            res["nontrivial"] = repr(sorted(case.items(), key=str))
            nin = max(mapping) + 1
            if wr.pixel_n_dim != nin:
                fails.append(f"pixel_n_dim {wr.pixel_n_dim} != number of inputs {nin}")
            pts = np.array(case["pixels"], dtype=float)
            got = eval_p2w(wr, pts, case["input_form"])
            want = []
            for p in pts:
                mapped = [p[i] for i in mapping]
                row, k = [], 0
                for m in members:
                    row += W.p2w(m, mapped[k:k + m.pixel_n_dim]); k += m.pixel_n_dim
                want.append(row)
            want = np.array(want)
            if got.shape != want.shape or not np.array_equal(got, want):
                fails.append(f"compound forward {got[0].tolist()} != members on mapped axes {want[0].tolist()}")
            # per-world-axis attributes are the members' concatenated, in member order
            for name in ("world_axis_physical_types", "world_axis_units", "world_axis_names"):
                want_attr = [x for m in members for x in getattr(m, name)]
                if list(getattr(wr, name)) != want_attr:
                    fails.append(f"{name} {list(getattr(wr, name))} is not the members' concatenated {want_attr}")
            if wr.world_n_dim != sum(m.world_n_dim for m in members):
                fails.append(f"world_n_dim {wr.world_n_dim} != sum of the members' {sum(m.world_n_dim for m in members)}")
            if len(wr.world_axis_object_components) != wr.world_n_dim:
                fails.append(f"{len(wr.world_axis_object_components)} object components for {wr.world_n_dim} world axes")
            # correlation matrix = OR over mapped columns
            full = np.zeros((wr.world_n_dim, total), dtype=bool)
            iw = ip = 0
            for m in members:
                full[iw:iw + m.world_n_dim, ip:ip + m.pixel_n_dim] = m.axis_correlation_matrix
                iw += m.world_n_dim; ip += m.pixel_n_dim
            expc = np.zeros((wr.world_n_dim, nin), dtype=bool)
            for i, ix in enumerate(mapping):
                expc[:, ix] |= full[:, i]
            if not np.array_equal(np.asarray(wr.axis_correlation_matrix), expc):
                fails.append("correlation matrix is not the OR of the members' columns")
            res["obs"] = {"world": got.tolist(), "pixDim": int(wr.pixel_n_dim), "worldDim": int(wr.world_n_dim),
                          "corr": W.corr_matrix(wr), "arrayShape": None if wr.array_shape is None else [int(x) for x in wr.array_shape]}
            # inverse: consistent and inconsistent world inputs
            invertible = all(m.Ainv is not None for m in members)
            if invertible:
                back_obs, mpix = [], []
                for p, wv in zip(pts, got):
                    wv = list(wv)
                    if case["inconsistent"] and len(set(mapping)) < total:
                        # perturb the world of a later user of a shared axis (any of them: with three or
                        # more users the disagreement may sit on the last one only)
                        dups = [i for i in range(total) if mapping.index(mapping[i]) != i]
                        dup = dups[(case["wseed"] + len(back_obs)) % len(dups)]
                        k, acc = 0, 0
                        for mi, m in enumerate(members):
                            if dup < acc + m.pixel_n_dim:
                                pm = [p[j] for j in mapping][acc:acc + m.pixel_n_dim]
                                pm[dup - acc] += 1
                                wnew = W.p2w(m, pm)
                                wv[k:k + m.world_n_dim] = wnew
                                break
                            acc += m.pixel_n_dim; k += m.world_n_dim
                    flat, k = [], 0
                    for m in members:
                        r = m.world_to_pixel_values(*wv[k:k + m.world_n_dim])
                        r = [r] if m.pixel_n_dim == 1 and not isinstance(r, (tuple, list)) else list(r)
                        flat += [float(np.asarray(x)) for x in r]; k += m.world_n_dim
                    mpix.append([frac(x) for x in flat])
                    consistent = all(flat[i] == flat[mapping.index(mapping[i])] for i in range(total))
                    try:
                        r = wr.world_to_pixel_values(*wv)
                        r = [float(np.asarray(x)) for x in (r if isinstance(r, (tuple, list)) else [r])]
                        e2 = None
                    except Exception as e:
                        r, e2 = None, err_kind(e)
                    back_obs.append({"err": e2} if e2 else r)
                    if not consistent:
                        if e2 != "ValueError":
                            fails.append(f"world values implying different positions on a shared pixel axis gave {e2 or r}")
                    else:
                        if e2:
                            fails.append(f"consistent world values refused with {e2}")
                        elif not np.allclose(r, p, atol=1e-9):
                            fails.append(f"round trip of {p.tolist()} gives {r}")
                res["obs"]["back"] = back_obs
                res["model_req"]["memberPixels"] = mpix
    except StopIteration:
        pass
    except Exception as e:
        import traceback
        fails.append(f"observing the wrapper raised {type(e).__name__}: {str(e)[:160]}")
        res["trace"] = traceback.format_exc()[-900:]
    tags.append("outcome=" + (res["impl"]["err"] or "ok"))
    if fails:
        res["oracle"] = "; ".join(fails[:2])
    return res


def base_eval(case, member=None):
    rng = random.Random(case["wseed"])
    inner = W.make_wcs(rng, tuple(case["shape"]), case["fam"], case["with_shape"])
    if case["kind"] == "resampled" and case.get("bounds") and isinstance(inner, W.ProbeWCS):
        inner._bounds = [(-0.5, s - 0.5) for s in tuple(case["shape"])[::-1]]
    return prewrap(W.low_level(inner), case)


def compare(case, r, m):
    err = r["impl"]["err"]
    if err:
        if "err" not in m:
            return f"implementation raised {err}, model returns a wrapper"
        return None if m["err"] == err else f"implementation raised {err}, model says {m['err']}"
    if "err" in m:
        return f"implementation built a wrapper, model says {m['err']}"
    if "obs" not in r:
        return None
    o = r["obs"]
    exact = case["fam"].startswith("probe")
    kind = case["kind"]
    if kind in ("resampled", "reordered"):
        inner = W.low_level(base_eval(case))
        for got, terms in zip(o["world"], m["world"]):
            want = [W.p2w(inner, [unfrac(t) for t in term["at"]])[term["w"]] for term in terms]
            if not W.close(got, want, exact):
                return f"{kind}: implementation {got} vs model terms {want}"
        if kind == "resampled":
            if "pixelShape" in o and o["pixelShape"] is not None:
                mp = [unfrac(x) for x in m["pixelShape"]]
                if not np.allclose(o["pixelShape"], mp, rtol=1e-12):
                    return f"pixel_shape: implementation {o['pixelShape']} vs model {mp}"
            if o.get("bounds") is not None:
                mb = [[unfrac(a), unfrac(b)] for a, b in m["bounds"]]
                if not np.allclose(o["bounds"], mb):
                    return f"pixel_bounds: implementation {o['bounds']} vs model {mb}"
        else:
            for k in ("types", "corr", "pixelShape"):
                if o[k] != m[k]:
                    return f"{k}: implementation {o[k]} vs model {m[k]}"
        return None
    # compound
    for k in ("pixDim", "worldDim", "corr", "arrayShape"):
        if o[k] != m[k]:
            return f"{k}: implementation {o[k]} vs model {m[k]}"
    mshapes = case["members"]
    # rebuild members exactly as run() did
    import copy
    c2 = copy.deepcopy(case)
    r2 = run.__globals__["_members"](c2)
    for got, terms in zip(o["world"], m["world"]):
        want = [W.p2w(r2[t["member"]], [unfrac(x) for x in t["at"]])[t["w"]] for t in terms]
        if not W.close(got, want, True):
            return f"compound: implementation {got} vs model terms {want}"
    if "back" in o:
        for a, b in zip(o["back"], m["back"]):
            if isinstance(a, dict) or isinstance(b, dict):
                if isinstance(a, dict) != isinstance(b, dict):
                    return f"world_to_pixel: implementation {a} vs model {b}"
                continue
            if not np.allclose(a, [unfrac(x) for x in b]):
                return f"world_to_pixel: implementation {a} vs model {b}"
    return None


def _members(case):
    mshapes = [list(s) for s in case["members"]]
    mapping = list(case["mapping"])
    total = sum(len(s) for s in mshapes)
    if case["fix_shapes"] and len(mapping) == total:
        lens = {}
        flat = [(mi, ax) for mi, s in enumerate(mshapes) for ax in range(len(s))]
        for i, (mi, ax) in enumerate(flat):
            arr_ax = len(mshapes[mi]) - 1 - ax
            lens.setdefault(mapping[i], mshapes[mi][arr_ax])
            mshapes[mi][arr_ax] = lens[mapping[i]]
    members = []
    kinds = case.get("member_kinds") or ["square"] * len(mshapes)
    for mi, (s, k) in enumerate(zip(mshapes, kinds)):
        w = W.make_probe(random.Random(case["wseed"] + mi), s, True, kind="coupled" if case["fam"] == "probe_coupled" else "sep",
                         extra_world=(k == "extra_world"), drop_world=(k == "drop_world"))
        w._names = [f"m{mi}{n}" for n in w._names]
        members.append(w)
    mode = case.get("bounds_mode")
    if mode and len(mapping) == sum(m.pixel_n_dim for m in members):
        # flat position i (member, pixel axis) is input mapping[i]; the first axis mapped to an input sets its bounds,
        # later users agree or differ according to the mode (the last duplicate only, so that one pair disagrees)
        r = random.Random(case["wseed"] + 23)
        base, flat = {}, []
        dups = [i for i in range(len(mapping)) if mapping.index(mapping[i]) != i]
        odd = dups[-1] if dups else None
        for i, ix in enumerate(mapping):
            if ix not in base:
                lo = r.choice([-0.5, 0.5, 1.5]); base[ix] = (lo, lo + r.choice([6, 8, 10]))
            lo, hi = base[ix]
            if i == odd and mode == "one_end":
                lo, hi = (lo, hi - 2) if r.random() < 0.5 else (lo + 1, hi)
            elif i == odd and mode == "both_ends":
                lo, hi = lo + 1, hi - 1
            flat.append((lo, hi))
        k = 0
        for mi, m in enumerate(members):
            m._bounds = None if (mode == "some_none" and mi == len(members) - 1) else [tuple(x) for x in flat[k:k + m.pixel_n_dim]]
            k += m.pixel_n_dim
        if case["wseed"] % 4 == 3 and all(i in mapping for i in range(max(mapping) + 1)):
            # a member that declares bounds but no array shape (a gWCS with a bounding box, a FITS WCS with bounds only):
            # the bounds of shared axes are checked all the same
            members[0]._shape = None
    return members


def signature(case, failure):
    return "other:" + failure[:60]


def shrink(case):
    if case["input_form"] != "scalar":
        yield {**case, "input_form": "scalar"}
    if case["fam"] != "probe":
        yield {**case, "fam": "probe"}
    if len(case["pixels"]) > 1:
        yield {**case, "pixels": case["pixels"][:1]}
