"""Cubes with extra coordinates for C02 / C03 (and reusable by others): layouts, construction,
canonical values of high-level coordinate objects, and model-independent bookkeeping."""
import json, os, random, subprocess, sys
import numpy as np
import astropy.units as u
from astropy.time import Time
from astropy.coordinates import SkyCoord

import common as C
import wcsfam as W

T0 = Time("2020-01-01T00:00:00", scale="utc")
KINDS_1 = ["quantity", "quantity", "time", "sky1"]
KINDS_2 = ["quantity2", "sky2d", "sky2mesh"]
SEPARABLE = ("quantity2", "quantity3")


def gen_layout(rng, nd, shape, n_ecs=None, allow_wcs=True, p_wcs=0.12):
    """Returns (ecs, shape); shape may be adjusted so that a meshed SkyCoord table is square."""
    shape = list(shape)
    if allow_wcs and rng.random() < p_wcs:
        n = rng.randint(1, nd)
        shared = rng.random() < 0.3
        mapping = [rng.randrange(n) for _ in range(n)] if shared else rng.sample(range(n), n)
        # a separable FITS WCS, or (on distinct axes) one with a coupled celestial pair
        efam = "fits_cel" if (not shared and n >= 2 and rng.random() < 0.5) else "fits_sep"
        return [{"kind": "wcs", "mapping": mapping, "efam": efam}], shape
    ecs = []
    n_ecs = rng.choice([0, 1, 1, 2, 2, 3, 4]) if n_ecs is None else n_ecs
    for _ in range(n_ecs):
        if nd >= 3 and rng.random() < 0.12:
            ecs.append({"kind": "quantity3", "axes": rng.sample(range(nd), 3)})
        elif nd >= 2 and rng.random() < 0.35:
            kind = rng.choice(KINDS_2)
            axes = rng.sample(range(nd), 2)
            if kind != "quantity2":
                axes = sorted(axes)
            if kind == "sky2mesh":
                shape[axes[1]] = shape[axes[0]]
            ecs.append({"kind": kind, "axes": axes})
        else:
            ecs.append({"kind": rng.choice(KINDS_1), "axes": [rng.randrange(nd)]})
    # a later meshed table may have changed a length an earlier one relies on: re-square all
    for e in ecs:
        if e["kind"] == "sky2mesh":
            shape[e["axes"][1]] = shape[e["axes"][0]]
    for e in ecs:
        if e["kind"] == "sky2mesh" and shape[e["axes"][1]] != shape[e["axes"][0]]:
            e["kind"] = "sky2d"
    return ecs, shape


def names_of(k, ec):
    kind = ec["kind"]
    if kind == "quantity":
        return [f"q{k}"]
    if kind == "time":
        return [f"t{k}"]
    if kind == "quantity2":
        return [f"qa{k}", f"qb{k}"]
    if kind == "quantity3":
        return [f"qa{k}", f"qb{k}", f"qc{k}"]
    return [f"lon{k}", f"lat{k}"]


def other_angle_units(lon, lat, k):
    """the same angles, for some table positions stored in other units than the frame's default degrees"""
    if k % 3 == 1:
        return lon.to(u.hourangle), lat.to(u.rad)
    if k % 3 == 2:
        return lon.to(u.arcsec), lat.to(u.arcmin)
    return lon, lat


def sky_frame(k):
    """ICRS, or (for some table positions) a frame with a non-default attribute: FK5 at equinox J1975"""
    from astropy.coordinates import FK5
    return FK5(equinox="J1975") if k % 2 == 1 else "icrs"


def sky_frames_of(cube):
    """reprs of the celestial frames the cube's extra coordinates declare (through their WCS's object classes)"""
    w = cube.extra_coords.wcs
    if w is None:
        return []
    ll = w.low_level_wcs if hasattr(w, "low_level_wcs") else w
    out = []
    for key, (cls, args, kwargs, *rest) in ll.world_axis_object_classes.items():
        fr = kwargs.get("frame") if isinstance(kwargs, dict) else None
        if fr is not None:
            out.append(repr(fr))
    return sorted(out)


def sky_types(k):
    """custom physical types for every second SkyCoord table (the others keep the frame's defaults)"""
    return {"physical_types": (f"custom:pos.slit.lon{k}", f"custom:pos.slit.lat{k}")} if k % 2 == 1 else {}


def add_ecs(cube, ecs, shape, voff=0.0, ishift=None):
    """`ishift` (per array axis, whole pixels) moves the 1-D Quantity / Time tables: entry i is the
    unshifted table's formula at i - ishift[axis]."""
    from ndcube.extra_coords.table_coord import QuantityTableCoordinate
    from ndcube import ExtraCoords
    for k, ec in enumerate(ecs):
        kind = ec["kind"]
        if kind == "wcs":
            sub = [shape[len(shape) - 1 - m] for m in ec["mapping"]][::-1]   # array shape of the EC wcs
            ew = W.make_fits(random.Random(77 + len(shape)), sub, ec.get("efam", "fits_sep"))
            ew.wcs.cname = ["ec_" + str(c) for c in ew.wcs.cname]   # names distinct from the primary WCS's
            ew.wcs.set()
            e = ExtraCoords(cube)
            e.wcs = ew
            e.mapping = tuple(ec["mapping"])
            cube._extra_coords = e
            continue
        axes = ec["axes"]
        n = shape[axes[0]]
        x = np.arange(n, dtype=float) - (ishift[axes[0]] if ishift and kind in ("quantity", "time") else 0)
        v = x ** 2 + 3 * x + 10 * k + voff
        nm = names_of(k, ec)
        if kind == "quantity" and ec.get("dup"):
            # the table before this one, again, in another unit
            cube.extra_coords.add(nm[0], axes[0], ((v - 10) * 100) * u.cm, physical_types=f"custom:q{k}")
        elif kind == "quantity":
            cube.extra_coords.add(nm[0], axes[0], v * u.m, physical_types=f"custom:q{k}")
        elif kind == "time":
            # (Time tables in the usual scales, by table position: instants matter, not clock readings)
            # (whole minutes plus, for every second table, a sub-millisecond part that a string format does not keep)
            fine = (np.arange(len(v)) * 0.1234567e-3 * u.s) if k % 2 else 0 * u.s
            cube.extra_coords.add(nm[0], axes[0], Time(T0.isot, scale=["utc", "tai", "tt"][k % 3]) + v * u.min + fine)
        elif kind == "sky1":
            cube.extra_coords.add(tuple(nm), axes[0], SkyCoord(*other_angle_units(v * u.deg / 10, (v / 2 - 5) * u.deg / 10, k), frame=sky_frame(k)), mesh=False,
                                  **sky_types(k))
        elif kind == "quantity2":
            n1 = shape[axes[1]]
            t0 = (np.arange(n, dtype=float) * 2 + 100 * k) * u.m
            t1 = (np.arange(n1, dtype=float) ** 2 + 7 * k) * u.cm      # equivalent units may differ between the tables
            cube.extra_coords.add(tuple(nm), tuple(axes),
                                  QuantityTableCoordinate(t0, t1, names=tuple(nm),
                                                          **({"physical_types": (f"custom:qa{k}", f"custom:qb{k}")} if k % 2 == 0 else {})))
        elif kind == "quantity3":
            tabs = [(np.arange(shape[a], dtype=float) * (j + 2) + 50 * k + 7 * j) * [u.m, u.cm, u.mm][j] for j, a in enumerate(axes)]
            cube.extra_coords.add(tuple(nm), tuple(axes),
                                  QuantityTableCoordinate(*tabs, names=tuple(nm),
                                                          **({"physical_types": tuple(f"custom:{x}" for x in nm)} if k % 2 == 0 else {})))
        elif kind == "sky2d":
            n1 = shape[axes[1]]
            ii, jj = np.meshgrid(np.arange(n, dtype=float), np.arange(n1, dtype=float), indexing="ij")
            cube.extra_coords.add(tuple(nm), tuple(axes), SkyCoord(*other_angle_units((ii * 7 + jj + k) * u.deg / 10, (ii - 2 * jj) * u.deg / 10, k), frame=sky_frame(k)), mesh=False,
                                  **sky_types(k))
        elif kind == "sky2mesh":
            lon = (np.arange(n, dtype=float) * 3 + k) * u.deg / 10
            lat = (np.arange(n, dtype=float) ** 2 - 4) * u.deg / 10
            cube.extra_coords.add(tuple(nm), tuple(axes), SkyCoord(*other_angle_units(lon, lat, k), frame=sky_frame(k)), mesh=True, **sky_types(k))
    return cube


def build_cube(shape, fam, wseed, ecs, with_shape=True):
    from ndcube import NDCube
    rng = random.Random(wseed)
    wcs = W.make_wcs(rng, tuple(shape), fam, with_shape)
    cube = None
    if wseed % 7 == 3:
        # (one cube in seven is reached by slicing a larger one: see common.via_slicing)
        cube = C.via_slicing(C.payload(tuple(shape), 0), wcs, wseed)
    if cube is None:
        cube = NDCube(C.payload(tuple(shape), 0), wcs=wcs)
    return add_ecs(cube, ecs, list(shape))


def table_order(ecs):
    """(k, ec) in the order ExtraCoords keeps its tables: `add` sorts them (stably) by their
    first array axis."""
    return sorted(enumerate(ecs), key=lambda p: p[1]["axes"][0] if p[1]["kind"] != "wcs" else 0)


def coord_deps(ecs, cube=None):
    """name -> original array axes the coordinate depends on, in extra-coords world order.
    For a WCS-backed layout the names come from the cube."""
    out = []
    for k, ec in table_order(ecs):
        if ec["kind"] == "wcs":
            nd = cube.data.ndim
            ew = cube.extra_coords.wcs
            names = list(ew.world_axis_names)
            corr = np.asarray(ew.axis_correlation_matrix, dtype=bool)
            for i in range(len(names)):
                out.append((names[i], sorted({nd - 1 - ec["mapping"][j] for j in range(corr.shape[1]) if corr[i, j]})))
            continue
        nm = names_of(k, ec)
        if ec["kind"] in SEPARABLE:
            for x, a in zip(nm, ec["axes"]):
                out.append((x, [a]))
        else:
            for x in nm:
                out.append((x, list(ec["axes"])))
    return out


def expand_item(item, nd):
    """numpy's expansion of a basic index (no None) to one entry per axis."""
    item = list(item) if isinstance(item, (tuple, list)) else [item]
    if any(i is Ellipsis for i in item):
        k = [i is Ellipsis for i in item].index(True)
        item = item[:k] + [slice(None)] * (nd - (len(item) - 1)) + item[k + 1:]
    return item + [slice(None)] * (nd - len(item))


def surviving_axes(nd, chain):
    """Original array axes still present after the chain, in order."""
    axes = list(range(nd))
    for item in chain:
        full = expand_item(item, len(axes))
        axes = [a for a, it in zip(axes, full) if isinstance(it, slice)]
    return axes


def gen_axis_item(rng, n, p_int=0.35):
    """A valid item for an axis of length n giving a non-empty result."""
    r = rng.random()
    if r < p_int:
        return rng.randint(-n, n - 1)
    if r < p_int + 0.15:
        return C.sl()
    for _ in range(20):
        a = None if rng.random() < 0.3 else rng.randint(-n - 1, n + 1)
        b = None if rng.random() < 0.3 else rng.randint(-n - 1, n + 1)
        if len(range(n)[slice(a, b)]) > 0:
            return C.sl(a, b)
    return C.sl()


def gen_chain(rng, shape, steps, need_drop=False, pattern=None):
    """Chain of valid items (JSON form) each leaving at least one non-empty axis."""
    chain = []
    shape = list(shape)
    # targeted pattern "ranges": every step cuts ranges only, by different amounts per axis, so that state
    # kept per axis by an earlier step (lazily composed slices) meets axes of unequal remaining lengths
    ranges_only = pattern == "ranges" or (pattern is None and steps >= 2 and rng.random() < 0.12)
    # a targeted pattern: first cut a range that does not start at 0 on every axis, then index
    # with integers - what later steps pick is then relative to a shifted origin
    offset_then_int = steps >= 2 and not ranges_only and rng.random() < 0.45
    # another targeted pattern: every step drops exactly one axis (coupled pairs lose their axes one at a time)
    one_by_one = steps >= 2 and not offset_then_int and not ranges_only and rng.random() < 0.4
    for s in range(steps):
        if not shape:
            break
        for _ in range(30):
            if ranges_only:
                items = []
                for n in shape:
                    a = rng.randint(0, max(0, n - 2)) if n >= 2 else 0
                    b = rng.randint(a + 1, n)
                    items.append(C.sl(a if rng.random() < 0.7 else a - n, b if rng.random() < 0.6 else (None if b == n else b - n)))
            elif one_by_one and len(shape) >= 2:
                items = [C.sl() for _ in shape]
                k = rng.randrange(len(shape))
                items[k] = rng.randint(-shape[k], shape[k] - 1)
            elif offset_then_int and s == 0:
                items = [C.sl(rng.randint(1, n - 1), None if rng.random() < 0.5 else n + 1) if n >= 2 else C.sl() for n in shape]
            elif offset_then_int:
                items = [gen_axis_item(rng, n, 0.7) for n in shape]
            else:
                items = [gen_axis_item(rng, n, 0.45 if need_drop else 0.3) for n in shape]
            if all(not isinstance(i, dict) for i in items):
                items[rng.randrange(len(items))] = C.sl()
            r = 1.0 if ranges_only else rng.random()
            if r < 0.2:
                # (an Ellipsis that stands for no axis at all is C01's known finding)
                i = rng.randrange(len(items))
                j = rng.randint(i + 1, len(items))
                items = items[:i] + ["..."] + items[j:]
            elif r < 0.4:
                items = items[:rng.randint(1, len(items))]
            new = np.empty(shape)[C.to_py_index(items)].shape
            if len(new) >= 1 and all(x > 0 for x in new):
                break
        else:
            items, new = [C.sl()], tuple(shape)
        chain.append(items)
        shape = list(new)
        if len(shape) <= 1 and rng.random() < 0.5:
            break
    return chain


def canon_objects(objs, npts):
    """High-level coordinate objects -> list of float arrays, one per world component."""
    if not isinstance(objs, (list, tuple)):
        objs = [objs]
    out = []
    for o in objs:
        if isinstance(o, SkyCoord):
            sph = o.spherical
            out.append(np.broadcast_to(sph.lon.to_value(u.deg), (npts,)).astype(float))
            out.append(np.broadcast_to(sph.lat.to_value(u.deg), (npts,)).astype(float))
        elif isinstance(o, Time):
            out.append(np.broadcast_to((o - T0).to_value(u.s), (npts,)).astype(float))
        elif isinstance(o, u.Quantity):
            out.append(np.broadcast_to(o.to_value(o.unit), (npts,)).astype(float))
        else:
            v = getattr(o, "value", o)
            out.append(np.broadcast_to(np.asarray(v, dtype=float), (npts,)).astype(float))
    return out


def ec_values(cube, elements):
    """name -> float array (one per element) of the extra coordinates at the given array
    elements (list of index lists), through the extra coords' own WCS and mapping."""
    ec = cube.extra_coords
    w = ec.wcs
    if w is None:
        return {}, []
    nd = cube.data.ndim
    mapping = [int(m) for m in ec.mapping]
    el = np.asarray(elements, dtype=float).reshape(len(elements), nd)
    pix = [el[:, nd - 1 - m] for m in mapping]
    ll = w.low_level_wcs if hasattr(w, "low_level_wcs") else w
    vals = ll.pixel_to_world_values(*pix)
    if ll.world_n_dim == 1 and not isinstance(vals, (tuple, list)):
        vals = [vals]
    vals = [np.broadcast_to(np.asarray(v, dtype=float), (len(elements),)) for v in vals]
    # physical values: lengths in metres whatever unit the (possibly re-built) WCS reports them in
    # (a multi-table Quantity coordinate reports every axis in the unit of its first table, which
    # changes when that table is sliced away)
    scale = []
    for un in ll.world_axis_units:
        try:
            q = u.Unit(un)
            scale.append(float(q.to(u.m)) if q.is_equivalent(u.m) and str(un) not in ("", "m") else 1.0)
        except Exception:
            scale.append(1.0)
    vals = [v * sc if sc != 1.0 else v for v, sc in zip(vals, scale)]
    names = list(ll.world_axis_names)
    if len(vals) != len(names):
        raise RuntimeError(f"{len(vals)} world values for world axes {names}")
    return dict(zip(names, vals)), names


def ec_types(cube):
    w = cube.extra_coords.wcs
    if w is None:
        return {}
    ll = w.low_level_wcs if hasattr(w, "low_level_wcs") else w
    return dict(zip(ll.world_axis_names, map(str, ll.world_axis_physical_types)))


def fresh_observe(modname, case, hashseed):
    """Run `modname.observe_order(case)` in a fresh interpreter."""
    here = os.path.dirname(os.path.abspath(__file__))
    code = ("import sys, json, warnings; warnings.filterwarnings('ignore'); sys.path.insert(0, %r); "
            "import importlib; m = importlib.import_module(%r); "
            "print('OBS' + json.dumps(m.observe_order(json.loads(sys.stdin.read()))))" % (here, modname))
    env = dict(os.environ, PYTHONHASHSEED=str(hashseed))
    p = subprocess.run([sys.executable, "-c", code], input=json.dumps(case), capture_output=True, text=True, env=env, timeout=300)
    for line in p.stdout.splitlines():
        if line.startswith("OBS"):
            return json.loads(line[3:])
    raise RuntimeError("fresh interpreter failed: " + p.stderr[-400:])
