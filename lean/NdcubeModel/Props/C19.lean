import NdcubeModel.Model.Table
import NdcubeModel.Lemmas.Table
import NdcubeModel.Lemmas.Index

/-!
# C19 — lookup-table coordinates reproduce their tables
-/

namespace Ndcube.C19
open Ndcube

theorem floor_natCast (i : Nat) : ((i : Rat)).floor = (i : Int) := by
  have h : ((i : Nat) : Rat) = (((i : Int)) : Rat) := by norm_cast
  rw [h]; exact Rat.floor_intCast _

theorem lt_floor_add_one_cast (x : Rat) : x < (x.floor : Rat) + 1 := by
  have := Rat.lt_floor_add_one x
  push_cast at this
  exact this

theorem floor_eq_of (x : Rat) (i : Int) (h1 : (i : Rat) ≤ x) (h2 : x < (i : Rat) + 1) : x.floor = i := by
  have a : i ≤ x.floor := Rat.le_floor_iff.mpr h1
  have b : x.floor < i + 1 := Rat.floor_lt_iff.mpr (by push_cast; exact h2)
  omega

/-- **Entry `i` at integer pixel `i`** — for every table and every `i` (the last entry included). -/
theorem table_at_integer (t : List Rat) (i : Nat) : interp1 t (i : Rat) = t[i]? := by
  have h0 : ¬ ((i : Rat) < 0) := by
    have : (0 : Rat) ≤ (i : Rat) := by exact_mod_cast Nat.zero_le i
    grind
  simp only [interp1, h0, if_false, floor_natCast, Int.toNat_natCast, if_true]

/-- **Linear in between**: at `i + θ` with `0 < θ < 1` the value is `t_i + θ (t_{i+1} − t_i)`
when both entries exist, and there is no value otherwise. -/
theorem table_between (t : List Rat) (i : Nat) (θ : Rat) (h0 : 0 < θ) (h1 : θ < 1) :
    interp1 t ((i : Rat) + θ) =
      match t[i]?, t[i + 1]? with
      | some a, some b => some (a + θ * (b - a))
      | _, _ => none := by
  have hi : (0 : Rat) ≤ (i : Rat) := by exact_mod_cast Nat.zero_le i
  have hneg : ¬ ((i : Rat) + θ < 0) := by grind
  have hfl : ((i : Rat) + θ).floor = (i : Int) := by
    apply floor_eq_of
    · push_cast; grind
    · push_cast; grind
  have hne : ¬ (((i : Nat) : Rat) = (i : Rat) + θ) := by grind
  simp only [interp1, hneg, if_false, hfl, Int.toNat_natCast, hne]
  cases t[i]? <;> cases t[i + 1]? <;> simp
  congr 1
  grind

/-- … and that value lies between the two entries. -/
theorem table_between_bounds (a b θ : Rat) (h0 : 0 ≤ θ) (h1 : θ ≤ 1) (hab : a ≤ b) :
    a ≤ a + θ * (b - a) ∧ a + θ * (b - a) ≤ b := by
  have h2 : 0 ≤ b - a := by grind
  have h3 : 0 ≤ θ * (b - a) := Rat.mul_nonneg h0 h2
  have h4 : θ * (b - a) ≤ 1 * (b - a) := Rat.mul_le_mul_of_nonneg_right h1 h2
  constructor <;> grind

/-- **No value outside the table**: before pixel 0 and beyond pixel `n − 1`. -/
theorem table_outside (t : List Rat) (x : Rat) (h : x < 0 ∨ ((t.length : Rat) - 1 < x)) :
    interp1 t x = none := by
  rcases h with h | h
  · simp [interp1, h]
  · by_cases hneg : x < 0
    · simp [interp1, hneg]
    · have hx0 : 0 ≤ x := by grind
      have hfl0 : 0 ≤ x.floor := by
        rw [Rat.le_floor_iff]; exact_mod_cast hx0
      have hfl : ((x.floor.toNat : Nat) : Int) = x.floor := Int.toNat_of_nonneg hfl0
      have hflr : ((x.floor.toNat : Nat) : Rat) = (x.floor : Rat) := by exact_mod_cast hfl
      have hle : (x.floor : Rat) ≤ x := Rat.floor_le x
      have hlt : x < (x.floor : Rat) + 1 := lt_floor_add_one_cast x
      simp only [interp1, hneg, if_false]
      by_cases heq : ((x.floor.toNat : Nat) : Rat) = x
      · simp only [heq, if_true]
        have : t.length ≤ x.floor.toNat := by
          have h5 : (t.length : Rat) - 1 < ((x.floor.toNat : Nat) : Rat) := by rw [heq]; exact h
          have h6 : (t.length : Rat) < ((x.floor.toNat + 1 : Nat) : Rat) := by push_cast; grind
          have h7 : t.length < x.floor.toNat + 1 := by exact_mod_cast h6
          omega
        exact List.getElem?_eq_none this
      · simp only [heq, if_false]
        have : t.length ≤ x.floor.toNat + 1 := by
          have h5 : (t.length : Rat) - 1 < ((x.floor.toNat : Nat) : Rat) + 1 := by rw [hflr]; grind
          have h6 : (t.length : Rat) < ((x.floor.toNat + 2 : Nat) : Rat) := by push_cast; grind
          have h7 : t.length < x.floor.toNat + 2 := by exact_mod_cast h6
          omega
        rw [List.getElem?_eq_none this]
        cases t[x.floor.toNat]? <;> rfl

/-- **Entries map back to their pixel** for every strictly increasing table. -/
theorem table_inverse_entries (t : List Rat) (hmono : t.Pairwise (· < ·)) (i : Nat) (y : Rat)
    (hy : t[i]? = some y) : inv1 t y = some (i : Rat) := by
  induction t generalizing i with
  | nil => simp at hy
  | cons a rest ih =>
    cases rest with
    | nil =>
      cases i with
      | zero => simp at hy; subst hy; simp [inv1]
      | succ i => simp at hy
    | cons b rest' =>
      rw [List.pairwise_cons] at hmono
      have hab : a < b := hmono.1 b (by simp)
      cases i with
      | zero =>
        simp at hy; subst hy
        have h1 : ¬ (a < a) := by grind
        have h2 : a ≤ b ∧ a < b := ⟨by grind, hab⟩
        simp only [inv1, h1, if_false, h2, and_self, if_true]
        congr 1
        have : b - a ≠ 0 := by grind
        grind
      | succ i =>
        simp only [List.getElem?_cons_succ] at hy
        have hmem : y ∈ b :: rest' := List.mem_of_getElem? hy
        have hay : a < y := hmono.1 y hmem
        have h1 : ¬ (y < a) := by grind
        cases i with
        | zero =>
          simp at hy; subst hy
          have h2 : b ≤ b ∧ a < b := ⟨by grind, hab⟩
          simp only [inv1, h1, if_false, h2, and_self, if_true]
          congr 1
          have : b - a ≠ 0 := by grind
          push_cast
          grind
        | succ i =>
          have hby : b < y := by
            have hm2 := hmono.2
            rw [List.pairwise_cons] at hm2
            simp only [List.getElem?_cons_succ] at hy
            exact hm2.1 y (List.mem_of_getElem? hy)
          have h2 : ¬ (y ≤ b ∧ a < b) := by grind
          simp only [inv1, h1, if_false, h2]
          rw [ih hmono.2 (i + 1) hy]
          simp only [Option.map_some]
          congr 1
          push_cast
          grind

/-- … and for every strictly decreasing table (the inverse reverses it). -/
theorem table_inverse_entries_desc (t : List Rat) (hmono : t.Pairwise (· > ·)) (i : Nat) (y : Rat)
    (hy : t[i]? = some y) : inv1Desc t y = some (i : Rat) := by
  have hi : i < t.length := (List.getElem?_eq_some_iff.mp hy).1
  have hrev : t.reverse.Pairwise (· < ·) := by
    rw [List.pairwise_reverse]; exact hmono
  have hget : t.reverse[t.length - 1 - i]? = some y := by
    rw [List.getElem?_reverse (by omega)]
    have : t.length - 1 - (t.length - 1 - i) = i := by omega
    rw [this]; exact hy
  simp only [inv1Desc, table_inverse_entries t.reverse hrev _ y hget, Option.map_some]
  congr 1
  have h1 : ((t.length - 1 - i : Nat) : Rat) = (t.length : Rat) - 1 - (i : Rat) := by
    have : t.length - 1 - i + i + 1 = t.length := by omega
    have h2 : ((t.length - 1 - i + i + 1 : Nat) : Rat) = (t.length : Rat) := by exact_mod_cast this
    push_cast at h2
    grind
  rw [h1]; grind

/-- **Slicing gives the coordinate of the sliced table**: pixel `x` of the sliced coordinate is
pixel `lo + x` of the original, for every position inside the new table (integer or not) and
every Python slice (open, negative, over-long bounds). -/
theorem table_slice (t : List Rat) (s e : Option Int) (x : Rat) (hx0 : 0 ≤ x)
    (hx1 : x ≤ ((sliceTable t s e).length : Rat) - 1) :
    interp1 (sliceTable t s e) x = interp1 t (x + ((sliceBounds t.length s e).1 : Rat)) := by
  have hlo : (0 : Rat) ≤ ((sliceBounds t.length s e).1 : Rat) := by exact_mod_cast Nat.zero_le _
  have hneg : ¬ (x < 0) := by grind
  have hneg' : ¬ (x + ((sliceBounds t.length s e).1 : Rat) < 0) := by grind
  have hfl0 : 0 ≤ x.floor := by rw [Rat.le_floor_iff]; exact_mod_cast hx0
  have hfl : (x + ((sliceBounds t.length s e).1 : Rat)).floor = x.floor + ((sliceBounds t.length s e).1 : Int) := by
    have := Rat.floor_add_intCast (x := x) (y := ((sliceBounds t.length s e).1 : Int))
    have hc : (((sliceBounds t.length s e).1 : Int) : Rat) = ((sliceBounds t.length s e).1 : Rat) := by norm_cast
    rw [hc] at this
    exact this
  have htn : (x.floor + ((sliceBounds t.length s e).1 : Int)).toNat = x.floor.toNat + (sliceBounds t.length s e).1 := by
    omega
  have hcast : ((x.floor.toNat : Nat) : Rat) = (x.floor : Rat) := by
    have : ((x.floor.toNat : Nat) : Int) = x.floor := Int.toNat_of_nonneg hfl0
    exact_mod_cast this
  have hle : (x.floor : Rat) ≤ x := Rat.floor_le x
  have hlen : ((sliceTable t s e).length : Rat) = (((sliceBounds t.length s e).2 - (sliceBounds t.length s e).1 : Nat) : Rat) ∨ True := Or.inr trivial
  -- elements of the sliced table
  have hget : ∀ k, k < (sliceTable t s e).length → (sliceTable t s e)[k]? = t[(sliceBounds t.length s e).1 + k]? := by
    intro k hk
    simp only [sliceTable, pySlice] at hk ⊢
    have hk' : k < (sliceBounds t.length s e).2 - (sliceBounds t.length s e).1 := by
      simp only [List.length_take, List.length_drop] at hk; omega
    rw [List.getElem?_take_of_lt hk', List.getElem?_drop]
  simp only [interp1, hneg, hneg', if_false, hfl, htn]
  have hiff : (((x.floor.toNat : Nat) : Rat) = x) ↔
      (((x.floor.toNat + (sliceBounds t.length s e).1 : Nat) : Rat) = x + ((sliceBounds t.length s e).1 : Rat)) := by
    push_cast; constructor <;> intro h <;> grind
  by_cases heq : ((x.floor.toNat : Nat) : Rat) = x
  · rw [if_pos heq, if_pos (hiff.mp heq)]
    have hk : x.floor.toNat < (sliceTable t s e).length := by
      have h1 : ((x.floor.toNat : Nat) : Rat) ≤ ((sliceTable t s e).length : Rat) - 1 := by rw [heq]; exact hx1
      have h2 : ((x.floor.toNat + 1 : Nat) : Rat) ≤ ((sliceTable t s e).length : Rat) := by push_cast; grind
      have h3 : x.floor.toNat + 1 ≤ (sliceTable t s e).length := by exact_mod_cast h2
      omega
    rw [hget _ hk, Nat.add_comm]
  · rw [if_neg heq, if_neg (fun h => heq (hiff.mpr h))]
    have hlt : x < (x.floor : Rat) + 1 := lt_floor_add_one_cast x
    have hk : x.floor.toNat + 1 < (sliceTable t s e).length := by
      have h0 : ((x.floor.toNat : Nat) : Rat) < x := by
        rw [hcast]; grind
      have h1 : ((x.floor.toNat : Nat) : Rat) < ((sliceTable t s e).length : Rat) - 1 := by grind
      have h2 : ((x.floor.toNat + 1 : Nat) : Rat) < ((sliceTable t s e).length : Rat) := by push_cast; grind
      exact_mod_cast h2
    rw [hget _ (by omega), hget _ hk]
    have e1 : (sliceBounds t.length s e).1 + x.floor.toNat = x.floor.toNat + (sliceBounds t.length s e).1 := Nat.add_comm _ _
    have e2 : (sliceBounds t.length s e).1 + (x.floor.toNat + 1) = x.floor.toNat + (sliceBounds t.length s e).1 + 1 := by omega
    rw [e1, e2]
    cases t[x.floor.toNat + (sliceBounds t.length s e).1]? <;>
      cases t[x.floor.toNat + (sliceBounds t.length s e).1 + 1]? <;> simp
    congr 1
    push_cast
    grind

/-- **interpolate(grid)** is the linear interpolation at the grid positions, entry by entry. -/
theorem interpolate_spec (t : List Rat) (grid : List Rat) (k : Nat) :
    (interpolateTable t grid)[k]? = (grid[k]?).map (interp1 t) := by
  simp [interpolateTable]

/-- **Joined tables**: output `k` of a joined / meshed coordinate is table `k` read at pixel
input `k`, whatever the other inputs are. -/
theorem joined_spec (tables : List (List Rat)) (pix : List Rat) (k : Nat) (t : List Rat) (x : Rat)
    (ht : tables[k]? = some t) (hx : pix[k]? = some x) :
    (joinedP2W tables pix)[k]? = some (interp1 t x) := by
  simp [joinedP2W, List.getElem?_zipWith, ht, hx]

/-- **Resampling samples at `offset + k·factor`**: every position of the resampling grid has
that form and lies on the table. -/
theorem resample_positions (c : Rat) (d : Nat) (f : Rat) (x : Rat) (hx : x ∈ resampleGrid c d f) :
    (∃ k : Nat, k ≤ d ∧ x = c + (k : Rat) * f) ∧ x ≤ (d : Rat) - 1 := by
  simp only [resampleGrid, List.mem_filter, List.mem_map, List.mem_range, decide_eq_true_eq] at hx
  obtain ⟨⟨k, hk, rfl⟩, hle⟩ := hx
  exact ⟨⟨k, by omega, rfl⟩, hle⟩

end Ndcube.C19

namespace Ndcube.C19
open Ndcube

/-! ### Meshed SkyCoord tables: the lazily composed slice is the slice of the slice -/

/-- One `__getitem__` on a meshed component: reading the full table through the combined slice
gives exactly the Python slice of what was read before, for every item (open, negative,
over-long, empty), and the kept slice stays inside the table. -/
theorem mesh_getitem_spec {α} (t : List α) (cur : Nat × Nat) (se : Option Int × Option Int)
    (h : cur.2 ≤ t.length) :
    lazyComponent t (meshGetitem cur se) = pySlice (lazyComponent t cur) se.1 se.2 ∧
    (meshGetitem cur se).2 ≤ t.length := by
  obtain ⟨c1, c2⟩ := cur
  simp only at h
  have hlen : (lazyComponent t (c1, c2)).length = c2 - c1 := by
    simp only [lazyComponent, List.length_take, List.length_drop]; omega
  have ha : (sliceBounds (c2 - c1) se.1 se.2).1 ≤ c2 - c1 := clampBound_le _ _ _ (Nat.zero_le _)
  have hb : (sliceBounds (c2 - c1) se.1 se.2).2 ≤ c2 - c1 := clampBound_le _ _ _ (Nat.le_refl _)
  obtain ⟨a, ha'⟩ : ∃ a, a = (sliceBounds (c2 - c1) se.1 se.2).1 := ⟨_, rfl⟩
  obtain ⟨b, hb'⟩ : ∃ b, b = (sliceBounds (c2 - c1) se.1 se.2).2 := ⟨_, rfl⟩
  constructor
  · rw [← ha'] at ha; rw [← hb'] at hb
    have hp : pySlice (lazyComponent t (c1, c2)) se.1 se.2
        = ((lazyComponent t (c1, c2)).drop a).take (b - a) := by
      simp only [pySlice, hlen, ← ha', ← hb']
    rw [hp]
    simp only [meshGetitem, combineBounds, lazyComponent, ← ha', ← hb']
    rw [List.drop_take, List.take_take, List.drop_drop]
    congr 1
    omega
  · simp only [meshGetitem, combineBounds]; omega

/-- Any chain of slices of a fresh meshed component equals slicing the table step by step. -/
theorem mesh_chain_spec {α} (t : List α) (items : List (Option Int × Option Int)) :
    lazyComponent t (meshChain t.length items) = items.foldl (fun l se => pySlice l se.1 se.2) t := by
  have key : ∀ (items : List (Option Int × Option Int)) (cur : Nat × Nat), cur.2 ≤ t.length →
      lazyComponent t (items.foldl meshGetitem cur)
        = items.foldl (fun l se => pySlice l se.1 se.2) (lazyComponent t cur) := by
    intro items
    induction items with
    | nil => intro cur _; rfl
    | cons se rest ih =>
      intro cur h
      have hs := mesh_getitem_spec t cur se h
      simp only [List.foldl_cons]
      rw [ih _ hs.2, hs.1]
  have h0 : lazyComponent t (0, t.length) = t := by simp [lazyComponent]
  have := key items (0, t.length) (Nat.le_refl _)
  rw [h0] at this
  exact this

end Ndcube.C19

namespace Ndcube.C19
open Ndcube

/-- `combineBounds` is astropy's `combine_slices` (the Item-level model used for re-sliced WCS) on
explicit non-negative bounds; on the fresh coordinate's `slice(None)` the new item is kept as is. -/
theorem combine_bounds_agrees (a1 b1 a2 b2 : Nat) :
    combineSlices (.slice (some (a1 : Int)) (some (b1 : Int)) none) (.slice (some (a2 : Int)) (some (b2 : Int)) none)
      = .ok (.slice (some (((combineBounds (a1, b1) (a2, b2)).1 : Nat) : Int))
                    (some (((combineBounds (a1, b1) (a2, b2)).2 : Nat) : Int)) none) ∧
    combineSlices (.slice none none none) (.slice (some (a2 : Int)) (some (b2 : Int)) none)
      = .ok (.slice (some (a2 : Int)) (some (b2 : Int)) none) := by
  constructor
  · simp only [combineSlices, combineBounds, Option.isSome_none, Bool.false_eq_true, if_false]
    congr 3
    · omega
  · simp [combineSlices]

end Ndcube.C19
