from common import *
d = np.array([1.,2,3,4]); v = np.array([1.,4,9,16])
c = NDCube(d, wcs=wlin(1,(4,)), uncertainty=VarianceUncertainty(v))
r = c.rebin((2,), operation=np.mean, propagate_uncertainties=True)
print("variance mean:", r.uncertainty.array, "expected (v1+v2)/4:", [(1+4)/4, (9+16)/4])
r = c.rebin((2,), operation=np.sum, propagate_uncertainties=True)
print("variance sum:", r.uncertainty.array, "expected:", [5,25])
# prod with mask on 2 blocks
d = np.array([2.,3,4,5]); s = np.array([.1,.2,.3,.4]); m = np.array([False,False,True,False])
c = NDCube(d, wcs=wlin(1,(4,)), uncertainty=StdDevUncertainty(s), mask=m)
r = tryit("prod masked", lambda: c.rebin((2,), operation=np.prod, propagate_uncertainties=True).uncertainty.array)
# expected: block0: P=6, rel^2 = (.1/2)^2+(.2/3)^2 ; block1: only 5 -> .4
print("expected", [6*np.sqrt((.1/2)**2+(.2/3)**2), .4])
c = NDCube(d, wcs=wlin(1,(4,)), uncertainty=StdDevUncertainty(s))
r = tryit("prod nomask", lambda: c.rebin((2,), operation=np.prod, propagate_uncertainties=True).uncertainty.array)
print("expected", [6*np.sqrt((.1/2)**2+(.2/3)**2), 20*np.sqrt((.3/4)**2+(.4/5)**2)])
# sum with mask 2 blocks
r = tryit("sum masked", lambda: NDCube(d, wcs=wlin(1,(4,)), uncertainty=StdDevUncertainty(s.copy()), mask=m).rebin((2,), operation=np.sum, propagate_uncertainties=True).uncertainty.array)
print("expected", [np.sqrt(.01+.04), .4])
