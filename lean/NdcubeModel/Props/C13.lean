import NdcubeModel.Lemmas.Coll

/-!
# C13 — NDCollection keeps its aligned-axis bookkeeping true under every edit
-/

namespace Ndcube.C13
open Ndcube

/-- **The renumbering loop** (`_update_aligned_axes`, per member): for strictly increasing drop
positions inside a tuple of distinct aligned axes, entry `k` of the result is the surviving
aligned axis number `skip drops k`, lowered by the number of dropped member axes below it; there
is one entry per surviving position and the entries stay distinct. -/
theorem update_aligned_axes_spec (drops axes : List Nat) (hs : drops.Pairwise (· < ·))
    (hb : ∀ d ∈ drops, d < axes.length) (hnd : axes.Nodup) :
    (dropLoop drops axes).length = axes.length - drops.length ∧
    (dropLoop drops axes).Nodup ∧
    ∀ k, k < axes.length - drops.length →
      (dropLoop drops axes)[k]? =
        some (renum (drops.map fun d => axes.getD d 0) (axes.getD (skip drops k) 0)) ∧
      skip drops k < axes.length ∧ skip drops k ∉ drops := by
  obtain ⟨h1, h2⟩ := dropLoop_get drops.length drops axes rfl hs hb hnd
  exact ⟨h1, dropLoop_nodup drops.length drops axes rfl hs hb hnd, h2⟩

/-- **Numeric slicing = slicing every member along its own aligned axes.**  The index entries
are written at the member's aligned axes, the member is sliced with that item, and the `k`-th
aligned axis recorded for the result is a view of the member's surviving aligned axis
`skip drops k` (same physical axis, renumbered for the dropped ones). -/
theorem slice_spec (shape axes : List Nat) (its nits : List Item) (res : List AxisRes)
    (hnd : axes.Nodup) (hlt : ∀ a ∈ axes, a < shape.length) (hlen : its.length ≤ axes.length)
    (hbasic : ∀ it ∈ its, it ≠ .ellipsis)
    (hnorm : normItems shape (memberItems shape.length axes its) = .ok nits)
    (hres : applyAxes shape nits = .ok res) :
    ∀ k, k < axes.length - (intPositions its).length →
      (keptAxes res)[(dropLoop (intPositions its) axes).getD k 0]? =
        some (axes.getD (skip (intPositions its) k) 0) :=
  slice_view shape axes its nits res hnd hlt hlen hbasic hnorm hres

/-- **Per-member invariant is preserved by numeric slicing.**  If a member's aligned axes are
distinct and exist on it, then after slicing every recorded aligned axis exists on the sliced
member, they are distinct, there is one per surviving aligned position, and the length of the
`k`-th one depends only on the old aligned length and the index entry for it — hence it is the
same for every member of a collection whose `i`-th aligned axes had equal lengths. -/
theorem slice_member_inv (shape axes : List Nat) (its nits : List Item) (res : List AxisRes)
    (hnd : axes.Nodup) (hlt : ∀ a ∈ axes, a < shape.length) (hlen : its.length ≤ axes.length)
    (hbasic : ∀ it ∈ its, it ≠ .ellipsis ∧ it ≠ .none)
    (hnorm : normItems shape (memberItems shape.length axes its) = .ok nits)
    (hres : applyAxes shape nits = .ok res) :
    let drops := intPositions its
    let newAxes := dropLoop drops axes
    let newShape := resultShape res
    newAxes.length = axes.length - drops.length ∧ newAxes.Nodup ∧
    ∀ k, k < axes.length - drops.length →
      newAxes.getD k 0 < newShape.length ∧
      newShape.getD (newAxes.getD k 0) 0 =
        itemLen (shape.getD (axes.getD (skip drops k) 0) 0) (its.getD (skip drops k) Item.all) := by
  intro drops newAxes newShape
  have hdb : ∀ d ∈ drops, d < axes.length := by
    intro d hd
    have := (intPositions_mem its d).mp hd
    omega
  have hbasic' : ∀ it ∈ its, it ≠ .ellipsis := fun it h => (hbasic it h).1
  obtain ⟨hl, hnd', hget⟩ := update_aligned_axes_spec drops axes (intPositions_sorted its) hdb hnd
  refine ⟨hl, hnd', ?_⟩
  intro k hk
  have hview : (keptAxes res)[newAxes.getD k 0]? = some (axes.getD (skip drops k) 0) :=
    slice_view shape axes its nits res hnd hlt hlen hbasic' hnorm hres k hk
  obtain ⟨_, hplt, hpnot⟩ := hget k hk
  generalize hp : skip drops k = p at *
  have hshape : newShape = (keptAxes res).map fun a => (res.getD a (.dropped 0)).len :=
    resultShape_eq_keptAxes res
  have hlt2 : newAxes.getD k 0 < (keptAxes res).length := by
    cases h : (keptAxes res)[newAxes.getD k 0]? with
    | none => rw [h] at hview; cases hview
    | some _ => exact (List.getElem?_eq_some_iff.mp h).1
  refine ⟨by rw [hshape, List.length_map]; exact hlt2, ?_⟩
  have hsh : newShape.getD (newAxes.getD k 0) 0 = (res.getD (axes.getD p 0) (.dropped 0)).len := by
    rw [hshape]
    apply getD_of_getElem?
    rw [List.getElem?_map, hview]; rfl
  rw [hsh]
  -- the item at member axis `axes[p]`
  have hmlen := memberItems_length shape.length axes its
  have hnoell := memberItems_noEllipsis shape.length axes its hbasic'
  simp only [normItems, bind, Except.bind] at hnorm
  rw [stripEmptyEllipsis_of_ne _ _ (Or.inl (by omega))] at hnorm
  split at hnorm
  · cases hnorm
  · rename_i san hsan
    have hs := sanitize_full hsan hmlen hnoell
    subst hs
    have hamem : axes.getD p 0 ∈ axes := by simp [List.getD, List.getElem?_eq_getElem hplt]
    have ha : axes.getD p 0 < shape.length := hlt _ hamem
    by_cases hpi : p < its.length
    · have hitem := memberItems_getD_aligned shape.length axes its p hnd hlt hpi hplt
      have hnotint : (its.getD p Item.all).isInt = false := by
        cases h : (its.getD p Item.all).isInt
        · rfl
        · exact absurd ((intPositions_mem its p).mpr ⟨hpi, h⟩) hpnot
      have hmem : its.getD p Item.all ∈ its := by simp [List.getD, List.getElem?_eq_getElem hpi]
      have hb := hbasic _ hmem
      cases hit : its.getD p Item.all with
      | int i => rw [hit] at hnotint; simp [Item.isInt] at hnotint
      | ellipsis => exact absurd hit hb.1
      | none => exact absurd hit hb.2
      | slice s e st =>
        have hget? : (memberItems shape.length axes its)[axes.getD p 0]? = some (.slice s e st) := by
          have hl : axes.getD p 0 < (memberItems shape.length axes its).length := by rw [hmlen]; exact ha
          rw [← hit, ← hitem]
          exact getElem?_eq_some_getD _ _ _ hl
        exact applyAxes_len hnorm hres _ s e st hget?
    · have hother : (memberItems shape.length axes its).getD (axes.getD p 0) Item.all = Item.all := by
        apply memberItems_getD_other
        intro i hi1 hi2 heq
        have hij : axes[i]? = axes[p]? := by
          rw [getElem?_eq_some_getD axes i 0 hi2, getElem?_eq_some_getD axes p 0 hplt, heq]
        have := (List.getElem?_inj hi2 hnd).mp hij
        omega
      have hout : its.getD p Item.all = Item.all := by
        simp [List.getD, List.getElem?_eq_none (by omega : its.length ≤ p)]
      have hget? : (memberItems shape.length axes its)[axes.getD p 0]? = some (.slice none none none) := by
        have hl : axes.getD p 0 < (memberItems shape.length axes its).length := by rw [hmlen]; exact ha
        rw [getElem?_eq_some_getD _ _ Item.all hl, hother]; rfl
      rw [hout]
      exact applyAxes_len hnorm hres _ none none none hget?

/-- **The i-th aligned axes of all members keep equal lengths under numeric slicing**: two members
whose aligned axes have pairwise equal lengths, sliced with the same index, again have pairwise
equal lengths on the aligned axes recorded for the results — whatever each member's own axis
order. (Corollary of the per-member invariant; with `slice_member_inv` it lifts to any number
of members.) -/
theorem slice_aligned_lengths_equal (shape1 axes1 shape2 axes2 : List Nat) (its nits1 nits2 : List Item)
    (res1 res2 : List AxisRes)
    (hnd1 : axes1.Nodup) (hlt1 : ∀ a ∈ axes1, a < shape1.length)
    (hnd2 : axes2.Nodup) (hlt2 : ∀ a ∈ axes2, a < shape2.length)
    (hsame : axes1.length = axes2.length) (hlen : its.length ≤ axes1.length)
    (hbasic : ∀ it ∈ its, it ≠ .ellipsis ∧ it ≠ .none)
    (hnorm1 : normItems shape1 (memberItems shape1.length axes1 its) = .ok nits1)
    (hres1 : applyAxes shape1 nits1 = .ok res1)
    (hnorm2 : normItems shape2 (memberItems shape2.length axes2 its) = .ok nits2)
    (hres2 : applyAxes shape2 nits2 = .ok res2)
    (heq : ∀ p, p < axes1.length → shape1.getD (axes1.getD p 0) 0 = shape2.getD (axes2.getD p 0) 0) :
    ∀ k, k < axes1.length - (intPositions its).length →
      (resultShape res1).getD ((dropLoop (intPositions its) axes1).getD k 0) 0 =
      (resultShape res2).getD ((dropLoop (intPositions its) axes2).getD k 0) 0 := by
  intro k hk
  obtain ⟨_, _, h1⟩ := slice_member_inv shape1 axes1 its nits1 res1 hnd1 hlt1 hlen hbasic hnorm1 hres1
  obtain ⟨_, _, h2⟩ := slice_member_inv shape2 axes2 its nits2 res2 hnd2 hlt2 (by omega) hbasic hnorm2 hres2
  have hdb : ∀ d ∈ intPositions its, d < axes1.length := by
    intro d hd
    have := (intPositions_mem its d).mp hd
    omega
  obtain ⟨_, _, hget⟩ := update_aligned_axes_spec (intPositions its) axes1 (intPositions_sorted its) hdb hnd1
  have hp := (hget k hk).2.1
  rw [(h1 k hk).2, (h2 k (by omega)).2, heq _ hp]


/-! ## The collection-level invariant and its induction over edit histories -/

/-- Keys and aligned-axes entries are in one-to-one correspondence (same keys, same order). -/
def KeysOK (c : Coll) : Prop :=
  ∀ al, c.aligned = some al → al.map (·.1) = c.members.map (·.1)

/-- Operands of `update` are collections that themselves satisfy the invariant (they come out
of the constructor, see `init_keys`). -/
def OpOK : CollOp → Prop
  | .update o => KeysOK o
  | _ => True

theorem init_keys (ms : List (Key × List Nat)) (ax : Option (List (List Nat))) (c : Coll)
    (h : Coll.init ms ax = .ok c) : KeysOK c := by
  simp only [Coll.init] at h
  split at h
  · cases h
  · cases ax with
    | none => cases h; intro al hal; cases hal
    | some a =>
      simp only at h
      split at h
      · cases h
      · split at h
        · rename_i hv
          cases h
          intro al hal
          cases hal
          apply dupdate_keys [] [] _ _ rfl
          have hlen : a.length = ms.length := by
            simp only [axesValid, Bool.and_eq_true, decide_eq_true_eq] at hv
            simpa using hv.1
          rw [List.map_fst_zip (by simp [hlen])]
        · cases h

theorem select_keys (members : List (Key × List Nat)) (ks : List Key) (ms : List (Key × List Nat))
    (hms : (ks.mapM fun k => (dlookup k members).map fun sh => (k, sh)) = some ms) :
    ms.map (·.1) = ks := by
  induction ks generalizing ms with
  | nil => simp [List.mapM_nil] at hms; subst hms; rfl
  | cons k ks ih =>
    simp only [List.mapM_cons, bind, Option.bind] at hms
    cases h1 : dlookup k members with
    | none => simp [h1] at hms
    | some sh =>
      simp only [h1, Option.map_some] at hms
      cases h2 : ks.mapM (fun k => (dlookup k members).map fun sh => (k, sh)) with
      | none => simp [h2] at hms
      | some rest =>
        simp only [h2, pure, Option.some.injEq] at hms
        subst hms
        simp [ih rest h2]

theorem updateAlignedAxes_length (drops : List Nat) (al : List (Key × List Nat)) (l : List (List Nat))
    (h : updateAlignedAxes drops al = some l) : l.length = al.length := by
  simp only [updateAlignedAxes] at h
  split at h
  · cases h; simp
  · split at h
    · cases h
    · cases h; simp

theorem step_keys (c c' : Coll) (op : CollOp) (hc : KeysOK c) (hop : OpOK op)
    (h : c.step op = .ok c') : KeysOK c' := by
  cases op with
  | slice ix =>
    simp only [Coll.step, Except.map] at h
    cases hs : c.sliceNum ix with
    | error e => simp [hs] at h
    | ok r =>
      simp only [hs] at h
      cases h
      simp only [Coll.sliceNum] at hs
      cases hal : c.aligned with
      | none => simp [hal] at hs
      | some al =>
        simp only [hal] at hs
        split at hs
        · cases hs
        · simp only [bind, Except.bind] at hs
          split at hs
          · cases hs
          · rename_i newShapes hns
            simp only [pure, Except.pure] at hs
            cases hs
            have hkeys := hc al hal
            have hl1 : al.length = c.members.length := by
              have := congrArg List.length hkeys; simpa using this
            have hl2 := mapM_length _ _ _ hns
            simp only [List.length_zip, List.length_map, Nat.min_self] at hl2
            intro al' hal'
            simp only [Option.map_eq_some_iff] at hal'
            obtain ⟨l, hl, rfl⟩ := hal'
            have hl3 : l.length = al.length := updateAlignedAxes_length _ _ _ hl
            rw [List.map_fst_zip (by simp; omega), List.map_fst_zip (by simp; omega)]
  | select ks =>
    simp only [Coll.step, Coll.select] at h
    split at h
    · cases h
    · rename_i ms hms
      split at h
      · cases h
      · cases h
        intro al hal
        simp only [Option.map_eq_some_iff] at hal
        obtain ⟨al0, _, rfl⟩ := hal
        apply dupdate_keys [] [] _ _ rfl
        -- both lists carry the selected keys in the selected order
        have hk : ms.map (·.1) = ks := select_keys c.members ks ms hms
        rw [hk]; simp [List.map_map, Function.comp_def]
  | copy => simp only [Coll.step, Coll.copy] at h; cases h; exact hc
  | pop k =>
    simp only [Coll.step, Coll.pop] at h
    split at h
    · cases h
    · cases h
      intro al hal
      simp only [Option.map_eq_some_iff] at hal
      obtain ⟨al0, hal0, rfl⟩ := hal
      exact derase_keys k al0 c.members (hc al0 hal0)
  | del k =>
    simp only [Coll.step, Coll.pop] at h
    split at h
    · cases h
    · cases h
      intro al hal
      simp only [Option.map_eq_some_iff] at hal
      obtain ⟨al0, hal0, rfl⟩ := hal
      exact derase_keys k al0 c.members (hc al0 hal0)
  | update o =>
    simp only [Coll.step, Coll.update] at h
    split at h
    · rename_i k1 sh1 r1 k2 sh2 r2 hm1 hm2
      by_cases hcompat : axesCompatible sh1 sh2 (c.aligned.map fun al => (dlookup k1 al).getD [])
          (o.aligned.map fun al => (dlookup k2 al).getD []) = true
      · simp only [hcompat, if_true] at h
        cases h
        intro al hal
        simp only at hal
        cases ha : c.aligned with
        | none => simp [ha] at hal
        | some a =>
          cases hb : o.aligned with
          | none => simp [axesCompatible, ha, hb] at hcompat
          | some b =>
            simp only [ha, hb, Option.some.injEq] at hal
            subst hal
            exact dupdate_keys a c.members b o.members (hc a ha) (hop b hb)
      · simp only [hcompat] at h
        cases h
    · cases h
  | setitem => simp [Coll.step] at h
  | setdefault => simp [Coll.step] at h
  | popitem => simp [Coll.step] at h
  | mixed => simp [Coll.step] at h

/-- **Induction over edit histories of any length**: starting from a collection whose keys and
aligned-axes entries correspond, after any sequence of supported and refused edits they still
correspond. -/
theorem inv_reachable_keys (ops : List CollOp) (c : Coll) (hc : KeysOK c)
    (hops : ∀ op ∈ ops, OpOK op) : KeysOK (c.run ops) := by
  induction ops generalizing c with
  | nil => exact hc
  | cons op ops ih =>
    simp only [Coll.run]
    have hrest : ∀ o ∈ ops, OpOK o := fun o ho => hops o (List.mem_cons_of_mem _ ho)
    cases hs : c.step op with
    | error e => exact ih c hc hrest
    | ok c' => exact ih c' (step_keys c c' op hc (hops op (List.mem_cons_self ..)) hs) hrest

/-- A refused edit leaves the collection exactly as it was (the history continues from the old
state), and the unsupported edits are refused with the documented exceptions. -/
theorem refusals_frame (c : Coll) (op : CollOp) (ops : List CollOp) (e : Err)
    (h : c.step op = .error e) : c.run (op :: ops) = c.run ops := by
  simp [Coll.run, h]

theorem refusal_kinds (c : Coll) :
    c.step .setitem = .error .notImplemented ∧ c.step .setdefault = .error .notImplemented ∧
    c.step .popitem = .error .notImplemented ∧ c.step .mixed = .error .typeError ∧
    (c.aligned = none → ∀ ix, c.step (.slice ix) = .error .indexError) ∧
    (∀ its, its.length > c.nAligned → c.aligned ≠ none → c.step (.slice (.tuple its)) = .error .indexError) := by
  refine ⟨rfl, rfl, rfl, rfl, ?_, ?_⟩
  · intro h ix; simp [Coll.step, Coll.sliceNum, h, Except.map]
  · intro its hlen hne
    cases hal : c.aligned with
    | none => exact absurd hal hne
    | some al => simp [Coll.step, Coll.sliceNum, hal, NumIndex.items, hlen, Except.map]

end Ndcube.C13
