"""Decision procedure shared by every property check (DESIGN.md section 5)."""
import collections, hashlib, importlib, json, multiprocessing, os, random, subprocess, sys, time, traceback

ROOT = os.path.dirname(os.path.dirname(os.path.abspath(__file__)))
sys.path.insert(0, os.path.dirname(os.path.abspath(__file__)))
import leanio  # noqa: E402

EXC_ENUM = [("UnitsError", "UnitsError"), ("UnitConversionError", "UnitsError"),
            ("IndexError", "IndexError"), ("KeyError", "KeyError"),
            ("NotImplementedError", "NotImplementedError"), ("AttributeError", "AttributeError"),
            ("TypeError", "TypeError"), ("ValueError", "ValueError")]


def err_kind(exc):
    """Map an exception to the model's `Err` enum by class (most specific first)."""
    names = [c.__name__ for c in type(exc).__mro__]
    for cls, kind in EXC_ENUM:
        if cls in names:
            return kind
    return "Other"


def assert_repo():
    import ndcube
    f = os.path.realpath(ndcube.__file__)
    repo = os.environ.get("NDCUBE_VERIF_REPO", "/repo")
    if not f.startswith(os.path.realpath(repo) + "/"):
        raise RuntimeError(f"ndcube imported from {f}, expected under {repo}")
    return f


def repo_state():
    repo = os.environ.get("NDCUBE_VERIF_REPO", "/repo")
    try:
        head = subprocess.run(["git", "-C", repo, "rev-parse", "HEAD"], capture_output=True, text=True).stdout.strip()
        diff = subprocess.run(["git", "-C", repo, "diff", "HEAD", "--", "ndcube"], capture_output=True, text=True).stdout
        return {"head": head, "diff_sha256": hashlib.sha256(diff.encode()).hexdigest()[:16], "dirty": bool(diff)}
    except Exception as e:  # pragma: no cover
        return {"error": str(e)}


def load_known():
    p = os.path.join(ROOT, "known_findings.json")
    if not os.path.exists(p):
        return []
    return json.load(open(p)).get("findings", [])


def _library_frame(exc):
    """'file:line in function' of the innermost traceback frame that lies in the ndcube package under check, or None."""
    try:
        import ndcube
        root = os.path.dirname(os.path.abspath(ndcube.__file__)) + os.sep
    except Exception:
        return None
    hit = None
    for fr in traceback.extract_tb(exc.__traceback__):
        if os.path.abspath(fr.filename).startswith(root):
            hit = f"{os.path.relpath(fr.filename, os.path.dirname(root.rstrip(os.sep)))}:{fr.lineno} in {fr.name}"
    return hit


def _run_case(args):
    modname, case = args
    mod = importlib.import_module(modname)
    t0 = time.time()
    try:
        res = mod.run(case)
    except Exception as e:
        # An exception that escapes run(): raised inside the library under check (while the harness was building or
        # observing the library's objects - on the unchanged tree no case does that) it is a finding about the
        # library with this case as the failing input; raised anywhere else it is a failure of the harness itself.
        lib = _library_frame(e)
        if lib:
            res = {"oracle": f"the library raised {type(e).__name__} while the check was building or observing its objects "
                             f"({lib}): {str(e)[:160]}",
                   "tags": ["library-exception"], "impl": {"err": err_kind(e)}, "model_req": None,
                   "trace": traceback.format_exc()[-1500:]}
        else:
            res = {"harness_error": f"{type(e).__name__}: {e}", "trace": traceback.format_exc()[-1500:]}
    res["case"] = case
    res["t"] = time.time() - t0
    return res


def _init_worker():
    import warnings
    warnings.filterwarnings("ignore")
    try:
        # no thread pools: the parent forks worker pools more than once (cases, then the search
        # phase), and a fork taken while dask's threads hold locks dead-locks the children
        import dask
        dask.config.set(scheduler="synchronous")
    except Exception:
        pass
    try:
        from astropy import log
        log.setLevel("ERROR")
    except Exception:
        pass


class Runner:
    def __init__(self, prop_id, tier, seed, replay=None):
        self.prop_id, self.tier, self.seed, self.replay = prop_id, tier, seed, replay
        self.modname = f"props.{prop_id}"
        self.mod = importlib.import_module(self.modname)
        self.t0 = time.time()
        self.lines = []

    def say(self, s):
        print(s, flush=True)

    # ---- execution helpers -------------------------------------------------
    def run_cases(self, cases):
        args = [(self.modname, c) for c in cases]
        nproc = int(os.environ.get("VERIF_JOBS", "0")) or (min(16, os.cpu_count() or 1) if self.tier == "thorough" else min(8, os.cpu_count() or 1))
        _init_worker()
        if len(cases) < 40 or nproc <= 1:
            return [_run_case(a) for a in args]
        with multiprocessing.get_context("fork").Pool(nproc, initializer=_init_worker) as pool:
            return pool.map(_run_case, args, chunksize=max(1, len(args) // (nproc * 8)))

    def model_outputs(self, results):
        reqs, idx = [], []
        for i, r in enumerate(results):
            mr = r.get("model_req")
            if mr is not None:
                mr = dict(mr); mr["id"] = i
                reqs.append(mr); idx.append((i, None))
            for k, er in enumerate(r.get("extra_reqs") or []):
                er = dict(er); er["id"] = i
                reqs.append(er); idx.append((i, k))
        outs = leanio.driver(reqs)
        by = {}
        self.extra_outs = {}
        for (i, k), o in zip(idx, outs):
            if k is None:
                by[i] = o
            else:
                self.extra_outs.setdefault(i, {})[k] = o
        for i, r in enumerate(results):
            if (r.get("extra_reqs") or r.get("model_req") is None) and i not in by and i in self.extra_outs:
                by[i] = {"_only_extra": True}
        return by

    def write_replay(self, tag, payload):
        os.makedirs(os.path.join(ROOT, "replays"), exist_ok=True)
        path = os.path.join("replays", f"{self.prop_id}-{self.seed}-{tag}.json")
        with open(os.path.join(ROOT, path), "w") as f:
            json.dump(payload, f, indent=1, default=str)
        return path

    def shrink(self, case, still_fails):
        """Greedy shrinking with the property's own candidate generator."""
        if not hasattr(self.mod, "shrink"):
            return case
        cur, budget = case, 200
        progress = True
        while progress and budget > 0:
            progress = False
            for cand in self.mod.shrink(cur):
                budget -= 1
                if budget <= 0:
                    break
                try:
                    if still_fails(cand):
                        cur, progress = cand, True
                        break
                except Exception:
                    continue
        return cur

    # ---- main --------------------------------------------------------------
    def main(self):
        mod, pid = self.mod, self.prop_id
        import warnings
        warnings.filterwarnings("ignore")
        impl_file = assert_repo()
        known = [k for k in load_known() if k.get("property") == pid and k.get("status") == "known"]
        known_sigs = {k["signature"]: k for k in known}

        if self.replay:
            payload = json.load(open(self.replay))
            cases = payload.get("cases") or [payload["case"]]
            results = self.run_cases(cases)
            outs = self.model_outputs(results)
            bad = 0
            for i, r in enumerate(results):
                dis = None
                if i in outs and "harness_error" not in r:
                    dis = None if outs[i].get("_only_extra") else mod.compare(r["case"], r, outs[i])
                    if not dis and hasattr(mod, "compare_extra"):
                        for k, eo in sorted(getattr(self, "extra_outs", {}).get(i, {}).items()):
                            dis = mod.compare_extra(r["case"], r, k, eo)
                            if dis:
                                break
                self.say(json.dumps({"case": r["case"], "oracle": r.get("oracle"), "model_disagreement": dis,
                                     "harness_error": r.get("harness_error")}, default=str)[:4000])
                if r.get("oracle") or dis:
                    bad += 1
            if bad:
                self.say(f"VIOLATION property={pid} replay={self.replay}")
                return 1
            self.say(f"replay: property {pid} holds on {len(cases)} case(s)")
            return 0

        # 1-3: build, forbidden tokens, axioms, witnesses -------------------------------
        proof_problems = []
        ok, log = leanio.build()
        if not ok:
            proof_problems.append({"kind": "lake build failed", "log": log[-2500:]})
        hits = leanio.grep_forbidden()
        if hits:
            proof_problems.append({"kind": "forbidden token in Lean sources", "hits": hits[:20]})
        axioms, n_wit, audit_log = ({}, 0, "")
        if ok:
            axioms, n_wit, audit_log = leanio.audit(pid)
            for name, ax in axioms.items():
                if ax is None:
                    proof_problems.append({"kind": "theorem not found by #print axioms", "theorem": name, "log": audit_log[-800:]})
                elif not set(ax) <= leanio.ALLOWED_AXIOMS:
                    proof_problems.append({"kind": "unexpected axioms", "theorem": name, "axioms": ax})
            if not axioms:
                proof_problems.append({"kind": "no theorems found", "log": audit_log[-500:]})
        checker = None
        if ok and self.tier == "thorough" and os.environ.get("VERIF_LEANCHECKER", "1") == "1":
            cok, clog = leanio.leanchecker(pid)
            checker = {"ok": cok, "log": clog[-400:]}
            if not cok:
                proof_problems.append({"kind": "leanchecker rejected the module", "log": clog})
        obligations = len(axioms) + n_wit
        discharged = (sum(1 for a in axioms.values() if a is not None and set(a) <= leanio.ALLOWED_AXIOMS) + n_wit) if ok else 0

        # 4: corpus, then generated cases --------------------------------------------------
        rng = random.Random(self.seed)
        corpus = list(mod.corpus()) if hasattr(mod, "corpus") else []
        cases = corpus + list(mod.generate(rng, self.tier))
        results = self.run_cases(cases)
        harness_errors = [r for r in results if "harness_error" in r]
        if harness_errors:
            self.say("INFRASTRUCTURE: harness error: " + harness_errors[0]["harness_error"])
            self.say(harness_errors[0].get("trace", ""))
            self.say(json.dumps(harness_errors[0]["case"], default=str)[:2000])
            return 2
        model_ok = ok
        outs = {}
        if ok:
            try:
                outs = self.model_outputs(results)
            except Exception as e:
                model_ok = False
                proof_problems.append({"kind": "model driver failed", "log": str(e)[-1500:]})

        # 5: classify -------------------------------------------------------------------
        violations, known_hit, disagreements = [], collections.OrderedDict(), []
        hist = collections.Counter()
        nontrivial = set()
        validated = 0
        for i, r in enumerate(results):
            for t in r.get("tags", []):
                hist[t] += 1
            if r.get("nontrivial"):
                nontrivial.add(r["nontrivial"])
            fail = r.get("oracle")
            if fail:
                sig = mod.signature(r["case"], fail) if hasattr(mod, "signature") else None
                if sig in known_sigs:
                    known_hit.setdefault(sig, r)
                else:
                    violations.append(r)
                continue
            if i in outs:
                if "driverError" in outs[i]:
                    disagreements.append((r, "driver error: " + outs[i]["driverError"]))
                    continue
                dis = None if outs[i].get("_only_extra") else mod.compare(r["case"], r, outs[i])
                if not dis and hasattr(mod, "compare_extra"):
                    for k, eo in sorted(getattr(self, "extra_outs", {}).get(i, {}).items()):
                        dis = ("driver error: " + eo["driverError"]) if "driverError" in eo else mod.compare_extra(r["case"], r, k, eo)
                        if dis:
                            break
                if dis:
                    disagreements.append((r, dis))
                else:
                    validated += 1

        searched = 0
        found_in_search = None
        if (disagreements or proof_problems) and not violations:
            # correspondence or proof broken without a failing input yet: search for one
            n = int(os.environ.get("VERIF_SEARCH_FACTOR", "10"))
            srng = random.Random(self.seed + 7919)
            import itertools
            extra = []
            cap = int(os.environ.get("VERIF_SEARCH_MAX_CASES", "40000"))
            per_batch = max(len(cases), 200)
            for k in range(n):
                # fresh seeds of the generator of this tier; every batch is capped so that the search
                # stays a matter of minutes whatever the size of the thorough tier
                gen = mod.generate(random.Random(srng.random()), "thorough" if k == 0 else self.tier)
                extra += list(itertools.islice(gen, per_batch if k else 4 * per_batch))
                if len(extra) >= cap or time.time() - self.t0 > float(os.environ.get("VERIF_SEARCH_BUDGET_S", "900")):
                    break
            extra = extra[:cap]
            sres = self.run_cases(extra)
            searched = len(sres)
            for r in sres:
                if r.get("oracle"):
                    sig = mod.signature(r["case"], r["oracle"]) if hasattr(mod, "signature") else None
                    if sig in known_sigs:
                        known_hit.setdefault(sig, r)
                    else:
                        found_in_search = r
                        violations.append(r)
                        break

        # 6: report --------------------------------------------------------------------
        rc = 0
        for sig, r in known_hit.items():
            self.say(f"KNOWN-FINDING: property={pid} {known_sigs[sig]['what']}")
        replay_paths = []
        if violations:
            first = violations[0]
            modname = self.modname

            def still_fails(c):
                rr = _run_case((modname, c))
                if not rr.get("oracle"):
                    return False
                if hasattr(mod, "signature") and mod.signature(c, rr["oracle"]) in known_sigs:
                    return False
                return True
            small = self.shrink(first["case"], still_fails)
            rr = _run_case((self.modname, small))
            path = self.write_replay("v0", {"property": pid, "kind": "failing-input", "case": small,
                                            "failure": rr.get("oracle") or first.get("oracle"),
                                            "original_case": first["case"], "seed": self.seed, "tier": self.tier,
                                            "n_violating_cases": len(violations),
                                            "found_by": "search after broken correspondence/proof" if found_in_search else "generated cases"})
            self.say(f"VIOLATION property={pid} replay={path}")
            replay_paths.append(path)
            rc = 1
        elif disagreements or proof_problems:
            r, dis = disagreements[0] if disagreements else (None, None)
            what = []
            if proof_problems:
                what += [f"{p['kind']}: {p.get('theorem', '')}" for p in proof_problems]
            if disagreements:
                what.append(f"correspondence op '{getattr(mod, 'MODEL_OP', pid)}' (model vs implementation) disagrees on {len(disagreements)} case(s)")
            path = self.write_replay("nofail", {"property": pid, "kind": "no-failing-input-found",
                                                "no_longer_checks": what, "proof_problems": proof_problems,
                                                "first_disagreement": dis, "case": r["case"] if r else None,
                                                "first_request": (r.get("model_req") if r else None),
                                                "cases": [d[0]["case"] for d in disagreements[:5]],
                                                "searched_cases": searched, "seed": self.seed, "tier": self.tier})
            self.say(f"VIOLATION property={pid} replay={path} no-failing-input-found")
            replay_paths.append(path)
            rc = 1

        wall = time.time() - self.t0
        samples = [r["case"] for r in results[len(corpus):len(corpus) + 3]] + ([results[-1]["case"]] if results else [])
        ev = {
            "property_id": pid, "tier": self.tier, "seed": self.seed, "level": "proof",
            "coverage": {
                "obligations": obligations, "discharged": discharged,
                "checker_cmd": "cd lean && lake build && lake env lean <#print axioms for every theorem of NdcubeModel/Props/%s.lean>%s" % (pid, " && lake env leanchecker NdcubeModel.Props.%s" % pid if self.tier == "thorough" else ""),
                "trusted_base": ["Lean 4.33.0 kernel", "axioms: propext, Classical.choice, Quot.sound (audited per theorem)",
                                 "hand-written model tied to /repo by the correspondence check of this run",
                                 "Python harness, canonicalisation and oracle of harness/props/%s.py" % pid] + list(getattr(mod, "TRUSTED", [])),
                "theorems": {k: v for k, v in axioms.items()},
                "witness_examples": n_wit,
                "leanchecker": checker,
                "evaluations": len(results) + searched,
                "distinct_nontrivial": len(nontrivial),
                "rule": getattr(mod, "RULE", ""),
                "samples": samples,
                "traces_validated_against_impl": validated,
                "disagreements_checked": len(disagreements),
                "corpus_cases": len(corpus),
                "search_cases": searched,
                "histogram": dict(sorted(hist.items())),
                "known_findings_reproduced": list(known_hit.keys()),
                "exhaustive": bool(getattr(mod, "EXHAUSTIVE", {}).get(self.tier, False)),
                "implementation": {"ndcube": impl_file, **repo_state()},
                "proof_problems": proof_problems,
                "replays": replay_paths,
            },
            "assumptions": list(getattr(mod, "ASSUMPTIONS", [])),
            "wall_s": round(wall, 2),
            "violations": len(violations) + (1 if (rc == 1 and not violations) else 0),
        }
        os.makedirs(os.path.join(ROOT, "evidence"), exist_ok=True)
        with open(os.path.join(ROOT, "evidence", f"{pid}.json"), "w") as f:
            json.dump(ev, f, indent=1, default=str)
        self.say(f"{pid} {self.tier}: theorems {discharged}/{obligations} discharged; {len(results)} cases "
                 f"({len(nontrivial)} distinct non-trivial), {validated} agree with the model, "
                 f"{len(disagreements)} disagreements, {len(violations)} violating, {len(known_hit)} known findings; {wall:.1f}s")
        return rc
