"""WCS families used as base WCS by the correspondence checks, and cube builders.

(A) ProbeWCS — exact-arithmetic APE-14 low-level WCS: world = A @ pixel + b with small-integer
    A (unimodular when square), so forward and inverse are exact in IEEE doubles on dyadic inputs.
(B) real families: separable FITS, coupled celestial TAN pair, rotated PC, gWCS from ndcube's
    own lookup tables.
"""
import warnings
import numpy as np
import astropy.units as u
from astropy.wcs import WCS
from astropy.wcs.wcsapi import BaseLowLevelWCS

warnings.filterwarnings("ignore")


class ProbeWCS(BaseLowLevelWCS):
    def __init__(self, A, b, shape=None, units=None, names=None, ptypes=None, bounds=None):
        self.A = np.array(A, dtype=float)
        self.b = np.array(b, dtype=float)
        self.Ainv = None
        if self.A.shape[0] == self.A.shape[1]:
            inv = np.round(np.linalg.inv(self.A))
            if np.array_equal(inv @ self.A, np.eye(len(self.A))):
                self.Ainv = inv
        self._shape = None if shape is None else tuple(int(s) for s in shape)
        self._bounds = bounds
        n = self.A.shape[0]
        self._un = list(units) if units else ["m"] * n
        self._names = list(names) if names else [f"w{i}" for i in range(n)]
        self._pt = list(ptypes) if ptypes else [f"custom:probe.w{i}" for i in range(n)]

    pixel_n_dim = property(lambda s: s.A.shape[1])
    world_n_dim = property(lambda s: s.A.shape[0])
    world_axis_physical_types = property(lambda s: list(s._pt))
    world_axis_units = property(lambda s: list(s._un))
    array_shape = property(lambda s: s._shape)
    pixel_shape = property(lambda s: None if s._shape is None else tuple(s._shape[::-1]))
    pixel_bounds = property(lambda s: s._bounds)
    serialized_classes = False
    world_axis_names = property(lambda s: list(s._names))
    pixel_axis_names = property(lambda s: [f"p{i}" for i in range(s.pixel_n_dim)])

    @property
    def axis_correlation_matrix(self):
        return self.A != 0

    def pixel_to_world_values(self, *p):
        p = np.broadcast_arrays(*[np.asarray(x, dtype=float) for x in p])
        w = [sum(self.A[i, j] * p[j] for j in range(len(p))) + self.b[i] for i in range(self.world_n_dim)]
        return w[0] if self.world_n_dim == 1 else tuple(w)

    def world_to_pixel_values(self, *w):
        if self.Ainv is None:
            raise NotImplementedError("ProbeWCS without inverse")
        w = np.broadcast_arrays(*[np.asarray(x, dtype=float) for x in w])
        p = [sum(self.Ainv[j, i] * (w[i] - self.b[i]) for i in range(len(w))) for j in range(self.pixel_n_dim)]
        return p[0] if self.pixel_n_dim == 1 else tuple(p)

    @property
    def world_axis_object_components(self):
        return [(f"q{i}", 0, "value") for i in range(self.world_n_dim)]

    @property
    def world_axis_object_classes(self):
        return {f"q{i}": (u.Quantity, (), {"unit": self._un[i]}) for i in range(self.world_n_dim)}


UNIMODULAR_2 = [[[1, 0], [0, 1]], [[2, 1], [1, 1]], [[1, 1], [0, 1]], [[1, -1], [1, 0]], [[3, 2], [1, 1]]]


def probe_matrix(rng, ndim, kind=None):
    """Block-structured integer matrix over `ndim` pixel axes: 1x1 blocks (+-1, scaled) and
    unimodular 2x2 blocks placed on random axis pairs.  Returns A (square)."""
    A = np.zeros((ndim, ndim))
    axes = list(range(ndim))
    rng.shuffle(axes)
    k = 0
    while k < ndim:
        if ndim - k >= 2 and rng.random() < (0.5 if kind is None else (1.0 if kind == "coupled" else 0.0)):
            B = rng.choice(UNIMODULAR_2[1:])
            i, j = sorted(axes[k:k + 2])
            A[i, i], A[i, j], A[j, i], A[j, j] = B[0][0], B[0][1], B[1][0], B[1][1]
            k += 2
        else:
            i = axes[k]
            A[i, i] = rng.choice([1, 1, -1])
            k += 1
    return A


def declared_shape(shape, with_shape):
    """the array shape the WCS declares for itself: the data's (True), none (False), or a frame that differs from
    the data the cube holds ("larger" / "smaller" — what reproject_to(target, shape_out=...) leaves behind when the
    target declares its own frame: the cube's data, not the WCS's declared frame, is what the cube's methods describe)"""
    if not with_shape:
        return None
    if with_shape == "larger":
        return tuple(int(s) + 2 + i for i, s in enumerate(shape))
    if with_shape == "smaller":
        return tuple(max(1, int(s) // 2) for s in shape)
    return tuple(int(s) for s in shape)


def make_probe(rng, shape, with_shape=True, kind=None, extra_world=False, drop_world=False):
    ndim = len(shape)
    A = probe_matrix(rng, ndim, kind)
    b = [rng.randint(-8, 8) * 4 for _ in range(ndim)]
    if extra_world and ndim >= 1:
        row = np.zeros(ndim); row[rng.randrange(ndim)] = 2
        A = np.vstack([A, row]); b = b + [100]
    elif drop_world and ndim >= 2:
        # fewer world than pixel axes: one world value that depends on two pixel axes
        A = A[:-1].copy(); A[-1, -1] = 1; b = b[:-1]
    return ProbeWCS(A, b, shape=declared_shape(shape, with_shape))


FITS_LIN = [("WAVE", "Angstrom", 0.2, 10.0, "wave"), ("TIME", "s", 0.5, 0.0, "time"),
            ("FREQ", "Hz", 3.0, 5.0, "freq"), ("STOKES", "", 1.0, 1.0, "stokes")]


def make_fits(rng, shape, family="fits_sep", with_shape=True):
    """FITS WCS with `len(shape)` pixel axes (WCS order = reversed array order) and unique world
    axis names.  family: fits_sep | fits_cel | fits_rot."""
    n = len(shape)
    w = WCS(naxis=n)
    lin = list(FITS_LIN)
    rng.shuffle(lin)
    ctype, cunit, cdelt, crval, cname = [], [], [], [], []
    cel_at = None
    if family in ("fits_cel", "fits_rot", "fits_cd", "fits_cel3") and n >= 2:
        cel_at = rng.randrange(n - 1)
    k = 0
    i = 0
    while i < n:
        if cel_at is not None and i == cel_at:
            ctype += ["HPLN-TAN", "HPLT-TAN"]; cunit += ["deg", "deg"]
            cdelt += [0.4, 0.5]; crval += [1.0, 0.5]; cname += ["lon", "lat"]
            i += 2
        else:
            c = lin[k]; k += 1
            ctype.append(c[0]); cunit.append(c[1]); cdelt.append(c[2]); crval.append(c[3]); cname.append(c[4])
            i += 1
    w.wcs.ctype, w.wcs.cunit, w.wcs.crval = ctype, cunit, crval
    w.wcs.crpix = [rng.choice([0, 1, 2, 1.5]) for _ in range(n)]
    w.wcs.cname = cname
    if family == "fits_cd":
        # the linear part written as a CDi_j matrix (rotation of the celestial pair included) instead of PCi_j + CDELTi
        pc = np.eye(n)
        if cel_at is not None:
            th = np.deg2rad(rng.choice([30, 45, 60, -20]))
            a, b = cel_at, cel_at + 1
            pc[a, a], pc[a, b], pc[b, a], pc[b, b] = np.cos(th), -np.sin(th), np.sin(th), np.cos(th)
        w.wcs.cd = np.diag(cdelt) @ pc
    else:
        w.wcs.cdelt = cdelt
    if family == "fits_cel3" and cel_at is not None and n >= 3:
        # the celestial pair also depends on a third pixel axis (a pointing that drifts along it): the correlation
        # matrix is not block-diagonal and the celestial coordinate object has three array axes
        pc = np.eye(n)
        other = [i for i in range(n) if i not in (cel_at, cel_at + 1)][rng.randrange(n - 2)]
        pc[cel_at, other] = 0.25
        w.wcs.pc = pc
    if family == "fits_rot" and cel_at is not None:
        th = np.deg2rad(rng.choice([30, 45, 60, -20]))
        pc = np.eye(n)
        a, b = cel_at, cel_at + 1
        pc[a, a], pc[a, b], pc[b, a], pc[b, b] = np.cos(th), -np.sin(th), np.sin(th), np.cos(th)
        w.wcs.pc = pc
    w.wcs.set()
    if with_shape:
        w.array_shape = declared_shape(shape, with_shape)
    return w


def make_gwcs(rng, shape):
    """gWCS built from ndcube's own lookup tables, one Quantity table per array axis."""
    from ndcube.extra_coords.table_coord import QuantityTableCoordinate, MultipleTableCoordinate
    units = [u.m, u.s, u.kg, u.A]
    tabs = []
    for k, n in enumerate(shape[::-1]):  # WCS order: last array axis first
        start = rng.randint(-5, 5)
        step = rng.choice([1, 2, 0.5])
        vals = start + step * np.arange(n) + 0.25 * (np.arange(n) % 2)
        tabs.append(QuantityTableCoordinate(vals * units[k], names=f"g{k}", physical_types=f"custom:gw{k}"))
    w = MultipleTableCoordinate(*tabs).wcs if len(tabs) > 1 else tabs[0].wcs
    return w


def make_wcs(rng, shape, family, with_shape=True):
    if family == "probe":
        return make_probe(rng, shape, with_shape)
    if family == "probe_coupled":
        return make_probe(rng, shape, with_shape, kind="coupled")
    if family == "probe_extra":
        return make_probe(rng, shape, with_shape, extra_world=True)
    if family == "probe_drop":
        return make_probe(rng, shape, with_shape, drop_world=True)
    if family in ("fits_sep", "fits_cel", "fits_rot", "fits_cd", "fits_cel3"):
        return make_fits(rng, shape, family, with_shape)
    if family == "fits_sliced":
        # an already-wrapped WCS with fewer pixel than world axes: a (rotated) celestial FITS WCS
        # with one of its two celestial pixel axes indexed away
        from astropy.wcs.wcsapi.wrappers import SlicedLowLevelWCS
        full = tuple(shape) + (rng.choice([3, 4]),)
        w = make_fits(rng, full, rng.choice(["fits_rot", "fits_cel"]), True)
        n = len(full)
        cel = [i for i, c in enumerate(w.wcs.ctype) if c.startswith("HPL")]
        drop_pix = rng.choice(cel)
        arr_ax = n - 1 - drop_pix
        # put the dropped axis last in array order by choosing the shape accordingly
        shp = list(shape); shp.insert(arr_ax, full[-1])
        w.array_shape = tuple(shp)
        item = [slice(None)] * n
        item[arr_ax] = rng.choice([0, 1, 2])
        return SlicedLowLevelWCS(w, tuple(item))
    if family == "gwcs":
        return make_gwcs(rng, shape)
    raise ValueError(family)


def low_level(wcs):
    return wcs.low_level_wcs if hasattr(wcs, "low_level_wcs") else wcs


def p2w(wcs, pix):
    """pixel_to_world_values at one pixel vector (WCS order); always a list of floats."""
    ll = low_level(wcs)
    out = ll.pixel_to_world_values(*[float(x) for x in pix])
    if ll.world_n_dim == 1 and not isinstance(out, (tuple, list)):
        out = [out]
    return [float(np.asarray(x)) for x in out]


def close(a, b, exact=False):
    a, b = np.asarray(a, dtype=float), np.asarray(b, dtype=float)
    if a.shape != b.shape:
        return False
    if exact:
        return bool(np.array_equal(a, b, equal_nan=True))
    return bool(np.allclose(a, b, rtol=1e-9, atol=1e-9, equal_nan=True))


def corr_matrix(wcs):
    return [[bool(x) for x in row] for row in np.asarray(low_level(wcs).axis_correlation_matrix)]
