import NdcubeModel.Model.Py

/-!
# Lookup tables: linear interpolation and the resampling grid

`interp1 t x` is the specification of a 1-D lookup-table coordinate (gwcs `Tabular1D` with
`points = arange(n)`, linear method, no extrapolation; `numpy.interp` inside the range).
`resampleGrid` mirrors the grid of `ExtraCoords.resample`.
-/

namespace Ndcube

/-- Linear interpolation of table `t` (entries at integer pixels) at position `x`; `none`
outside `[0, n-1]`. -/
def interp1 (t : List Rat) (x : Rat) : Option Rat :=
  if x < 0 then none else
  let i := x.floor.toNat
  if (i : Rat) = x then t[i]?          -- exactly on a table entry (includes the last one)
  else
    match t[i]?, t[i + 1]? with
    | some a, some b => some (a + (x - (i : Rat)) * (b - a))
    | _, _ => none

/-- The new grid of `ExtraCoords.resample` along one axis of length `d`:
`x = arange(c, d + f, f); x = x[x <= d - 1]` (for `f ≥ 1`, `c ≥ 0` every candidate `c + k f`
with `k ≤ d` is enumerated). -/
def resampleGrid (c : Rat) (d : Nat) (f : Rat) : List Rat :=
  ((List.range (d + 1)).map fun (k : Nat) => c + (k : Rat) * f).filter fun x => x ≤ (d : Rat) - 1

/-- `table.interpolate(grid)`: the table of the resampled coordinate. -/
def interpolateTable (t : List Rat) (grid : List Rat) : List (Option Rat) := grid.map (interp1 t)

end Ndcube
