import NdcubeModel.Model.Cube

/-! Helper lemmas about `underPix`, `srcIndex`, `applyAxes`. -/

namespace Ndcube

def nonIntCount (its : List Item) : Nat := (its.filter fun it => !it.isInt).length

@[simp] theorem nonIntCount_nil : nonIntCount [] = 0 := rfl

theorem nonIntCount_cons_int (i : Int) (its : List Item) :
    nonIntCount (.int i :: its) = nonIntCount its := by
  simp [nonIntCount, Item.isInt]

theorem nonIntCount_cons_nonint (it : Item) (its : List Item) (h : it.isInt = false) :
    nonIntCount (it :: its) = nonIntCount its + 1 := by
  simp [nonIntCount, h]

theorem nonIntCount_append (a b : List Item) :
    nonIntCount (a ++ b) = nonIntCount a + nonIntCount b := by
  simp [nonIntCount]

theorem nonIntCount_reverse (a : List Item) : nonIntCount a.reverse = nonIntCount a := by
  simp [nonIntCount, List.filter_reverse]

theorem underPix_cons_nonint (it : Item) (its : List Item) (q : List Rat)
    (h : it.isInt = false) :
    underPix (it :: its) q = (q.headD 0 + (it.startOff : Rat)) :: underPix its q.tail := by
  cases it <;> simp_all [underPix, Item.isInt]

theorem underPix_append (a b : List Item) (q : List Rat) :
    underPix (a ++ b) q = underPix a q ++ underPix b (q.drop (nonIntCount a)) := by
  induction a generalizing q with
  | nil => simp [underPix]
  | cons it a ih =>
    by_cases h : it.isInt = true
    · cases it <;> simp_all [Item.isInt]
      rename_i i
      simp [underPix, ih, nonIntCount_cons_int]
    · have h' : it.isInt = false := by simpa using h
      rw [List.cons_append, underPix_cons_nonint _ _ _ h', underPix_cons_nonint _ _ _ h', ih,
        nonIntCount_cons_nonint _ _ h']
      simp [List.drop_tail] 

/-- Entries of `q` beyond the number of kept axes are ignored. -/
theorem underPix_extra (a : List Item) (q extra : List Rat) (h : nonIntCount a ≤ q.length) :
    underPix a (q ++ extra) = underPix a q := by
  induction a generalizing q with
  | nil => simp [underPix]
  | cons it a ih =>
    by_cases hi : it.isInt = true
    · cases it <;> simp_all [Item.isInt]
      rename_i i
      simp only [underPix]
      rw [ih]
      simpa [nonIntCount_cons_int] using h
    · have h' : it.isInt = false := by simpa using hi
      rw [nonIntCount_cons_nonint _ _ h'] at h
      cases q with
      | nil => simp at h
      | cons x q =>
        rw [List.cons_append, underPix_cons_nonint _ _ _ h', underPix_cons_nonint _ _ _ h']
        simp only [List.headD_cons, List.tail_cons]
        rw [ih]
        simp at h; omega

/-- Walking the reversed lists gives the reversed result (`_slices_pixel = _slices_array[::-1]`). -/
theorem underPix_reverse (its : List Item) (q : List Rat) (h : q.length = nonIntCount its) :
    underPix its.reverse q.reverse = (underPix its q).reverse := by
  induction its generalizing q with
  | nil => simp [underPix]
  | cons it its ih =>
    by_cases hi : it.isInt = true
    · cases it <;> simp_all [Item.isInt]
      rename_i i
      rw [underPix_append, ih q (by simpa [nonIntCount_cons_int] using h)]
      simp [underPix]
    · have h' : it.isInt = false := by simpa using hi
      rw [nonIntCount_cons_nonint _ _ h'] at h
      cases q with
      | nil => simp at h
      | cons x q =>
        have hq : q.length = nonIntCount its := by simpa using h
        rw [List.reverse_cons, List.reverse_cons, underPix_append,
          underPix_extra _ _ _ (by simp [nonIntCount_reverse, hq]), ih q hq,
          underPix_cons_nonint _ _ _ h']
        simp [nonIntCount_reverse, ← hq, underPix_cons_nonint _ _ _ h', underPix]

end Ndcube

namespace Ndcube

/-- An item all of whose bounds are non-negative (what `_normalize_negative_indices` returns). -/
def Item.Nonneg : Item → Prop
  | .int i => 0 ≤ i
  | .slice s e _ => (∀ a, s = some a → 0 ≤ a) ∧ (∀ b, e = some b → 0 ≤ b)
  | _ => True

theorem normalizeNegative_nonneg (n : Nat) (it it' : Item)
    (h : normalizeNegative n it = .ok it') : it'.Nonneg := by
  cases it with
  | int i =>
    simp only [normalizeNegative] at h
    split at h
    · split at h
      · cases h
      · cases h; simp only [Item.Nonneg]; omega
    · cases h; simp only [Item.Nonneg]; omega
  | slice s e st =>
    simp only [normalizeNegative] at h
    cases h
    refine ⟨?_, ?_⟩
    · intro a ha
      cases s with
      | none => simp [normBound] at ha
      | some b =>
        simp only [normBound] at ha
        split at ha
        · cases ha; omega
        · cases ha; omega
    · intro a ha
      cases e with
      | none => simp [normBound] at ha
      | some b =>
        simp only [normBound] at ha
        split at ha
        · cases ha; omega
        · cases ha; omega
  | ellipsis => simp [normalizeNegative] at h; cases h; trivial
  | none => simp [normalizeNegative] at h; cases h; trivial

theorem clampBound_normBound (n : Nat) (b : Option Int) (d : Nat) :
    clampBound n (normBound n b) d = clampBound n b d := by
  cases b with
  | none => rfl
  | some b =>
    by_cases hb : b < 0
    · by_cases hb2 : b + (n:Int) < 0
      · have hm : max (b + (n:Int)) 0 = 0 := by omega
        have h3 : ¬ ((0:Int) < 0) := by omega
        have h4 : ¬ ((0:Int) > n) := by omega
        simp only [normBound, clampBound, if_pos hb, if_pos hb2, hm, if_neg h3, if_neg h4]; rfl
      · have hm : max (b + (n:Int)) 0 = b + n := by omega
        have h3 : ¬ (b + (n:Int) > n) := by omega
        simp only [normBound, clampBound, if_pos hb, if_neg hb2, hm, if_neg h3]
    · simp only [normBound, if_neg hb]

theorem sliceBounds_normBound (n : Nat) (s e : Option Int) :
    sliceBounds n (normBound n s) (normBound n e) = sliceBounds n s e := by
  simp [sliceBounds, clampBound_normBound]

theorem clampBound_le (n : Nat) (b : Option Int) (d : Nat) (hd : d ≤ n) : clampBound n b d ≤ n := by
  cases b with
  | none => exact hd
  | some b => simp only [clampBound]; (repeat' split) <;> omega

/-- When a slice keeps something, its raw normalised start is the clamped one. -/
theorem start_eq_lo (n : Nat) (s : Option Int) (hi : Nat) (he : hi ≤ n)
    (h : 0 < hi - clampBound n s 0) :
    optStart (normBound n s) = clampBound n s 0 := by
  cases s with
  | none => rfl
  | some b =>
    by_cases hb : b < 0
    · by_cases hb2 : b + (n:Int) < 0
      · have hm : max (b + (n:Int)) 0 = 0 := by omega
        simp only [normBound, clampBound, optStart, if_pos hb, if_pos hb2, hm] at h ⊢; rfl
      · have hm : max (b + (n:Int)) 0 = b + n := by omega
        simp only [normBound, clampBound, optStart, if_pos hb, if_neg hb2, hm] at h ⊢
    · by_cases hb2 : b > (n:Int)
      · simp only [normBound, clampBound, optStart, if_neg hb, if_pos hb2] at h ⊢; omega
      · simp only [normBound, clampBound, optStart, if_neg hb, if_neg hb2] at h ⊢

def castN (r : List Nat) : List Rat := r.map fun (n : Nat) => (n : Rat)

theorem cast_toNat (i : Int) (h : 0 ≤ i) : ((i.toNat : Nat) : Rat) = (i : Rat) := by
  have : ((i.toNat : Nat) : Int) = i := Int.toNat_of_nonneg h
  rw [← Rat.intCast_natCast, this]

theorem applyAxes_cons {n : Nat} {ns : List Nat} {it : Item} {its : List Item}
    {axes : List AxisRes} (h : applyAxes (n :: ns) (it :: its) = .ok axes) :
    ∃ a rest, applyAxis n it = .ok a ∧ applyAxes ns its = .ok rest ∧ axes = a :: rest := by
  simp only [applyAxes, bind, Except.bind] at h
  split at h
  · cases h
  · rename_i a ha
    split at h
    · cases h
    · rename_i rest hr
      simp only [pure, Except.pure] at h
      cases h
      exact ⟨a, rest, ha, hr, rfl⟩

theorem applyAxes_length {shape : List Nat} {its : List Item} {axes : List AxisRes}
    (h : applyAxes shape its = .ok axes) : its.length = shape.length ∧ axes.length = shape.length := by
  induction shape generalizing its axes with
  | nil =>
    cases its with
    | nil => simp [applyAxes] at h; cases h; simp
    | cons _ _ => simp [applyAxes] at h
  | cons n ns ih =>
    cases its with
    | nil => simp [applyAxes] at h
    | cons it its =>
      obtain ⟨a, rest, _, hr, rfl⟩ := applyAxes_cons h
      have := ih hr
      simp [this.1, this.2]

/-- The pixel vector that the sliced WCS hands to its base is the source multi-index. -/
theorem underPix_srcIndex {shape : List Nat} {its : List Item} {axes : List AxisRes}
    (h : applyAxes shape its = .ok axes) (hn : ∀ it ∈ its, it.Nonneg) (r : List Nat)
    (hr : r.length = nonIntCount its) :
    underPix its (castN r) = castN (srcIndex axes r) := by
  induction shape generalizing its axes r with
  | nil =>
    cases its with
    | nil => simp [applyAxes] at h; cases h; simp [underPix, srcIndex, castN]
    | cons _ _ => simp [applyAxes] at h
  | cons n ns ih =>
    cases its with
    | nil => simp [applyAxes] at h
    | cons it its =>
      obtain ⟨a, rest, ha, hrest, rfl⟩ := applyAxes_cons h
      have hn' : ∀ it ∈ its, it.Nonneg := fun x hx => hn x (List.mem_cons_of_mem _ hx)
      have hit : it.Nonneg := hn it (List.mem_cons_self ..)
      cases it with
      | int i =>
        simp only [applyAxis] at ha
        split at ha
        · cases ha
          rename_i hi
          rw [nonIntCount_cons_int] at hr
          simp only [underPix, srcIndex, castN, List.map_cons]
          have := ih hrest hn' r hr
          simp only [castN] at this
          rw [this]
          congr 1
          exact (cast_toNat i hi.1).symm
        · cases ha
      | slice s e st =>
        simp only [applyAxis] at ha
        cases ha
        rw [nonIntCount_cons_nonint _ _ (by simp [Item.isInt])] at hr
        cases r with
        | nil => simp at hr
        | cons x r =>
          have hr' : r.length = nonIntCount its := by simpa using hr
          rw [show castN (x :: r) = (x : Rat) :: castN r from rfl,
            underPix_cons_nonint _ _ _ (by simp [Item.isInt])]
          simp only [List.headD_cons, List.tail_cons, srcIndex]
          rw [ih hrest hn' r hr']
          simp only [castN, List.map_cons]
          congr 1
          cases s with
          | none => simp [Item.startOff, optStart, Rat.add_zero]
          | some b =>
            have hb : 0 ≤ b := hit.1 b rfl
            simp only [Item.startOff, optStart]
            rw [← cast_toNat b hb]
            simp [Rat.add_comm]
      | ellipsis => simp [applyAxis] at ha
      | none => simp [applyAxis] at ha

theorem resultShape_length {shape : List Nat} {its : List Item} {axes : List AxisRes}
    (h : applyAxes shape its = .ok axes) : (resultShape axes).length = nonIntCount its := by
  induction shape generalizing its axes with
  | nil =>
    cases its with
    | nil => simp [applyAxes] at h; cases h; simp [resultShape]
    | cons _ _ => simp [applyAxes] at h
  | cons n ns ih =>
    cases its with
    | nil => simp [applyAxes] at h
    | cons it its =>
      obtain ⟨a, rest, ha, hrest, rfl⟩ := applyAxes_cons h
      cases it with
      | int i =>
        simp only [applyAxis] at ha
        split at ha
        · cases ha; simp [resultShape, nonIntCount_cons_int, ih hrest]
        · cases ha
      | slice s e st =>
        simp only [applyAxis] at ha
        cases ha
        simp [resultShape, nonIntCount_cons_nonint _ _ (show (Item.slice s e st).isInt = false from rfl), ih hrest]
      | ellipsis => simp [applyAxis] at ha
      | none => simp [applyAxis] at ha

theorem inShape_length {shape r : List Nat} (h : inShape shape r) : r.length = shape.length := by
  induction shape generalizing r with
  | nil => cases r <;> simp_all [inShape]
  | cons n ns ih =>
    cases r with
    | nil => simp [inShape] at h
    | cons x xs => simp [inShape] at h; simp [ih h.2]

end Ndcube

namespace Ndcube

theorem normAxes_nonneg {shape : List Nat} {its its' : List Item}
    (h : normAxes shape its = .ok its') : ∀ it ∈ its', it.Nonneg := by
  induction shape generalizing its its' with
  | nil => simp [normAxes] at h; cases h; simp
  | cons n ns ih =>
    cases its with
    | nil => simp [normAxes] at h; cases h; simp
    | cons it its =>
      simp only [normAxes, bind, Except.bind] at h
      split at h
      · cases h
      · rename_i a ha
        split at h
        · cases h
        · rename_i rest hr
          simp only [pure, Except.pure] at h
          cases h
          intro x hx
          rcases List.mem_cons.mp hx with rfl | hx
          · exact normalizeNegative_nonneg _ _ _ ha
          · exact ih hr x hx

theorem normItems_nonneg {shape : List Nat} {items its : List Item}
    (h : normItems shape items = .ok its) : ∀ it ∈ its, it.Nonneg := by
  simp only [normItems, bind, Except.bind] at h
  split at h
  · cases h
  · exact normAxes_nonneg h

theorem pixelKeepFrom_length (k : Nat) (its : List Item) :
    (pixelKeepFrom k its).length = nonIntCount its := by
  induction its generalizing k with
  | nil => rfl
  | cons it its ih =>
    by_cases h : it.isInt = true
    · cases it <;> simp_all [Item.isInt]
      simp [pixelKeepFrom, Item.isInt, ih, nonIntCount_cons_int]
    · have h' : it.isInt = false := by simpa using h
      simp [pixelKeepFrom, h', ih, nonIntCount_cons_nonint _ _ h']

theorem pixelKeep_reverse_length (its : List Item) :
    (pixelKeep its.reverse).length = nonIntCount its := by
  simp [pixelKeep, pixelKeepFrom_length, nonIntCount_reverse]

/-- A result multi-index inside the result shape maps to a source multi-index inside the
source shape. -/
theorem srcIndex_inShape {shape : List Nat} {its : List Item} {axes : List AxisRes}
    (h : applyAxes shape its = .ok axes) (hn : ∀ it ∈ its, it.Nonneg) (r : List Nat)
    (hr : inShape (resultShape axes) r) : inShape shape (srcIndex axes r) := by
  induction shape generalizing its axes r with
  | nil =>
    cases its with
    | nil => simp [applyAxes] at h; cases h; simp [srcIndex, inShape]
    | cons _ _ => simp [applyAxes] at h
  | cons n ns ih =>
    cases its with
    | nil => simp [applyAxes] at h
    | cons it its =>
      obtain ⟨a, rest, ha, hrest, rfl⟩ := applyAxes_cons h
      have hn' : ∀ it ∈ its, it.Nonneg := fun x hx => hn x (List.mem_cons_of_mem _ hx)
      have hit : it.Nonneg := hn it (List.mem_cons_self ..)
      cases it with
      | int i =>
        simp only [applyAxis] at ha
        split at ha
        · cases ha
          rename_i hi
          simp only [resultShape] at hr
          simp only [srcIndex, inShape]
          exact ⟨by omega, ih hrest hn' r hr⟩
        · cases ha
      | slice s e st =>
        simp only [applyAxis] at ha
        cases ha
        cases r with
        | nil => simp [resultShape, inShape] at hr
        | cons x r =>
          simp only [resultShape, inShape] at hr
          simp only [srcIndex, inShape]
          refine ⟨?_, ih hrest hn' r hr.2⟩
          have hx : x < clampBound n e n - clampBound n s 0 := hr.1
          have hhi := clampBound_le n e n (Nat.le_refl _)
          generalize clampBound n e n = hi at hx hhi
          cases s with
          | none => simp only [optStart, clampBound] at *; omega
          | some b =>
            have hb : 0 ≤ b := hit.1 b rfl
            have h1 : ¬ (b < 0) := by omega
            simp only [clampBound, if_neg h1] at hx
            simp only [optStart]
            split at hx <;> omega
      | ellipsis => simp [applyAxis] at ha
      | none => simp [applyAxis] at ha

/-- numpy's shape of `broadcast_to(0, shape)[items]` is the model's result shape. -/
theorem slicedShape_eq {shape : List Nat} {its : List Item} {axes : List AxisRes}
    (h : applyAxes shape its = .ok axes) : slicedShape shape its = resultShape axes := by
  induction shape generalizing its axes with
  | nil =>
    cases its with
    | nil => simp [applyAxes] at h; cases h; simp [slicedShape, resultShape]
    | cons _ _ => simp [applyAxes] at h
  | cons n ns ih =>
    cases its with
    | nil => simp [applyAxes] at h
    | cons it its =>
      obtain ⟨a, rest, ha, hrest, rfl⟩ := applyAxes_cons h
      cases it with
      | int i =>
        simp only [applyAxis] at ha
        split at ha
        · cases ha; simp [slicedShape, resultShape, ih hrest]
        · cases ha
      | slice s e st =>
        simp only [applyAxis] at ha
        cases ha
        simp [slicedShape, resultShape, ih hrest]
      | ellipsis => simp [applyAxis] at ha
      | none => simp [applyAxis] at ha

end Ndcube

namespace Ndcube

theorem pixelKeepFrom_all_int (k : Nat) (its : List Item) (h : ∀ it ∈ its, it.isInt = true) :
    pixelKeepFrom k its = [] := by
  induction its generalizing k with
  | nil => rfl
  | cons it its ih =>
    have h1 := h it (List.mem_cons_self ..)
    simp [pixelKeepFrom, h1, ih (k + 1) (fun x hx => h x (List.mem_cons_of_mem _ hx))]

theorem slicedWcs_all_int {ω} (w : LLWcs ω) (its : List Item) (h : ∀ it ∈ its, it.isInt = true) :
    slicedWcs w its = .error .valueError := by
  have : pixelKeep its.reverse = [] :=
    pixelKeepFrom_all_int 0 _ (fun it hit => h it (List.mem_reverse.mp hit))
  simp [slicedWcs, this]

theorem normAxes_all_int {shape : List Nat} {its its' : List Item}
    (h : normAxes shape its = .ok its') (hall : ∀ it ∈ its, it.isInt = true) :
    ∀ it ∈ its', it.isInt = true := by
  induction shape generalizing its its' with
  | nil => simp [normAxes] at h; cases h; simp
  | cons n ns ih =>
    cases its with
    | nil => simp [normAxes] at h; cases h; simp
    | cons it its =>
      simp only [normAxes, bind, Except.bind] at h
      split at h
      · cases h
      · rename_i a ha
        split at h
        · cases h
        · rename_i rest hr
          simp only [pure, Except.pure] at h
          cases h
          intro x hx
          rcases List.mem_cons.mp hx with rfl | hx
          · have hi := hall it (List.mem_cons_self ..)
            cases it <;> simp_all [Item.isInt]
            simp only [normalizeNegative] at ha
            split at ha
            · split at ha
              · cases ha
              · cases ha; rfl
            · cases ha; rfl
          · exact ih hr (fun y hy => hall y (List.mem_cons_of_mem _ hy)) x hx

theorem countEllipsis_all_int (items : List Item) (hall : ∀ it ∈ items, it.isInt = true) :
    countEllipsis items = 0 := by
  simp only [countEllipsis, List.length_eq_zero_iff, List.filter_eq_nil_iff]
  intro it hit
  have := hall it hit
  cases it <;> simp_all [Item.isInt]

theorem sanitize_all_int {ndim : Nat} {items its : List Item}
    (h : sanitize ndim items = .ok its) (hlen : items.length = ndim)
    (hall : ∀ it ∈ items, it.isInt = true) : its = items := by
  simp only [sanitize, countEllipsis_all_int items hall] at h
  split at h
  · cases h
  · split at h
    · cases h
    · simp only [if_false, Nat.zero_ne_one] at h
      split at h
      · cases h
      · split at h
        · cases h
        · cases h; simp [hlen]

end Ndcube

namespace Ndcube

theorem applyAxes_error {shape : List Nat} {its : List Item} {e : Err}
    (h : applyAxes shape its = .error e) : e = .indexError := by
  induction shape generalizing its with
  | nil =>
    cases its with
    | nil => simp [applyAxes] at h
    | cons _ _ => simp [applyAxes] at h; exact h.symm
  | cons n ns ih =>
    cases its with
    | nil => simp [applyAxes] at h; exact h.symm
    | cons it its =>
      simp only [applyAxes, bind, Except.bind] at h
      split at h
      · rename_i e' ha
        cases h
        cases it with
        | int i => simp only [applyAxis] at ha; split at ha <;> cases ha; rfl
        | slice s e st => simp [applyAxis] at ha
        | ellipsis => simp [applyAxis] at ha; exact ha.symm
        | none => simp [applyAxis] at ha; exact ha.symm
      · split at h
        · rename_i e' hr
          cases h
          exact ih hr
        · cases h

theorem normAxes_error {shape : List Nat} {its : List Item} {e : Err}
    (h : normAxes shape its = .error e) : e = .indexError := by
  induction shape generalizing its with
  | nil => simp [normAxes] at h
  | cons n ns ih =>
    cases its with
    | nil => simp [normAxes] at h
    | cons it its =>
      simp only [normAxes, bind, Except.bind] at h
      split at h
      · rename_i e' ha
        cases h
        cases it with
        | int i =>
          simp only [normalizeNegative] at ha
          split at ha
          · split at ha
            · cases ha; rfl
            · cases ha
          · cases ha
        | slice s e st => simp [normalizeNegative] at ha
        | ellipsis => simp [normalizeNegative] at ha
        | none => simp [normalizeNegative] at ha
      · split at h
        · rename_i e' hr
          cases h
          exact ih hr
        · cases h

theorem sanitize_all_int_ok {ndim : Nat} {items : List Item} (hlen : items.length = ndim)
    (hall : ∀ it ∈ items, it.isInt = true) : sanitize ndim items = .ok items := by
  have hnone : items.any (· == .none) = false := by
    simp only [List.any_eq_false]
    intro it hit
    have := hall it hit
    cases it <;> simp_all [Item.isInt]
  have hmap : items.mapM checkEntry = .ok (items.map fun _ => ()) := by
    clear hnone hlen
    induction items with
    | nil => rfl
    | cons it its ih =>
      have h1 := hall it (List.mem_cons_self ..)
      have h2 := ih (fun x hx => hall x (List.mem_cons_of_mem _ hx))
      cases it <;>
        simp_all [Item.isInt, List.mapM_cons, checkEntry, bind, Except.bind, pure, Except.pure]
  simp [sanitize, countEllipsis_all_int items hall, hlen, hnone, hmap]

end Ndcube

namespace Ndcube

theorem numDropped_le (axes : List AxisRes) : numDropped axes ≤ axes.length := by
  simp only [numDropped]; exact List.length_filter_le _ _

theorem numDropped_cons (a : AxisRes) (as : List AxisRes) :
    numDropped (a :: as) = (if a.isKept then 0 else 1) + numDropped as := by
  cases h : a.isKept <;> simp [numDropped, h] <;> omega

/-- Result axis `ca - (#axes dropped in front of ca)` is a view of source axis `ca`, whenever
source axis `ca` survives. -/
theorem keptFrom_get (k ca : Nat) (axes : List AxisRes) (h : ca < axes.length)
    (hk : (axes.getD ca (.dropped 0)).isKept = true) :
    (keptFrom k axes)[ca - numDropped (axes.take ca)]? = some (k + ca) := by
  induction axes generalizing k ca with
  | nil => simp at h
  | cons a as ih =>
    cases ca with
    | zero =>
      simp only [List.getD_cons_zero] at hk
      simp [keptFrom, hk, numDropped]
    | succ c =>
      simp only [List.length_cons] at h
      simp only [List.getD_cons_succ] at hk
      have hle : numDropped (as.take c) ≤ c := by
        have := numDropped_le (as.take c)
        simp only [List.length_take] at this; omega
      have := ih (k + 1) c (by omega) hk
      simp only [List.take_succ_cons, numDropped_cons]
      cases ha : a.isKept
      · simp only [keptFrom, ha, Bool.false_eq_true, if_false]
        have h1 : c + 1 - (1 + numDropped (as.take c)) = c - numDropped (as.take c) := by omega
        rw [h1, this]; congr 1; omega
      · simp only [keptFrom, ha, if_true]
        have h1 : c + 1 - (0 + numDropped (as.take c)) = (c - numDropped (as.take c)) + 1 := by omega
        rw [h1, List.getElem?_cons_succ, this]; congr 1; omega

/-- Integer items are exactly the dropped axes. -/
theorem applyAxes_isInt {shape : List Nat} {its : List Item} {axes : List AxisRes}
    (h : applyAxes shape its = .ok axes) :
    axes.map (fun a => !a.isKept) = its.map Item.isInt := by
  induction shape generalizing its axes with
  | nil =>
    cases its with
    | nil => simp [applyAxes] at h; cases h; rfl
    | cons _ _ => simp [applyAxes] at h
  | cons n ns ih =>
    cases its with
    | nil => simp [applyAxes] at h
    | cons it its =>
      obtain ⟨a, rest, ha, hrest, rfl⟩ := applyAxes_cons h
      simp only [List.map_cons, ih hrest]
      congr 1
      cases it with
      | int i =>
        simp only [applyAxis] at ha
        split at ha
        · cases ha; rfl
        · cases ha
      | slice s e st => simp only [applyAxis] at ha; cases ha; rfl
      | ellipsis => simp [applyAxis] at ha
      | none => simp [applyAxis] at ha

theorem numDropped_eq_countInts {shape : List Nat} {its : List Item} {axes : List AxisRes}
    (h : applyAxes shape its = .ok axes) (c : Nat) :
    numDropped (axes.take c) = countInts (its.take c) := by
  have := applyAxes_isInt h
  have h2 : (axes.take c).map (fun a => !a.isKept) = (its.take c).map Item.isInt := by
    rw [List.map_take, List.map_take, this]
  simp only [numDropped, countInts]
  rw [← List.countP_eq_length_filter, ← List.countP_eq_length_filter]
  have e1 := List.countP_map (p := fun b : Bool => b) (f := fun a : AxisRes => !a.isKept) (l := axes.take c)
  have e2 := List.countP_map (p := fun b : Bool => b) (f := Item.isInt) (l := its.take c)
  simp only [Function.comp_def] at e1 e2
  rw [← e1, ← e2, h2]

end Ndcube

namespace Ndcube

theorem normalizeNegative_isInt {n : Nat} {it it' : Item} (h : normalizeNegative n it = .ok it') :
    it'.isInt = it.isInt := by
  cases it with
  | int i =>
    simp only [normalizeNegative] at h
    split at h
    · split at h
      · cases h
      · cases h; rfl
    · cases h; rfl
  | slice s e st => simp only [normalizeNegative] at h; cases h; rfl
  | ellipsis => simp only [normalizeNegative] at h; cases h; rfl
  | none => simp only [normalizeNegative] at h; cases h; rfl

theorem normAxes_isInt {shape : List Nat} {its its' : List Item}
    (h : normAxes shape its = .ok its') (hlen : its.length = shape.length) :
    its'.map Item.isInt = its.map Item.isInt := by
  induction shape generalizing its its' with
  | nil =>
    cases its with
    | nil => simp [normAxes] at h; cases h; rfl
    | cons _ _ => simp at hlen
  | cons n ns ih =>
    cases its with
    | nil => simp at hlen
    | cons it its =>
      simp only [normAxes, bind, Except.bind] at h
      split at h
      · cases h
      · rename_i a ha
        split at h
        · cases h
        · rename_i rest hr
          simp only [pure, Except.pure] at h
          cases h
          simp only [List.map_cons, normalizeNegative_isInt ha, ih hr (by simpa using hlen)]

/-- Without Ellipsis and at full length, `sanitize` returns the items unchanged. -/
theorem sanitize_full {ndim : Nat} {items its : List Item} (h : sanitize ndim items = .ok its)
    (hlen : items.length = ndim) (hne : countEllipsis items = 0) : its = items := by
  simp only [sanitize, hne] at h
  split at h
  · cases h
  · split at h
    · cases h
    · simp only [if_false, Nat.zero_ne_one] at h
      split at h
      · cases h
      · split at h
        · cases h
        · cases h; simp [hlen]

theorem stripEmptyEllipsis_of_ne (ndim : Nat) (items : List Item) (h : items.length ≠ ndim + 1 ∨ countEllipsis items ≠ 1) :
    stripEmptyEllipsis ndim items = items := by
  simp only [stripEmptyEllipsis]
  rw [if_neg]
  intro hc
  rcases h with h | h
  · exact h hc.1
  · exact h hc.2

theorem stripEmptyEllipsis_any_none (ndim : Nat) (items : List Item) :
    (stripEmptyEllipsis ndim items).any (· == .none) = items.any (· == .none) := by
  have gen : ∀ l : List Item, (l.filter (· != .ellipsis)).any (· == .none) = l.any (· == .none) := by
    intro l
    induction l with
    | nil => rfl
    | cons it its ih =>
      cases it <;> simp_all [List.filter_cons]
  simp only [stripEmptyEllipsis]
  split
  · exact gen items
  · rfl

theorem normItems_isInt {shape : List Nat} {items its : List Item}
    (h : normItems shape items = .ok its) (hlen : items.length = shape.length)
    (hne : countEllipsis items = 0) : its.map Item.isInt = items.map Item.isInt := by
  simp only [normItems, bind, Except.bind] at h
  rw [stripEmptyEllipsis_of_ne _ _ (Or.inl (by omega))] at h
  split at h
  · cases h
  · rename_i san hs
    have := sanitize_full hs hlen hne
    subst this
    exact normAxes_isInt h hlen

end Ndcube

namespace Ndcube

/-- length of a kept axis (0 for a dropped one) -/
def AxisRes.len : AxisRes → Nat
  | .kept _ l => l
  | .dropped _ => 0

theorem resultShape_eq_keptFrom (k : Nat) (pre res : List AxisRes) (hk : pre.length = k) :
    resultShape res = (keptFrom k res).map fun a => ((pre ++ res).getD a (.dropped 0)).len := by
  induction res generalizing k pre with
  | nil => simp [resultShape, keptFrom]
  | cons r rs ih =>
    have hstep := ih (k + 1) (pre ++ [r]) (by simp [hk])
    rw [List.append_assoc, List.singleton_append] at hstep
    cases r with
    | kept s l =>
      simp only [resultShape, keptFrom, AxisRes.isKept, if_true, List.map_cons, hstep]
      congr 1
      simp [List.getD, List.getElem?_append_right, ← hk, AxisRes.len]
    | dropped i =>
      simp only [resultShape, keptFrom, AxisRes.isKept, Bool.false_eq_true, if_false, hstep]

/-- The result shape lists, for each surviving axis in order, the kept length of its source axis. -/
theorem resultShape_eq_keptAxes (res : List AxisRes) :
    resultShape res = (keptAxes res).map fun a => (res.getD a (.dropped 0)).len := by
  simpa [keptAxes] using resultShape_eq_keptFrom 0 [] res rfl

/-- Number of elements a (possibly un-normalised) item keeps on an axis of length `n`. -/
def itemLen (n : Nat) : Item → Nat
  | .slice s e _ => (sliceBounds n s e).2 - (sliceBounds n s e).1
  | _ => n

/-- After normalisation and application, a slice item at position `a` keeps `itemLen` elements. -/
theorem applyAxes_len {shape : List Nat} {items nits : List Item} {res : List AxisRes}
    (hn : normAxes shape items = .ok nits) (hres : applyAxes shape nits = .ok res)
    (a : Nat) (s e st : Option Int) (ha : items[a]? = some (.slice s e st)) :
    (res.getD a (.dropped 0)).len = itemLen (shape.getD a 0) (.slice s e st) := by
  induction shape generalizing items nits res a with
  | nil =>
    cases items with
    | nil => simp at ha
    | cons it its =>
      simp only [normAxes] at hn
      cases hn
      simp [applyAxes] at hres
      subst hres
      have h1 := clampBound_le 0 e 0 (Nat.le_refl _)
      simp only [List.getD, List.getElem?_nil, Option.getD_none, AxisRes.len, itemLen, sliceBounds]
      omega
  | cons n ns ih =>
    cases items with
    | nil => simp at ha
    | cons it its =>
      simp only [normAxes, bind, Except.bind] at hn
      split at hn
      · cases hn
      · rename_i it' hit'
        split at hn
        · cases hn
        · rename_i rest hrest
          simp only [pure, Except.pure] at hn
          cases hn
          obtain ⟨r, rs, hr, hrs, rfl⟩ := applyAxes_cons hres
          cases a with
          | zero =>
            simp only [List.getElem?_cons_zero, Option.some.injEq] at ha
            subst ha
            simp only [normalizeNegative] at hit'
            cases hit'
            simp only [applyAxis] at hr
            cases hr
            simp [AxisRes.len, itemLen, sliceBounds, clampBound_normBound]
          | succ b =>
            simp only [List.getElem?_cons_succ] at ha
            simpa using ih hrest hrs b ha

end Ndcube

namespace Ndcube

theorem getElem?_eq_some_getD {α} (l : List α) (i : Nat) (d : α) (h : i < l.length) :
    l[i]? = some (l.getD i d) := by
  simp [List.getD, List.getElem?_eq_getElem h]

theorem getD_of_getElem? {α} (l : List α) (i : Nat) (d x : α) (h : l[i]? = some x) :
    l.getD i d = x := by
  simp [List.getD, h]

end Ndcube
