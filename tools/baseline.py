#!/venv/bin/python
"""Run the pinned baseline of /repo (guard OFF) and compare with /root/.vp/BASELINE.json.

usage: tools/baseline.py [repo_dir]     exit 0 iff every one of the stable passes still passes.
"""
import json, os, subprocess, sys, tempfile, xml.etree.ElementTree as ET

repo = sys.argv[1] if len(sys.argv) > 1 else "/repo"
base = json.load(open("/root/.vp/BASELINE.json"))
want = set(base["stable_pass"])
env = dict(os.environ)
env.pop("NDCUBE_VERIF", None)
env["PYTHONPATH"] = repo
with tempfile.TemporaryDirectory() as d:
    xml = os.path.join(d, "j.xml")
    subprocess.run(["/venv/bin/python", "-m", "pytest", "-ra", "-q", "-p", "no:cacheprovider",
                    "--timeout=900", "--continue-on-collection-errors", f"--junitxml={xml}"],
                   cwd=repo, env=env, stdout=subprocess.DEVNULL, stderr=subprocess.DEVNULL)
    passed = set()
    for tc in ET.parse(xml).getroot().iter("testcase"):
        if not any(ch.tag in ("failure", "error", "skipped") for ch in tc):
            passed.add(f"{tc.get('classname')}::{tc.get('name')}")
missing = sorted(want - passed)
print(f"baseline: {len(want & passed)}/{len(want)} stable passes still pass; {len(passed)} passed in total")
for m in missing:
    print("  MISSING", m)
sys.exit(1 if missing else 0)
