from common import *
from astropy.wcs.wcsapi import BaseLowLevelWCS
class ProbeWCS(BaseLowLevelWCS):
    """world = A @ pixel + b with integer A (unimodular blocks) -> exact in floats."""
    def __init__(self, A, b, shape=None, ptypes=None, units=None):
        self.A = np.array(A, dtype=float); self.b = np.array(b, dtype=float)
        self.Ainv = np.round(np.linalg.inv(self.A))
        assert np.array_equal(self.Ainv @ self.A, np.eye(len(self.A)))
        self._shape = shape
        n = len(self.b)
        self._pt = ptypes or [f"custom:probe.w{i}" for i in range(n)]
        self._un = units or ["m"]*n
    pixel_n_dim = property(lambda s: s.A.shape[1])
    world_n_dim = property(lambda s: s.A.shape[0])
    world_axis_physical_types = property(lambda s: list(s._pt))
    world_axis_units = property(lambda s: list(s._un))
    array_shape = property(lambda s: s._shape)
    pixel_shape = property(lambda s: None if s._shape is None else tuple(s._shape[::-1]))
    pixel_bounds = None
    axis_correlation_matrix = property(lambda s: s.A != 0)
    serialized_classes = False
    world_axis_names = property(lambda s: [f"w{i}" for i in range(s.world_n_dim)])
    pixel_axis_names = property(lambda s: [f"p{i}" for i in range(s.pixel_n_dim)])
    def pixel_to_world_values(self, *p):
        p = np.broadcast_arrays(*[np.asarray(x, dtype=float) for x in p])
        w = [sum(self.A[i,j]*p[j] for j in range(len(p))) + self.b[i] for i in range(self.world_n_dim)]
        return w[0] if self.world_n_dim == 1 else tuple(w)
    def world_to_pixel_values(self, *w):
        w = np.broadcast_arrays(*[np.asarray(x, dtype=float) for x in w])
        p = [sum(self.Ainv[j,i]*(w[i]-self.b[i]) for i in range(len(w))) for j in range(self.pixel_n_dim)]
        return p[0] if self.pixel_n_dim == 1 else tuple(p)
    @property
    def world_axis_object_components(self):
        return [(f"q{i}", 0, "value") for i in range(self.world_n_dim)]
    @property
    def world_axis_object_classes(self):
        return {f"q{i}": (u.Quantity, (), {"unit": self._un[i]}) for i in range(self.world_n_dim)}

A = [[1,0,0],[0,2,1],[0,1,1]]   # pixel0 separable, pixels 1,2 coupled (det=1)
w = ProbeWCS(A, [10,20,30], shape=(3,4,5))
c = NDCube(np.arange(60.).reshape(3,4,5), wcs=w)
print(c.array_axis_physical_types)
v = c.axis_world_coords_values()
print([(n,x.shape) for n,x in zip(v._fields, v)])
s = c[1:, 2, ::1]
print(s.shape, s.wcs.low_level_wcs.pixel_to_world_values(0,0), w.pixel_to_world_values(0,2,1), s.array_axis_physical_types)
tryit("gc", lambda: dict(c[:, :, 2].global_coords))
tryit("gc2", lambda: dict(c[0, 1].global_coords))
p1 = [q*u.m for q in w.pixel_to_world_values(1.25, 1.5, 0.75)]; p2 = [q*u.m for q in w.pixel_to_world_values(3.5, 2.0, 1.0)]
tryit("cbv", lambda: c._get_crop_by_values_item(p1, p2))
tryit("crop", lambda: c._get_crop_item(p1, p2))
tryit("crop none", lambda: c._get_crop_item([p1[0],None,None],[p2[0],None,None]))
c.extra_coords.add("t", 0, np.arange(3)*u.s, physical_types="time")
tryit("combined", lambda: c.combined_wcs.low_level_wcs.pixel_to_world_values(1,2,1))
r = c.rebin((3,2,1))
tryit("rebin", lambda: (r.shape, r.wcs.low_level_wcs.pixel_to_world_values(0,0,0)))
tryit("awc hl", lambda: [type(x).__name__ for x in c.axis_world_coords()])
