"""C15 — unwrap_wcs_to_fitswcs returns a FITS WCS equivalent to the wrapper chain."""
import random
from fractions import Fraction
import numpy as np

import common as C
import wcsfam as W
from core import err_kind

ID = "C15"
MODEL_OP = "unwrap"
RULE = ("FITS WCS of 1-4 dims (separable, celestial TAN, rotated PC, CD form) under wrapper chains of depth 0-4 built "
        "from SlicedLowLevelWCS (ints, ranges, negative bounds with known shape) and ResampledLowLevelWCS (integer and "
        "fractional factors, arbitrary offsets), plus the WCS of cubes after up to 3 slice/rebin steps, plus non-FITS "
        "bases and an unknown wrapper; the translated WCS is compared with the chain on the full grid and off-grid. "
        "Non-trivial = chain depth >= 1; distinct = the whole case")
TRUSTED = ["the wrapper chain evaluated directly is the reference", "astropy WCS.slice (modelled, compared)"]
ASSUMPTIONS = ["world values compared at rtol 1e-9 / atol 1e-9", "dyadic base parameters so that the model's rationals are the floats the code uses"]


def corpus():
    return C.read_corpus(ID)


def frac(q):
    f = Fraction(float(q))          # exact value of the float
    return int(f) if f.denominator == 1 else [f.numerator, f.denominator]


def unfrac(t):
    return t[0] / t[1] if isinstance(t, list) else t


def gen_chain(rng, shape, depth):
    """wrappers innermost first; tracks the current (numpy-order) shape"""
    chain = []
    cur = list(shape)
    has_neg_prev = False
    for _ in range(depth):
        if not cur:
            break
        prev_sliced = bool(chain) and "sliced" in chain[-1]
        if rng.random() < 0.55 and not has_neg_prev:
            # astropy merges directly nested SlicedLowLevelWCS taking negative numbers literally, so
            # negative items are only meaningful in a slice wrapper that is not adjacent to another one
            allow_neg = not prev_sliced
            items = []
            n_int = 0
            for n in cur:
                r = rng.random()
                if r < 0.25 and n_int < len(cur) - 1 and n > 0:
                    items.append(rng.randint(-n, n - 1) if (allow_neg and rng.random() < 0.4) else rng.randint(0, n - 1)); n_int += 1
                elif r < 0.5:
                    items.append(C.sl())
                else:
                    a = rng.randint(0, max(n - 1, 0))
                    b = rng.randint(a + 1, n) if n > a else a
                    if allow_neg and rng.random() < 0.25 and n > 1:
                        items.append(C.sl(a - n if a > 0 else None, None))
                    else:
                        items.append(C.sl(a, b if rng.random() < 0.7 else None))
            new = []
            for it, n in zip(items, cur):
                if isinstance(it, dict):
                    new.append(len(range(n)[slice(*it["s"])]))
            chain.append({"sliced": items})
            has_neg_prev = any((isinstance(it, int) and it < 0) or (isinstance(it, dict) and any(b is not None and b < 0 for b in it["s"][:2])) for it in items)
            cur = new
        else:
            # factors that keep the shape integral (the property speaks of the resampled shape)
            f = [rng.choice([d for d in (1, 2, 3, 4, 0.5) if (n / d) == int(n / d) and n / d >= 1] or [1]) for n in cur]
            o = [rng.choice([0, 0.5, 1, 1.5, -0.5, 0.25]) for _ in cur]
            chain.append({"resampled": {"factor": f[::-1], "offset": o[::-1]}})   # pixel order
            has_neg_prev = False
            cur = [int(n / q) for n, q in zip(cur, f)]
    return chain


def generate(rng, tier):
    n = 700 if tier == "quick" else 100000
    for _ in range(n):
        nd = rng.choice([1, 2, 2, 3, 3, 4])
        shape = [rng.choice([3, 4, 5, 6]) for _ in range(nd)]
        r = rng.random()
        if r < 0.06:
            # a non-FITS base (the probe WCS or a gWCS) under 0-2 wrappers; depth 0 also behind a high-level wrapper
            yield {"mode": "nonfits", "shape": shape, "wseed": rng.randrange(10**6), "fam": rng.choice(["probe", "gwcs"]),
                   "chain": gen_chain(rng, shape, rng.choice([0, 0, 1, 2])), "hl": rng.random() < 0.5}
        elif r < 0.1:
            yield {"mode": "unknown", "shape": shape, "wseed": rng.randrange(10**6), "fam": "fits_sep", "chain": []}
        elif r < 0.3:
            yield {"mode": "cube", "shape": [rng.choice([4, 6, 8]) for _ in range(nd)], "wseed": rng.randrange(10**6),
                   "fam": rng.choice(["fits_sep", "fits_cel", "fits_rot"]), "steps": rng.randint(1, 3), "chain": []}
        else:
            yield {"mode": "chain", "shape": shape, "wseed": rng.randrange(10**6),
                   "fam": rng.choice(["fits_sep", "fits_cel", "fits_rot", "fits_cd", "fits_crota", "fits_pcsmall"]),
                   "chain": gen_chain(rng, shape, rng.choice([0, 1, 1, 2, 2, 3, 4]))}


def make_base(case):
    rng = random.Random(case["wseed"])
    fam = case["fam"]
    shape = tuple(case["shape"])
    if fam == "fits_cd":
        w = W.make_fits(rng, shape, "fits_rot", True)
        n = w.wcs.naxis
        cd = (w.wcs.get_pc().T * w.wcs.get_cdelt()).T
        from astropy.wcs import WCS
        w2 = WCS(naxis=n)
        w2.wcs.ctype = list(w.wcs.ctype); w2.wcs.cunit = [str(x) for x in w.wcs.cunit]
        w2.wcs.crval = w.wcs.crval; w2.wcs.crpix = w.wcs.crpix
        w2.wcs.cd = cd
        w2.wcs.cname = list(w.wcs.cname)
        w2.wcs.set(); w2.array_shape = shape
        return w2
    if fam == "fits_pcsmall":
        # the scale carried by the PC matrix itself (CDELT = 1, as WCS.to_header() writes a CD-matrix WCS), with a
        # wavelength axis in metres: diagonal ~2e-11, a genuine coupling to its neighbour ~3e-12 (far below 1e-8)
        w0 = W.make_fits(rng, shape, "fits_sep", True)
        from astropy.wcs import WCS
        n = w0.wcs.naxis
        w2 = WCS(naxis=n)
        w2.wcs.ctype = list(w0.wcs.ctype); w2.wcs.cunit = [str(x) for x in w0.wcs.cunit]
        w2.wcs.crval = w0.wcs.crval; w2.wcs.crpix = w0.wcs.crpix
        w2.wcs.cname = list(w0.wcs.cname)
        M = np.diag(np.asarray(w0.wcs.get_cdelt(), dtype=float))
        if n >= 2:
            i = [k for k, c in enumerate(w2.wcs.ctype) if c.startswith("WAVE")]
            i = i[0] if i else 0
            j = (i + 1) % n
            M[i, j] = M[i, i] / 8            # dyadic fraction of the row's own scale
        w2.wcs.pc = M
        w2.wcs.cdelt = [1.0] * n
        w2.wcs.set(); w2.array_shape = shape
        return w2
    if fam == "fits_crota":
        # the legacy spelling of a rotated celestial pair: CDELTi + CROTA2, no PCi_j / CDi_j cards at all
        w0 = W.make_fits(rng, shape, "fits_cel", True)
        from astropy.wcs import WCS
        n = w0.wcs.naxis
        w2 = WCS(naxis=n)
        w2.wcs.ctype = list(w0.wcs.ctype); w2.wcs.cunit = [str(x) for x in w0.wcs.cunit]
        w2.wcs.crval = w0.wcs.crval; w2.wcs.crpix = w0.wcs.crpix; w2.wcs.cdelt = w0.wcs.get_cdelt()
        w2.wcs.cname = list(w0.wcs.cname)
        crota = [0.0] * n
        lat = [i for i, c in enumerate(w2.wcs.ctype) if c.startswith("HPLT")]
        if lat:
            crota[lat[0]] = 30.0
        w2.wcs.crota = crota
        w2.wcs.set(); w2.array_shape = shape
        return w2
    w = W.make_wcs(rng, shape, fam, True)
    if fam == "fits_rot":
        w.wcs.pc = np.round(w.wcs.get_pc() * 64) / 64       # dyadic entries
        w.wcs.set()
    return w


def wrap(base, chain, normalise=False, variant=0):
    """build the wrapper objects; with normalise=True negative items are first converted to their
    numpy meaning (astropy's SlicedLowLevelWCS takes negative numbers literally)"""
    from astropy.wcs.wcsapi import SlicedLowLevelWCS
    from ndcube.wcs.wrappers import ResampledLowLevelWCS
    w = base
    for st in chain:
        if "sliced" in st:
            items = st["sliced"]
            if normalise:
                shp = w.array_shape
                new = []
                for it, n in zip(items, shp):
                    n = int(n)
                    if isinstance(it, dict):
                        a, b, _ = it["s"]
                        new.append(C.sl(a + n if a is not None and a < 0 else a, b + n if b is not None and b < 0 else b))
                    else:
                        new.append(it + n if it < 0 else it)
                items = new
            w = SlicedLowLevelWCS(w, C.to_py_index(items, npint=(variant == 1)))
        else:
            # the documented argument types: lists of numbers, numpy arrays, tuples
            conv = [list, np.array, tuple][variant % 3]
            f, o = st["resampled"]["factor"], st["resampled"]["offset"]
            w = ResampledLowLevelWCS(w, conv(f) if isinstance(f, list) else f, conv(o) if isinstance(o, list) else o)
    return w


def chain_of(w):
    """read the wrapper chain back from the objects (outermost first), as unwrap sees it"""
    from astropy.wcs.wcsapi import SlicedLowLevelWCS
    from astropy.wcs.wcsapi.wrappers.base import BaseWCSWrapper
    from ndcube.wcs.wrappers import ResampledLowLevelWCS
    out = []
    w = w.low_level_wcs if hasattr(w, "low_level_wcs") else w
    while isinstance(w, BaseWCSWrapper):
        if isinstance(w, SlicedLowLevelWCS):
            items = []
            for it in w._slices_array:
                items.append(int(it) if not isinstance(it, slice) else C.sl(None if it.start is None else int(it.start),
                                                                         None if it.stop is None else int(it.stop)))
            out.append({"sliced": items})
        elif isinstance(w, ResampledLowLevelWCS):
            out.append({"resampled": {"factor": [frac(x) for x in w._factor], "offset": [frac(x) for x in w._offset]}})
        else:
            out.append("unknown")
        w = w._wcs
        w = w.low_level_wcs if hasattr(w, "low_level_wcs") else w
    return out, w


def run(case):
    from astropy.wcs import WCS
    from ndcube import NDCube
    from ndcube.wcs.tools import unwrap_wcs_to_fitswcs
    from ndcube.wcs.wrappers import ReorderedLowLevelWCS
    rng = random.Random(case["wseed"] + 2)
    tags = [f"mode={case['mode']}", f"fam={case['fam']}", f"ndim={len(case['shape'])}", f"depth={len(case['chain'])}"]
    res = {"tags": tags, "oracle": None, "model_req": None, "impl": {"err": None}}
    fails = []
    try:
        base = make_base(case)
        if case["mode"] == "nonfits":
            top = wrap(W.low_level(base), case["chain"])
            if case.get("hl") and not case["chain"]:
                from astropy.wcs.wcsapi import HighLevelWCSWrapper
                top = HighLevelWCSWrapper(top)
            tags.append(f"nonfits-depth={len(case['chain'])}")
            try:
                unwrap_wcs_to_fitswcs(top); err = None
            except Exception as e:
                err = err_kind(e)
            res["impl"]["err"] = err
            res["model_req"] = {"op": "unwrap", "nonfits": True, "chain": chain_of(top)[0]}
            res["nonfits_outcome"] = err
            if err != "TypeError":
                fails.append(f"chain over a non-FITS base gave {err or 'a result'} (expected TypeError)")
            raise StopIteration
        if case["mode"] == "unknown":
            n = base.pixel_n_dim
            top = ReorderedLowLevelWCS(base, list(range(n))[::-1], list(range(base.world_n_dim)))
            try:
                unwrap_wcs_to_fitswcs(top); err = None
            except Exception as e:
                err = err_kind(e)
            res["impl"]["err"] = err
            if err != "TypeError":
                fails.append(f"unknown wrapper gave {err or 'a result'} (expected TypeError)")
            raise StopIteration
        hdr0 = base.to_header_string()
        naxis0 = list(base._naxis)
        if case["mode"] == "cube":
            cube = NDCube(C.payload(tuple(case["shape"])), wcs=base)
            for _ in range(case["steps"]):
                sh = cube.data.shape
                if rng.random() < 0.5:
                    bins = [rng.choice([d for d in (1, 2, 3) if s % d == 0]) for s in sh]
                    if all(b == 1 for b in bins):
                        continue
                    cube = cube.rebin(tuple(bins))
                else:
                    idx = []
                    ints = 0
                    for s in sh:
                        if rng.random() < 0.2 and ints < len(sh) - 1:
                            idx.append(rng.randint(-s, s - 1)); ints += 1
                        else:
                            a = rng.randint(0, s - 1)
                            idx.append(slice(a, rng.randint(a + 1, s)))
                    cube = cube[tuple(idx)]
            top = cube.wcs.low_level_wcs
            ref = top
            expect_shape = tuple(cube.data.shape)
        else:
            top = wrap(base, case["chain"], variant=case["wseed"] % 3)
            ref = wrap(base, case["chain"], normalise=True)
            expect_shape = None
        chain, b2 = chain_of(top)
        tags[-1] = f"depth={len(chain)}"
        if chain:
            res["nontrivial"] = repr(sorted(case.items(), key=str))
        pc, cdelt = base.wcs.get_pc(), base.wcs.get_cdelt()
        if base.wcs.has_cd():
            pc, cdelt = base.wcs.cd, np.ones(base.wcs.naxis)
        res["model_req"] = {"op": "unwrap", "crpix": [frac(x) for x in base.wcs.crpix], "cdelt": [frac(x) for x in cdelt],
                            "pc": [[frac(x) for x in row] for row in pc], "naxis": [int(x) for x in base._naxis], "chain": chain}
        try:
            fw, dda = unwrap_wcs_to_fitswcs(top)
            err = None
        except Exception as e:
            fw, err = None, err_kind(e)
        res["impl"]["err"] = err
        if err:
            fails.append(f"valid chain {chain} refused with {err}")
            raise StopIteration
        if not isinstance(fw, WCS):
            fails.append(f"result is {type(fw).__name__}, not a FITS WCS")
        if base.to_header_string() != hdr0 or list(base._naxis) != naxis0:
            fails.append("the base FITS WCS passed in was modified")
        dda = [bool(x) for x in dda]
        if not isinstance(fw, WCS):
            fails.append(f"the translation is a {type(fw).__name__}, not a plain FITS WCS")
        elif list(fw.wcs.ctype) != list(base.wcs.ctype) or [str(x) for x in fw.wcs.cunit] != [str(x) for x in base.wcs.cunit] \
                or len(dda) != base.wcs.naxis:
            fails.append(f"axis types / units / count of the translation ({list(fw.wcs.ctype)}, {len(dda)} flags) are not the base's ({list(base.wcs.ctype)})")
        # numpy-order dropped flags vs the top-level WCS: kept axes = top pixel dims
        if dda.count(False) != top.pixel_n_dim:
            fails.append(f"dropped flags {dda} do not leave {top.pixel_n_dim} axes")
        else:
            tshape = ref.array_shape
            kept = [i for i, d in enumerate(dda) if not d]
            if tshape is not None:
                fshape = tuple(fw.array_shape) if fw.array_shape is not None else tuple(fw._naxis[::-1])
                exp_full = [1] * len(dda)
                for k, i in enumerate(kept):
                    exp_full[i] = int(tshape[k])
                if [int(x) for x in fshape] != exp_full:
                    fails.append(f"array shape {fshape} != sliced/resampled shape {exp_full} (length-1 placeholders at dropped axes)")
                if expect_shape is not None and tuple(tshape) != expect_shape:
                    fails.append("chain array_shape differs from the cube data shape")
            # grid + off-grid comparison
            shp = tshape if tshape is not None else (3,) * top.pixel_n_dim
            pts = C.all_indices(tuple(int(s) for s in shp), 10, rng) if all(int(s) > 0 for s in shp) else []
            pts = pts + [[x + 0.25 for x in p] for p in pts[:3]] + [[x - 0.5 for x in p] for p in pts[:2]]
            for p in pts:
                full = [0.0] * len(dda)
                for k, i in enumerate(kept):
                    full[i] = p[k]
                a = W.p2w(ref, p[::-1])
                b = W.p2w(fw, full[::-1])
                # the chain reports only the kept world axes; match by world axis names
                names_t, names_f = list(top.world_axis_names), list(fw.world_axis_names)
                sel = [names_f.index(nm) for nm in names_t]
                if not W.close(a, [b[i] for i in sel]):
                    fails.append(f"pixel {p} (numpy order): chain gives {a}, translated FITS WCS gives {[b[i] for i in sel]}")
                    break
        m = fw.wcs.cd if fw.wcs.has_cd() else (fw.wcs.get_pc().T * fw.wcs.get_cdelt()).T
        res["obs"] = {"crpix": [float(x) for x in fw.wcs.crpix], "matrix": [[float(x) for x in row] for row in m],
                      "naxis": [int(x) for x in fw._naxis], "dropped": dda}
    except StopIteration:
        pass
    except Exception as e:
        import traceback
        fails.append(f"observing raised {type(e).__name__}: {str(e)[:160]}")
        res["trace"] = traceback.format_exc()[-900:]
    tags.append("outcome=" + (res["impl"]["err"] or "ok"))
    if fails:
        res["oracle"] = "; ".join(fails[:2])
    return res


def compare(case, r, m):
    err = r["impl"]["err"]
    if case["mode"] == "nonfits":
        if m.get("err") != "TypeError":
            return f"model does not refuse a non-FITS base with TypeError: {m}"
        return None if err == "TypeError" else f"implementation gave {err or 'a result'} for a non-FITS base, model says TypeError"
    if err:
        if "err" not in m:
            return f"implementation raised {err}, model returns a WCS"
        return None
    if "err" in m:
        return f"implementation returned a WCS, model says {m['err']}"
    if "obs" not in r:
        return None
    o = r["obs"]
    if o["dropped"] != m["dropped"]:
        return f"dropped flags: implementation {o['dropped']} vs model {m['dropped']}"
    if o["naxis"] != m["naxis"]:
        return f"naxis: implementation {o['naxis']} vs model {m['naxis']}"
    if not np.allclose(o["crpix"], [unfrac(x) for x in m["crpix"]], rtol=1e-12, atol=1e-12):
        return f"crpix: implementation {o['crpix']} vs model {[unfrac(x) for x in m['crpix']]}"
    mm = [[unfrac(x) for x in row] for row in m["matrix"]]
    if not np.allclose(o["matrix"], mm, rtol=1e-12, atol=1e-15):
        return f"linear matrix: implementation {o['matrix']} vs model {mm}"
    return None


def signature(case, failure):
    return "other:" + failure[:60]


def shrink(case):
    # only outer wrappers can be removed without invalidating the inner ones' dimensions
    if case["mode"] == "chain" and len(case["chain"]) > 1:
        yield {**case, "chain": case["chain"][:-1]}
    if case["fam"] not in ("fits_sep",) and case["mode"] in ("chain", "cube"):
        yield {**case, "fam": "fits_sep"}
